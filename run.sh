#!/bin/bash
# Entry point of every MANIFEST command: rebuild vmc (and with it /repo's crates, hooks on) from the
# current working tree, offline, then run one check.  Exit 0 held / 1 violation / 2 machinery failure.
#   run.sh <ID> [quick|thorough]        run.sh replay <file>       run.sh build
set -u
cd "$(dirname "$0")/vmc" || exit 2
export CARGO_NET_OFFLINE=true
build() {
  local log; log=$(mktemp)
  if ! cargo build --release --offline >"$log" 2>&1; then
    cat "$log"; rm -f "$log"; echo "MACHINERY FAILURE: build failed" >&2; return 2
  fi
  rm -f "$log"; return 0
}
case "${1:-}" in
  build) build; exit $? ;;
  replay) build || exit 2; exec ./target/release/vmc replay "$2" ;;
  "") echo "usage: run.sh <ID> [quick|thorough]" >&2; exit 2 ;;
esac
id="$1"; tier="${2:-${VERIF_TIER:-quick}}"
build || exit 2
ulimit -n 65536 2>/dev/null || ulimit -n "$(ulimit -Hn)" 2>/dev/null
exec ./target/release/vmc check "$id" --tier "$tier"
