#!/usr/bin/env python3
"""Re-confirm every stored seeded change against the CURRENT /repo HEAD in a scratch worktree
(/tmp/seedconf, never /repo itself): patch applies, the repository's own tests pass with it, the
demonstration fails with it and passes without it. Updates meta.json:confirmed; prints a table.
usage: reconfirm_seeds.py [seed-name ...]"""
import json, os, re, shutil, subprocess, sys

W = "/tmp/seedconf"
ENV = dict(os.environ, CARGO_TARGET_DIR=W + "/target", CARGO_NET_OFFLINE="true")

def sh(cmd, cwd=W, timeout=1800):
    p = subprocess.run(cmd, shell=True, executable="/bin/bash", cwd=cwd, env=ENV, capture_output=True, text=True, timeout=timeout)
    return p.returncode, (p.stdout + p.stderr)

def one(name):
    d = f"/verif/seeded/{name}"
    patch, demo = f"{d}/patch.diff", f"{d}/demo"
    meta = json.load(open(f"{d}/meta.json"))
    sh("git checkout -q --detach main && git checkout -- . && git clean -fdq -e target")
    head = sh("git rev-parse --short HEAD")[1].strip()
    rc, o = sh(f"git apply --check {patch}")
    if rc != 0:
        return f"{name}: PATCH DOES NOT APPLY to {head}: {o[-200:]}", False
    sh(f"git apply {patch}")
    rc, o = sh("cargo test --workspace --offline 2>&1")
    passed = sum(int(x) for x in re.findall(r"test result: ok\. (\d+) passed", o))
    tests_ok = rc == 0 and "test result: FAILED" not in o and passed >= 105
    run_md = open(f"{demo}/RUN.md").read().replace("\\\n", " ")
    m = re.search(r"cargo test[^\n]*--test[ =]([A-Za-z0-9_\-]+)[^\n]*", run_md)
    if not m:
        sh("git checkout -- .")
        return f"{name}: cannot find demo command", False
    cmd = m.group(0)
    fvar = re.search(r"^\s*F=(\S+)", run_md, re.M)
    if fvar:
        cmd = cmd.replace("$F", fvar.group(1).strip('"\''))
    cmd = re.sub(r"CARGO_TARGET_DIR=\S+", "", cmd)
    cmd = re.sub(r"\s+2>&1.*$", "", cmd).strip().rstrip("`")
    crate = re.search(r"-p\s+(\S+)", cmd)
    crate = crate.group(1) if crate else "vhost"
    tdir = f"{W}/{crate}/tests"
    os.makedirs(tdir, exist_ok=True)
    copied = []
    for f in os.listdir(demo):
        if f.endswith(".rs"):
            shutil.copy(f"{demo}/{f}", tdir)
            copied.append(f"{tdir}/{f}")
    if "--offline" not in cmd:
        cmd += " --offline"
    rc_with, o_with = sh(cmd + " 2>&1")
    sh("git checkout -- vhost vhost-user-backend")
    rc_without, o_without = sh(cmd + " 2>&1")
    for f in copied:
        os.remove(f)
    sh("git checkout -- . ; git clean -fdq -e target")
    ok = tests_ok and rc_with != 0 and rc_without == 0
    meta["confirmed"].update({"base_commit": head, "repo_tests_passed_with_change": passed, "demo_exit_with_change": rc_with, "demo_exit_without_change": rc_without, "reconfirmed_on_head": ok})
    json.dump(meta, open(f"{d}/meta.json", "w"), indent=1)
    msg = f"{name}: head={head} tests={'PASS' if tests_ok else 'FAIL'}({passed}) demo_with={rc_with} demo_without={rc_without} => {'CONFIRMED' if ok else 'REJECTED'}"
    if not ok:
        msg += "\n" + (o[-300:] if not tests_ok else (o_with[-300:] + "\n---\n" + o_without[-300:]))
    return msg, ok

def main():
    if not os.path.isdir(W):
        rc, o = sh(f"git -C /repo worktree add --detach {W} main", cwd="/")
        assert rc == 0, o
    seeds = sys.argv[1:] or sorted(x for x in os.listdir("/verif/seeded") if os.path.isdir(f"/verif/seeded/{x}"))
    bad = []
    for s in seeds:
        msg, ok = one(s)
        print(msg, flush=True)
        if not ok:
            bad.append(s)
    print("NOT CONFIRMED:", bad)

if __name__ == "__main__":
    main()
