#!/bin/bash
# usage: seedtest.sh <patch.diff> <ID> [<ID> ...]   -- apply a seeded change to /repo, run checks, undo.
# Never leaves /repo modified. Prints one line per check: "<ID> exit=<code> <first violation signature>"
set -u
patch="$(readlink -f "$1")"; shift
cd /repo || exit 2
if [ -n "$(git status --porcelain --untracked-files=no)" ]; then echo "repo not clean"; exit 2; fi
if ! git apply --check "$patch" 2>/dev/null; then
  if ! git apply --3way "$patch" 2>/dev/null; then echo "PATCH DOES NOT APPLY: $patch"; git reset -q --hard HEAD; exit 3; fi
  git reset -q
else
  git apply "$patch"
fi
mkdir -p /tmp/seedtest_root; cp /verif/known_findings.jsonl /tmp/seedtest_root/
for id in "$@"; do
  out=$(cd /verif && VERIF_ROOT=/tmp/seedtest_root ./run.sh "$id" quick 2>&1); code=$?
  sig=$(echo "$out" | grep -m1 "signature:" | sed 's/.*signature: //')
  echo "$id exit=$code ${sig}"
done
git checkout -- .
git status --porcelain --untracked-files=no | head -3
