#!/usr/bin/env python3
"""Confirm a seeded change delivered by a sub-agent, in a scratch worktree (never /repo itself):
  1. the patch applies to the current /repo HEAD and the workspace compiles,
  2. the repository's own test suite still passes with it,
  3. the demonstration fails with the change and passes without it.
On success the seed is stored as /verif/seeded/<name>/{patch.diff, demo/, meta.json}.
usage: confirm_seed.py <Cxx> [2|""] [name]   (reads $SEED_BASE/<Cxx>/out/..., default /tmp/seed;
       name = directory under /verif/seeded, default <Cxx>-a / <Cxx>-b; never overwrites an existing seed)"""
import json, os, re, shutil, subprocess, sys

W = os.environ.get("SEEDCONF_W", "/tmp/seedconf")
ENV = dict(os.environ, CARGO_TARGET_DIR=W + "/target", CARGO_NET_OFFLINE="true")

def sh(cmd, cwd=W, timeout=1800):
    p = subprocess.run(cmd, shell=True, executable="/bin/bash", cwd=cwd, env=ENV, capture_output=True, text=True, timeout=timeout)
    return p.returncode, (p.stdout + p.stderr)

def main():
    cid = sys.argv[1]
    suf = sys.argv[2] if len(sys.argv) > 2 else ""
    src = f"{os.environ.get('SEED_BASE', '/tmp/seed')}/{cid}/out"
    patch = f"{src}/patch{suf}.diff"
    demo = f"{src}/demo{suf}"
    meta = json.load(open(f"{src}/meta{suf}.json"))
    name = sys.argv[3] if len(sys.argv) > 3 else f"{cid}-{'b' if suf else 'a'}"
    if os.path.exists(f"/verif/seeded/{name}"):
        print(f"{name}: already exists under /verif/seeded - choose another name")
        return 1
    if not os.path.isdir(W):
        rc, o = sh(f"git -C /repo worktree add --detach {W} main", cwd="/")
        assert rc == 0, o
    sh("git checkout -q --detach main && git checkout -- . && git clean -fdq -e target")
    head = sh("git rev-parse --short HEAD")[1].strip()
    rc, o = sh(f"git apply --check {patch}")
    rebased = False
    if rc != 0:
        rc, o = sh(f"git apply --3way {patch}")
        if rc != 0:
            print(f"{name}: PATCH DOES NOT APPLY to {head}: {o[-300:]}")
            sh("git checkout -- . ; git reset -q")
            return 1
        sh("git reset -q")
        rebased = True
    else:
        sh(f"git apply {patch}")
    diff = sh("git diff")[1]
    # 2. repository tests with the change
    rc, o = sh("cargo test --workspace --offline 2>&1")
    passed = sum(int(x) for x in re.findall(r"test result: ok\. (\d+) passed", o))
    failed = re.findall(r"test result: FAILED", o)
    tests_ok = rc == 0 and not failed and passed >= 105
    # 3. demo
    run_md = open(f"{demo}/RUN.md").read().replace("\\\n", " ")
    m = re.search(r"cargo test[^\n]*--test[ =]([A-Za-z0-9_\-]+)[^\n]*", run_md)
    if not m:
        print(f"{name}: cannot find demo command in RUN.md")
        sh("git checkout -- .")
        return 1
    cmd = m.group(0)
    fvar = re.search(r"^\s*F=(\S+)", run_md, re.M)
    if fvar:
        cmd = cmd.replace("$F", fvar.group(1).strip('"\''))
    cmd = re.sub(r"CARGO_TARGET_DIR=\S+", "", cmd)
    cmd = re.sub(r"\s+2>&1.*$", "", cmd).strip().rstrip("`")
    crate = re.search(r"-p\s+(\S+)", cmd)
    crate = crate.group(1) if crate else "vhost"
    tdir = f"{W}/{crate}/tests"
    os.makedirs(tdir, exist_ok=True)
    copied = []
    for f in os.listdir(demo):
        if f.endswith(".rs"):
            shutil.copy(f"{demo}/{f}", tdir)
            copied.append(f"{tdir}/{f}")
    if "--offline" not in cmd:
        cmd += " --offline"
    rc_with, o_with = sh(cmd + " 2>&1")
    sh("git checkout -- vhost vhost-user-backend")
    rc_without, o_without = sh(cmd + " 2>&1")
    for f in copied:
        os.remove(f)
    sh("git checkout -- . ; git clean -fdq -e target")
    demo_ok = rc_with != 0 and rc_without == 0  # (a demo may also fail by aborting)
    print(f"{name}: base={head} rebased={rebased} tests_with_patch={'PASS' if tests_ok else 'FAIL'}({passed}) demo_with={rc_with} demo_without={rc_without} => {'CONFIRMED' if tests_ok and demo_ok else 'REJECTED'}")
    if not (tests_ok and demo_ok):
        print(o[-400:] if not tests_ok else (o_with[-300:] + "\n---\n" + o_without[-300:]))
        return 1
    dst = f"/verif/seeded/{name}"
    shutil.rmtree(dst, ignore_errors=True)
    os.makedirs(dst)
    open(f"{dst}/patch.diff", "w").write(diff)
    shutil.copytree(demo, f"{dst}/demo")
    meta_out = {
        "property": meta.get("property", cid),
        "summary": meta.get("summary"),
        "needs_to_manifest": meta.get("needs_to_manifest"),
        "files_touched": meta.get("files_touched"),
        "confirmed": {
            "base_commit": head,
            "patch_rebased_onto_current_head": rebased,
            "ran": ["git apply patch.diff", "cargo test --workspace --offline  (with the change)", cmd + "  (with the change: must fail)", cmd + "  (without the change: must pass)"],
            "repo_tests_passed_with_change": passed,
            "demo_exit_with_change": rc_with,
            "demo_exit_without_change": rc_without,
        },
        "detected_by": [],
    }
    json.dump(meta_out, open(f"{dst}/meta.json", "w"), indent=1)
    return 0

if __name__ == "__main__":
    sys.exit(main())
