#!/bin/bash
# Runs every check registered in MANIFEST.json (tier $1, default quick) and prints exit codes.
# A copy of each evidence file is kept under coverage/<tier>/ (DESIGN.md section 10 is generated
# from those copies by gen_design_tables.py).
cd /verif || exit 2
tier="${1:-quick}"
./run.sh build || exit 2
rc=0
for id in $(python3 -c "import json;print(' '.join(c['property_id'] for c in json.load(open('MANIFEST.json'))['checks']))"); do
  s=$(date +%s.%N)
  out=$(./run.sh "$id" "$tier" 2>&1); code=$?
  e=$(date +%s.%N)
  mkdir -p "coverage/$tier"; cp "evidence/$id.json" "coverage/$tier/$id.json" 2>/dev/null
  printf "%s exit=%d %.1fs %s\n" "$id" "$code" "$(echo "$e - $s" | bc)" "$(echo "$out" | grep -c '^KNOWN-FINDING') known"
  [ $code -ne 0 ] && { rc=1; echo "$out" | grep -m3 "signature\|MACHINERY"; }
done
exit $rc
