#!/usr/bin/env python3
"""Regenerates /verif/MANIFEST.json from the table below (kept in one place so that the manifest is
always valid and `not_applicable` is always the complement of the claimed checks)."""
import json, os, subprocess

ROOT = os.path.dirname(os.path.abspath(__file__))

# id -> (level, engine, technique, level text, level note, design ref)
CHECKS = {
    "C20": ("exploration", "lattice",
            "exhaustive enumeration of the full product of per-field boundary lattices against a reference predicate",
            "Every message validator is evaluated on the complete product of per-field boundary sets (every single bit, every alignment/limit neighbour, 0/1/max; 4.7e7 tuples quick, 1.3e10 thorough) built from raw bytes, and on every request code in [0,4096] and +-64 around each power of two, and compared with an independently written predicate. Validators are pure functions of a few fields whose decision boundaries lie on those values, so the boundary product decides them up to values strictly between lattice points.",
            "Trusted: the reference predicates in vmc/src/model/validators.rs transcribe the statement's rules; padding bytes the specification leaves open are don't-care. Values strictly inside lattice intervals are not enumerated.",
            "DESIGN.md 4/C20"),
    "C01": ("exploration", "lattice",
            "exhaustive enumeration of every message x argument lattice x flag/negotiation configuration, byte-for-byte comparison with an independent specification codec over a socketpair",
            "For all four channels every message the crate emits (frontend requests, backend replies/acks, backend-initiated requests and their acks, GPU requests) is produced for the whole argument lattice (pairwise-distinct byte-asymmetric patterns, per-field boundary sweeps, 1..=32 regions, config lengths 1..=4084, queue indexes 0..=255, GPU payloads 0..=4096) under REPLY_ACK negotiated/not x NEED_REPLY on/off, captured by a raw peer and compared byte for byte and descriptor for descriptor (identity, attached to byte 0 only) with an independently written codec; conversely each spec-encoded message is fed to the crate and the decoded values compared. Encoding is a pure function of the arguments and the configuration, so exhaustive lattice enumeration is the appropriate level.",
            "Trusted: vmc/src/spec.rs as the specification (written offline from the vhost-user / vhost-user-gpu documents; SET_LOG_BASE reply payload, GET_SHMEM_CONFIG and SHMEM_MAP/UNMAP layouts as upstream defines them). Padding bytes the specification leaves open are don't-care. Values strictly between lattice points are not enumerated.",
            "DESIGN.md 4/C01"),
    "C02": ("model_checking", "lattice",
            "exhaustive enumeration of (operation x accepted-argument lattice x negotiation/flag configuration) and of all ordered operation pairs on the real Frontend<->BackendReqHandler pair in single-threaded coop mode, recording handler as oracle",
            "Every frontend operation is invoked with the whole accepted-argument lattice (64-bit patterns, queue indexes 0..=255 and 256..0x7fff, config windows and payload lengths, 1..=32 regions, five descriptor kinds) under REPLY_ACK negotiated/not x NEED_REPLY on/off against the real backend request server behind the library's Mutex adapter; all ordered pairs of operations cover the position in a longer session. Oracle: the recording handler's log grew by exactly one entry - same operation, equal arguments, payload bytes, files with the same (st_dev, st_ino) - and did so before the call returned whenever an ack/reply was awaited; every locally rejected argument class leaves 0 bytes on the wire. The RwLock/RefCell VhostBackend adapters are driven with a method-name-logging inner object.",
            "Trusted: file identity via fstat; coop driver behaves like the daemon thread. Two recorded findings (SET_LOG_FD and plain SET_LOG_BASE have no handler operation) are listed in known_findings.jsonl.",
            "DESIGN.md 4/C02"),
    "C03": ("model_checking", "lattice",
            "exhaustive enumeration of (operation x scripted handler outcome x negotiation x flags x position) on the real Frontend<->BackendReqHandler pair in single-threaded coop mode; 'would block forever' decided by the interposer",
            "Every reply-bearing and every acknowledged frontend operation is executed against the real backend request server for every scripted handler outcome (success values incl. 0/max patterns, with/without file, Err, wrong-length config data), with REPLY_ACK negotiated or not, NEED_REPLY on/off, as first call and after a successful call. Both endpoints run on one thread; when the frontend would wait on an empty socket the interposer runs the server, and if the socket is still empty the call is decided to wait forever - no timeout is involved. The returned value is compared with the scripted one.",
            "Trusted: the server-side driver behaves like the daemon thread (serves while Ok, shuts the socket down on Err). Values outside the scripted variants are not covered.",
            "DESIGN.md 4/C03"),
    "C04": ("model_checking", "xstate",
            "explicit-state BFS to closure over request histories on the real BackendReqHandler, reference protocol model co-executed on every transition, plus a no-dedup differential run",
            "Breadth-first search over histories of the full request alphabet (a well-formed instance of every code 1..=44 and feature-setting variants x NEED_REPLY x scripted handler success/failure, ~430 operations) against the real backend request server driven by a raw peer with the independent codec. After every request: bytes left unread = 0, handler invoked exactly when prescribed, and the bytes written equal the model's prescription (one reply with same code/REPLY/version 1/size=payload, one u64 ack that is zero iff the handler succeeded, or nothing). States are deduplicated on the negotiation state the server's behaviour can depend on; the search runs until no new state appears (closure, reached at depth 3-4) and is then repeated without deduplication to a smaller depth as a guard against a too-coarse key.",
            "Trusted: the reference model's weak readings documented in DESIGN 4/C04; the dedup key is model state only (no accessor hook into the server), guarded by the no-dedup rerun. 'Random beyond the bound' is not claimed.",
            "DESIGN.md 4/C04"),
    "C05": ("model_checking", "lattice",
            "deviation-bounded exhaustive enumeration (0, 1, 2 deviations from every well-formed request, two negotiation states, second-message position) against the real BackendReqHandler, plus exhaustive enumeration of all adversarial well-typed message sequences up to length 3 against a running VhostUserDaemon; panics caught, fatal signals trapped, thread death detected, handler arguments checked by an independent validity predicate",
            "For a well-formed instance of every request code the message itself, every single deviation (request code 0..=64 and 2^k neighbours, each flag bit, size field over {0,n-1,n+1,4095,4096,4097,2^31,2^32-1}, each 64/32-bit body field over the boundary lattice, truncated/extended body, descriptor counts {0,1,2,n-1,n+1,32,33,40}, descriptors attached to the body segment) and pairs of deviations on different dimensions are fed by a raw peer in two negotiation states and as the second message after each state-changing message (1.2e5 messages quick). The harness is built with overflow checks and debug assertions; a panic, abort or fatal signal is a violation, and every argument tuple the recording handler sees must satisfy the independently written validity predicate with exactly the prescribed file count. Part (ii): against a running daemon (real VhostUserHandler, epoll worker, dirty-log bitmap), every sequence of length 1 and 2 and the length-3 sequences 'memory-table message; ring-address / log / kick message; third message' over 146 well-typed messages with adversarial 64-bit fields (ranges ending just below 2^64, huge sizes / offsets, ring addresses at region edges +-16, ring indexes up to 2^32-1, log windows of 1 byte / 2^62 bytes / unaligned / beyond the file) plus 'guest kick followed by add_used in the backend' (2.8e4 sequences quick); no thread may panic or die and the daemon must keep answering.",
            "Trusted: model/validators.rs as the validity rules; reads outside the received message are detected only if they fault. Streams of more than two deviating messages / more than two deviations / daemon sequences longer than 3 are outside the bound.",
            "DESIGN.md 4/C05"),
    "C06": ("model_checking", "lattice",
            "deviation-bounded exhaustive enumeration (0, 1, 2 mutations of the correct reply) against the real endpoints with a scripted raw peer, acceptance predicate evaluated on the bytes",
            "For each reply-bearing and acknowledged frontend operation, the 5 proxy calls in ack mode and the 4 reply-awaiting GPU calls: the correct reply, every single mutation and every pair of mutations on different dimensions ({other/invalid code, each flag bit, version, size field, body truncation/extension, each body field over a lattice, 0..=3 descriptors}) is pre-queued by a raw peer that closes when the endpoint keeps waiting. If the call returns Ok(v), the bytes must satisfy the statement's acceptance predicate and decode to v; no panic, no indefinite wait. The frontend's request server is fed codes 0..=16 and outliers x flag words x bodies x size deltas x 0..=3 descriptors; the application handler may be invoked only for well-formed requests with exactly the prescribed descriptors.",
            "Trusted: the acceptance predicate (REPLY flag, same code, valid body, descriptors exactly when defined) written from the statement - the crate may reject more; more than two simultaneous deviations and random byte strings are outside the bound.",
            "DESIGN.md 4/C06"),
    "C07": ("model_checking", "xstate",
            "exhaustive enumeration of all 2^11 gating-bit subsets on both endpoints plus explicit-state BFS to closure over negotiation histories with a reference set-of-bits model",
            "All 2048 subsets of the gating protocol bits are acknowledged through the real negotiation API and every gated operation is attempted on the frontend endpoint (must be refused with nothing written unless its bit is acknowledged) and every gated request on the backend server (error and empty handler log unless acknowledged; all subsets at thorough). Orders are covered by a BFS to closure (60 states) over {GET_FEATURES answers, SET_FEATURES, GET/SET_PROTOCOL_FEATURES with 0/each bit/all/all-minus-one, each gated operation} on the frontend endpoint; the server-side histories are C04's BFS whose oracle includes the handler-call count. Proxy flags (8 x 5) and the REPLY_ACK offer for 5 device feature sets are enumerated completely.",
            "Trusted: 'acknowledged' = what the frontend sent on this connection; the LOG_SHMFD gate is read as 'no descriptor-carrying SET_LOG_BASE'. postcopy/xen builds are not covered.",
            "DESIGN.md 4/C07"),
    "C08": ("fault_enumeration", "lattice",
            "exhaustive enumeration of stream segmentations (2-/3-splits, byte-by-byte), truncation offsets and short-write/EAGAIN patterns on the real endpoints via libc interposition",
            "For every message type of every receiver (backend request server, frontend reply paths, frontend request server, Backend/GPU proxy ack paths) every 2-split position (all positions for short messages, boundary neighbourhoods + stride for long ones), byte-by-byte delivery and 3-splits are delivered by a raw peer that writes the next segment only when the receiver starts waiting; every cut offset followed by close; for every sender every single short-write position, pairs and EAGAIN/EINTR patterns injected at sendmsg. Oracle: same handler log, reply bytes and result as unsplit delivery; bytes exactly once and in order with descriptors only at offset 0; truncation = error, clean Disconnected only at offset 0, nothing dispatched, no indefinite wait.",
            "Trusted: kernel unix-socket semantics for the segment boundaries; the unsplit run of the same message is the reference. Random segmentations with delays are not claimed.",
            "DESIGN.md 4/C08"),
    "C09": ("fault_enumeration", "lattice",
            "exhaustive enumeration of (message type x malformation x descriptor count/position x negotiation x second message x teardown point x handler keeps/drops) scenarios on the real endpoints with /proc/self/fd and fstat identity as oracle",
            "Every request type is sent valid, with size+1, truncated body, REPLY flag, invalid body or unknown code, carrying 0..=40 distinct memfds attached to header or body, optionally followed by a second descriptor-carrying message, and the endpoints are torn down before serving, after the first or after the second message, with a handler that keeps or drops its files; likewise every frontend operation's reply with 0..=33 unexpected descriptors, a full successful session with lent descriptors, and the frontend request server with 0..=40 descriptors. After teardown, for every passed file the number of open descriptors must be 1 (the harness's original) plus the copies the application holds, no identity is delivered twice, descriptors lent to sending calls are still open and the same file, and the process's descriptor numbers equal the snapshot taken before plus what is held.",
            "Trusted: /proc/self/fd, fstat. Serial execution inside one process. Daemon-level scenarios (vring kick/call files) are covered by the daemon checks' own accounting where present.",
            "DESIGN.md 4/C09"),
    "C10": ("model_checking", "sched",
            "stateless depth-first exploration of the interleavings of 2-3 real caller threads on clones of one endpoint and an answering peer, under a controlled scheduler with scheduling points at the endpoint mutex (lock hook), sendmsg and recvmsg",
            "Two (three at thorough) real threads each perform one call on clones of the same Frontend, Backend proxy or GPU proxy; the peer is an environment actor that consumes exactly one request at a time and answers it with a reply tagged by the request's identity. All schedules with at most 2 (4 at thorough) preemptions are enumerated for ordered pairs of reply-bearing, acknowledged and fire-and-forget operations (NEED_REPLY on/off, ack/no-ack mode). Whether a thread can proceed at the endpoint mutex is decided by try_lock while every thread is parked, so 'all calls complete' and self-deadlock are decided without timeouts. Oracle in every state: no request is on the wire while a reply is unread at the endpoint and no request sits behind a reply-awaiting request; at the end every caller returned the value tagged for its own request and all callers terminated.",
            "Trusted: the lock_point hook sits in front of the endpoint mutex acquisition (a mutant that bypasses node() is still handled: a thread blocked in a futex is detected through /proc). Preemption-bounded exploration; randomized stress is not claimed.",
            "DESIGN.md 4/C10"),
    "C11": ("model_checking", "xstate",
            "explicit-state BFS to closure over control-message histories on a real VhostUserDaemon, reference vring state machine co-executed on every transition, state key = model state + implementation state (ring flags, epoll registrations)",
            "Breadth-first search over histories of {SET_FEATURES with/without PROTOCOL_FEATURES, SET_VRING_KICK new/no descriptor, SET_VRING_CALL, SET_VRING_ENABLE 0/1, GET_VRING_BASE, RESET_DEVICE, guest kick on the current descriptor} on two rings of a real daemon (RwLock and Mutex rings, one and two workers), every message acknowledged and a two-round probe listener on each worker as ordering barrier, so 'not dispatched' is observed without sleeping. After every step the dispatch count per ring must equal the reference model's (a pending kick is dispatched iff the ring is started and enabled now; kicks raised while inactive stay in the eventfd and are dispatched by the activating step), GET_VRING_BASE returns the index and drops both descriptors, and each worker's epoll set (read from /proc fdinfo) holds exactly the kick descriptors of active rings. The key includes the implementation's ring flags and epoll registrations; closure is reached at 296 states (depth 9).",
            "Trusted: /proc/self/fdinfo for the epoll set; the two-probe barrier argument (DESIGN 2.1). Steps the protocol forbids in the current state are not in the alphabet for that state. Random histories beyond the closure are not claimed.",
            "DESIGN.md 4/C11"),
    "C12": ("model_checking", "sched",
            "stateless depth-first exploration of thread interleavings of the real worker and daemon threads under a controlled scheduler (CHESS style), iterated preemption bound, scheduling points at the libc boundary",
            "The real vring worker thread and the real daemon thread of a VhostUserDaemon run as OS threads serialised by a controller; the frontend script and the guest kicks are environment actors executed atomically by the explorer. Scheduling points are the library threads' recvmsg / sendmsg / epoll_wait (before and after it returns) / epoll_ctl - intercepted at the libc boundary, so a modified library keeps being cut at whatever calls it makes - plus the entry of the backend's handle_event. For the scenarios disable/enable, stop(GET_VRING_BASE)/restart and reset/enable (RwLock and Mutex rings, 1-2 kicks) all schedules with at most 2 (3 at thorough) preemptions are enumerated after a deterministic set-up prefix; blocking is decided by evaluating each parked thread's wait condition, a worker that only spins is treated as yielding. Oracle in every state: handle_event is not entered after the reply to a disabling/stopping message was written unless a later enabling message was already sent; at the end of every execution the last kick was followed by a dispatch while the ring was active, the worker is alive and the frontend's script completed. Every violating schedule is re-executed and must reproduce its trace before it is reported.",
            "Trusted: data-race freedom between scheduling points (state is kernel state or lock protected), sequentially consistent scheduling; preemption-bounded, not unbounded, exploration. One recorded finding (dispatch not atomic with the enabled check).",
            "DESIGN.md 4/C12"),
    "C13": ("model_checking", "xstate",
            "explicit-state BFS over memory-table histories on a real VhostUserDaemon with a reference region map co-executed, byte probes through file and guest memory and translation probes via SET_VRING_ADDR after every step",
            "Breadth-first search over histories of {SET_MEM_TABLE of 1-3 regions in both orders, SET_MEM_TABLE with a failing backend callback, ADD_MEM_REG, REM_MEM_REG, REM_MEM_REG with a wrong size} over an 8-region alphabet (adjacent, overlapping, same start, non-zero mmap offsets, 1/2/3 pages, user ranges low / around 2^47 / ending at 2^64-0x1000, un-mmappable descriptor, misaligned offset) against a real daemon. After every step: notification count, the guest memory held by the backend vs the reference map (range, file identity, offset), a tag written through the file read back through guest memory and vice versa at the first and last byte of each region, and SET_VRING_ADDR probes at every region edge +-1 whose installed queue address must equal gpa_base + (va - user_base) or be rejected. Failed requests end the session, so the harness reconnects to the same daemon - which is also how 'a failed update leaves the table intact' is observed, and gives the differential between states reached with and without reconnect.",
            "Trusted: which updates must succeed is demanded only for clearly valid tables; key = model map + last snapshot handed to the backend (no accessor to the translation table; probes cover it on every checked transition). Depth 3 quick / 5 thorough, closure not claimed.",
            "DESIGN.md 4/C13"),
    "C14": ("model_checking", "lattice",
            "exhaustive sweeps (ring index 0..=255, sizes/bases/used-indexes up to 0..=65535, feature masks, channel flags) and all short histories over {table A/B, ring address, call fd1/fd2/none, add_used+signal} on a real daemon, queue state read inside the worker by a probe listener",
            "Per-ring messages are sent for every ring index 0..=255 (rejected iff out of range); SET_VRING_NUM for 0..=300 and boundaries (all of 0..=65535 at thorough) with the queue size read back by a custom listener running inside the worker; SET_VRING_BASE/GET_VRING_BASE and the used index found in guest memory at SET_VRING_ADDR over 0..=260 and boundaries (0..=65535 at thorough); 343 address triples; SET_FEATURES for 7 offered masks x single bits / offered+-one bit / patterns on 1-3 queues (subset check, exact delivery to acked_features, EVENT_IDX to every queue and the backend); the backend-request channel under the 8 subsets of {REPLY_ACK, SHARED_OBJECT, SHMEM}; and every history of length <= 4 (5 thorough) over {memory table A, B, SET_VRING_ADDR, SET_VRING_CALL fd1/fd2/none, add_used+signal}, after which the used element must be in the latest table's file and only the latest call descriptor's counter may have moved.",
            "Trusted: virtio-queue accessors as the view of the ring; eventfd counters from /proc fdinfo. Values between sweep points at quick tier.",
            "DESIGN.md 4/C14"),
    "C15": ("model_checking", "sched",
            "exhaustive (layout x log window x write offset/length) lattice and all short SET_LOG_BASE/memory-table histories on a real daemon with the library's BitmapMmapRegion, plus stateless exploration of every interleaving of N concurrent writers' atomic accesses to one log byte",
            "Inputs: 8 region layouts (1-4 regions sharing log bytes, guest-adjacent regions, a region crossing a log-byte boundary, three unaligned layouts) x log windows at two file offsets between guard pages x log sizes {needed-1, needed, needed+1, 4096} x every (offset, length) pair over the page-boundary lattice written through GuestMemory::write_slice, a write spanning two regions and a used-ring update by the backend: the log window must equal the independently computed page-set bitmap (bit gpa/4096, LSB first), guard bytes must be untouched, and SET_LOG_BASE must be rejected iff a region is unaligned or the log too small. Histories: every sequence of length <= 3 (4 thorough) over {SET_LOG_BASE, table A, table A+B, ADD B, REM B, write A, write B}. Schedules: N = 2,3 (up to 6 thorough) real writer threads mark distinct bits of the same log byte; every atomic access of the bitmap is a scheduling point (verif-hooks AtomicU8), all interleavings are enumerated and the final byte must be the OR of all bits.",
            "Trusted: sequentially consistent scheduler (a single RMW is insensitive to Relaxed ordering); 16 concurrent writers are outside an exhaustive bound and not claimed. One recorded finding (memory installed after SET_LOG_BASE is not logged).",
            "DESIGN.md 4/C15"),
    "C16": ("model_checking", "sched",
            "stateless depth-first exploration of the interleavings of the real daemon thread with 1-3 real shutdown callers and a scripted peer under a controlled scheduler, plus sequential fault enumeration of peer-close offsets",
            "For 0..=3 concurrent ShutdownHandle::shutdown() callers and 11 peer behaviours (idle, header only, full request, 2-3 fragments, close at several byte offsets, invalid header) all schedules of the daemon thread (points: each recvmsg, sendmsg, the final socket shutdown), the callers (a point before the call and at the socket shutdown, i.e. between storing the flag and shutting the socket down) and the peer script with at most 2 (3 at thorough) preemptions are enumerated. At quiescence the explorer decides: the daemon thread has exited (or wait() would never return), wait() = Ok after a shutdown request and Err for a disconnect seen while reading without one, the peer reads end-of-stream, and a second start() on the same listener serves a request. Sequentially, the peer closes at every byte offset 0..=20 of a request under start+wait and under serve() (result mapping, exit events raised), and the process's thread count returns to its initial value after dropping the daemons.",
            "Trusted: thread exit detected through /proc/self/task; preemption-bounded exploration. A peer vanishing while the daemon writes (SocketBroken) is accepted either way.",
            "DESIGN.md 4/C16"),
    "C17": ("model_checking", "lattice",
            "exhaustive enumeration of queues-per-thread configurations (all mask assignments for n<=4 queues on <=3 workers) x every queue kicked on a real daemon, plus custom listener ids over the 64-bit boundary set",
            "For every assignment of n = 1..=4 (5 at thorough) queues to 1..=3 worker masks drawn from all non-empty subsets of the n bits (and masks with bits beyond n) a real daemon is started, every ring is given a distinct size, started and enabled, every queue is kicked once and a barrier is placed on every worker: exactly one dispatch must be observed, on the first thread whose mask contains the queue, with event id = number of lower-numbered queues in that mask, and vrings[event id] must be the kicked ring (identified by its size); the exit event must be registered with id num_queues. Custom listener ids {0..5, 255, 256, 65534..65538, 2^32+k, 2^64-1} must be refused (reserved range, or not representable) or delivered with exactly the registered id while queues keep working.",
            "Trusted: ring identity by configured size; /proc fdinfo for the exit registration. 6 queues on 3 workers is covered only partially (time bound, reported as cap).",
            "DESIGN.md 4/C17"),
    "C18": ("model_checking", "lattice",
            "exhaustive enumeration of all request histories up to length 3 x handler results x REPLY_ACK on the real Backend proxy<->FrontendReqHandler pair in coop mode, plus independent decoding of the acknowledgement bytes by a raw peer",
            "The five backend-initiated request kinds are issued through the real proxy to the real frontend request server for the UUID / mapping-descriptor lattice, every handler result class (0, non-zero values, six errno values, error without errno), REPLY_ACK on/off and all histories of length 1-2 (length 3 over a reduced alphabet; all at thorough) that mix failing and succeeding requests. Oracle: exactly one handler call with equal arguments and the same file; with REPLY_ACK the proxy succeeds iff the handler returned 0 and each call's status belongs to its own request (a missing or stray ack would shift it; the socket must be empty at the end); without REPLY_ACK nothing is written back or awaited. The ack value (value / negated errno) is decoded from the wire by an independent raw peer for every (kind, result, REPLY_ACK, NEED_REPLY).",
            "Trusted: the independent codec; single-threaded coop driver. Histories longer than 3 are outside the bound.",
            "DESIGN.md 4/C18"),
    "C19": ("exploration", "lattice",
            "exhaustive enumeration of every kernel-backend operation x argument lattice under ioctl/open64 interposition, compared with a gcc-compiled UAPI reference",
            "Every trait operation of the kernel-vhost, vhost-net, vhost-vsock and vhost-vDPA backends is executed on an intercepted dummy device for the whole argument lattice (queue indexes, 64-bit values, region tables of 0..=257 entries, config buffers of 0..=256 bytes, all IOTLB type x permission pairs in v1 and v2, 3 guest memory layouts, all ring-size/max/log-flag combinations); the captured (request, argument bytes) are compared with numbers, sizes and offsets computed by gcc from <linux/vhost.h>, the value returned with what the scripted kernel wrote back. The operations are single, non-interacting calls, so per-operation exhaustive input enumeration is the right level.",
            "Trusted: gcc + /usr/include/linux/vhost.h as the UAPI; dummy devices behind the interposer (no real kernel vhost); vm-memory's get_host_address as the translation reference. Implicit struct padding and the unused tail of the IOTLB union are don't-care.",
            "DESIGN.md 4/C19"),
}

REASONS_NOT_YET = "check not built yet (construction in progress, see DESIGN.md section 10); not claimed"

def main():
    ids = [json.loads(l)["id"] for l in open(os.path.join(ROOT, "properties.jsonl"))]
    hooks = subprocess.run(["git", "-C", "/repo", "log", "--format=%h %s"], capture_output=True, text=True).stdout.splitlines()
    hook_commits = [l.split()[0] for l in hooks if "verif-hooks" in l]
    checks = []
    for cid in ids:
        if cid not in CHECKS:
            continue
        level, engine, technique, text, note, ref = CHECKS[cid]
        checks.append({
            "property_id": cid,
            "quick_cmd": f"./run.sh {cid} quick",
            "thorough_cmd": f"./run.sh {cid} thorough",
            "evidence_file": f"/verif/evidence/{cid}.json",
            "replay_cmd_template": "./run.sh replay {path}",
            "engine": engine,
            "level_claimed": {"category": level, "text": text, "design_ref": ref},
            "level_note": note,
            "technique": technique,
        })
    na_path = os.path.join(ROOT, "not_applicable.json")
    na_reasons = json.load(open(na_path)) if os.path.exists(na_path) else {}
    m = {
        "version": 1,
        "setup_cmd": "./run.sh build",
        "hooks": {
            "guard": "cargo feature `verif-hooks` (crates vhost and vhost-user-backend; off by default)",
            "enable": "vmc/Cargo.toml depends on /repo/vhost and /repo/vhost-user-backend by path with features=[\"verif-hooks\"]; every run.sh invocation rebuilds them from the working tree",
            "baseline_off_cmd": "cd /repo && (cargo nextest run --workspace --no-fail-fast --test-threads 8 --offline || cargo test --workspace --no-fail-fast --offline)",
            "source_commits": hook_commits,
            "add_only": True,
        },
        "engines": [
            {"name": "lattice", "path": "vmc/src/lattice.rs", "serves_properties": [c for c in CHECKS if CHECKS[c][1] == "lattice"],
             "kind_free_text": "E3: exhaustive enumeration of finite boundary lattices / deviation-bounded (0,1,2) mutation spaces on the real code"},
            {"name": "xstate", "path": "vmc/src/xstate.rs", "serves_properties": [c for c in CHECKS if CHECKS[c][1] == "xstate"],
             "kind_free_text": "E1: replay-based explicit-state BFS over operation histories of real objects, reference model co-executed on every transition"},
            {"name": "sched", "path": "vmc/src/sched.rs", "serves_properties": [c for c in CHECKS if CHECKS[c][1] == "sched"],
             "kind_free_text": "E2: CHESS-style stateless DFS over thread interleavings of the real code (real OS threads serialised at libc-level scheduling points), iterated preemption bound"},
        ],
        "checks": checks,
        "not_applicable": [{"property_id": i, "reason": na_reasons.get(i, REASONS_NOT_YET)} for i in ids if i not in CHECKS],
        "notes": "All checks run the real library code; exit 0 held / 1 VIOLATION / 2 machinery failure. Known findings: /verif/known_findings.jsonl.",
    }
    json.dump(m, open(os.path.join(ROOT, "MANIFEST.json"), "w"), indent=1)
    print("checks:", [c["property_id"] for c in checks])

if __name__ == "__main__":
    main()
