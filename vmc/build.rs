use std::process::Command;

fn main() {
    println!("cargo:rerun-if-changed=uapi_dump.c");
    println!("cargo:rerun-if-changed=/usr/include/linux/vhost.h");
    println!("cargo:rerun-if-changed=/usr/include/linux/vhost_types.h");
    let out = std::env::var("OUT_DIR").unwrap();
    let exe = format!("{out}/uapi_dump");
    let st = Command::new("gcc")
        .args(["-O0", "-o", &exe, "uapi_dump.c"])
        .status()
        .expect("gcc not found");
    assert!(st.success(), "uapi_dump.c failed to compile");
    let o = Command::new(&exe).output().expect("uapi_dump failed to run");
    assert!(o.status.success());
    std::fs::write(format!("{out}/uapi_ref.rs"), o.stdout).unwrap();
}
