//! vmc: bounded exhaustive exploration of rust-vmm/vhost (see /verif/DESIGN.md).

mod checks;
mod crash;
mod daemonh;
mod feops;
mod feraw;
mod lattice;
mod model;
mod pair;
mod pxops;
mod rawpeer;
mod recorder;
mod report;
mod sched;
mod spec;
mod sysshim;
mod wirereq;
mod xstate;

use report::Report;

fn usage() -> ! {
    eprintln!("usage: vmc check <ID> [--tier quick|thorough] | vmc replay <file>");
    std::process::exit(2)
}

fn level_of(id: &str) -> &'static str {
    match id {
        "C01" | "C19" | "C20" => "exploration",
        "C08" | "C09" => "fault_enumeration",
        _ => "model_checking",
    }
}

fn run_check(id: &str, rep: &mut Report) -> bool {
    match id {
        "C01" => checks::c01::run(rep),
        "C02" => checks::c02::run(rep),
        "C03" => checks::c03::run(rep),
        "C04" => checks::c04::run(rep),
        "C05" => checks::c05::run(rep),
        "C06" => checks::c06::run(rep),
        "C07" => checks::c07::run(rep),
        "C08" => checks::c08::run(rep),
        "C09" => checks::c09::run(rep),
        "C10" => checks::c10::run(rep),
        "C11" => checks::c11::run(rep),
        "C12" => checks::c12::run(rep),
        "C13" => checks::c13::run(rep),
        "C14" => checks::c14::run(rep),
        "C15" => checks::c15::run(rep),
        "C16" => checks::c16::run(rep),
        "C17" => checks::c17::run(rep),
        "C18" => checks::c18::run(rep),
        "C19" => checks::c19::run(rep),
        "C20" => checks::c20::run(rep),
        _ => return false,
    }
    true
}

fn main() {
    let args: Vec<String> = std::env::args().collect();
    if args.len() < 3 {
        usage();
    }
    match args[1].as_str() {
        "check" => {
            let id = args[2].clone();
            let mut tier = std::env::var("VERIF_TIER").unwrap_or_else(|_| "quick".into());
            let mut i = 3;
            while i < args.len() {
                if args[i] == "--tier" && i + 1 < args.len() {
                    tier = args[i + 1].clone();
                    i += 1;
                }
                i += 1;
            }
            if tier != "quick" && tier != "thorough" {
                tier = "quick".into();
            }
            if let Err(e) = sysshim::self_test() {
                eprintln!("MACHINERY FAILURE: {e}");
                std::process::exit(2);
            }
            // a fatal signal (abort on a double close, memory fault, ...) while library code runs under a
            // check is reported as a violation of that check with the registered case (crash.rs)
            if id.len() == 3 && id.starts_with('C') {
                crash::install(&id);
                crash::install_lock_hook(&id);
            }
            // last line of defence against a check that hangs (e.g. a library thread stuck in a way the
            // harness does not recognise): never a verdict, but never an endless run either
            {
                let limit = if tier == "thorough" { 5 * 3600 } else { 25 * 60 };
                let idc = id.clone();
                std::thread::spawn(move || {
                    std::thread::sleep(std::time::Duration::from_secs(limit));
                    eprintln!("MACHINERY FAILURE: check {idc} exceeded its watchdog limit of {limit} s");
                    std::process::exit(2);
                });
            }
            daemonh::install_panic_watch();
            let mut rep = Report::new(&id, &tier, level_of(&id));
            let res = std::panic::catch_unwind(std::panic::AssertUnwindSafe(|| run_check(&id, &mut rep)));
            match res {
                Ok(true) => std::process::exit(rep.finish()),
                Ok(false) => {
                    eprintln!("unknown check {id}");
                    std::process::exit(2)
                }
                Err(_) => {
                    // a panic raised inside the library (its source location is under /repo) while the
                    // check's own thread was calling it is the library's failure, not the machinery's
                    let panics = daemonh::take_panics();
                    let lib = panics.iter().rev().find(|p| p.starts_with("thread 'main'") && (p.contains("/repo/vhost/") || p.contains("/repo/vhost-user-backend/")));
                    match lib {
                        Some(p) => {
                            let site = p.split("panicked at ").nth(1).map(|r| r.split(':').take(2).collect::<Vec<_>>().join(":")).unwrap_or_default();
                            rep.violation(&format!("{id}:library-panicked:{site}"), &format!("library code panicked while the check was calling it: {p}"), serde_json::json!({"check": id, "panic": p}));
                            std::process::exit(rep.finish())
                        }
                        None => {
                            eprintln!("MACHINERY FAILURE: check {id} panicked in harness code");
                            std::process::exit(2)
                        }
                    }
                }
            }
        }
        "replay" => {
            let body = std::fs::read_to_string(&args[2]).unwrap_or_else(|e| {
                eprintln!("cannot read {}: {e}", args[2]);
                std::process::exit(2)
            });
            let v: serde_json::Value = serde_json::from_str(&body).unwrap_or_else(|e| {
                eprintln!("bad replay file: {e}");
                std::process::exit(2)
            });
            let id = v["property"].as_str().unwrap_or("").to_string();
            let mut rep = Report::new(&id, "quick", level_of(&id));
            rep.outcome("replay");
            rep.outcome("replay2");
            match id.as_str() {
                "C01" => checks::c01::replay(&v["case"], &mut rep),
                "C02" => checks::c02::replay(&v["case"], &mut rep),
                "C03" => checks::c03::replay(&v["case"], &mut rep),
                "C04" => checks::c04::replay(&v["case"], &mut rep),
                "C05" => checks::c05::replay(&v["case"], &mut rep),
                "C06" => checks::c06::replay(&v["case"], &mut rep),
                "C07" => checks::c07::replay(&v["case"], &mut rep),
                "C08" => checks::c08::replay(&v["case"], &mut rep),
                "C09" => checks::c09::replay(&v["case"], &mut rep),
                "C10" => checks::c10::replay(&v["case"], &mut rep),
                "C11" => checks::c11::replay(&v["case"], &mut rep),
                "C12" => checks::c12::replay(&v["case"], &mut rep),
                "C13" => checks::c13::replay(&v["case"], &mut rep),
                "C14" => checks::c14::replay(&v["case"], &mut rep),
                "C15" => checks::c15::replay(&v["case"], &mut rep),
                "C16" => checks::c16::replay(&v["case"], &mut rep),
                "C17" => checks::c17::replay(&v["case"], &mut rep),
                "C18" => checks::c18::replay(&v["case"], &mut rep),
                "C19" => checks::c19::replay(&v["case"], &mut rep),
                "C20" => checks::c20::replay(&v["case"], &mut rep),
                _ => {
                    eprintln!("no replay for {id}");
                    std::process::exit(2)
                }
            }
            std::process::exit(if rep.violations > 0 { 1 } else { 0 })
        }
        _ => usage(),
    }
}
