//! A raw socket peer with its own `sendmsg`/`recvmsg` + SCM_RIGHTS code (direct syscalls, not
//! through the interposed entry points) and kernel observers (/proc/self/fd, fstat).

#![allow(dead_code)]

use libc::{c_int, c_long, c_void};
use std::collections::BTreeMap;
use std::os::unix::io::{AsRawFd, FromRawFd, OwnedFd, RawFd};
use std::os::unix::net::UnixStream;

pub fn sockpair() -> (UnixStream, UnixStream) {
    UnixStream::pair().expect("socketpair")
}

/// Send `bytes` with `fds` attached (one sendmsg). Returns bytes accepted.
pub fn send_with_fds(fd: RawFd, bytes: &[u8], fds: &[RawFd]) -> isize {
    let mut iov = libc::iovec { iov_base: bytes.as_ptr() as *mut c_void, iov_len: bytes.len() };
    // SAFETY: msghdr built from valid local buffers.
    unsafe {
        let mut m: libc::msghdr = std::mem::zeroed();
        m.msg_iov = &mut iov;
        m.msg_iovlen = 1;
        let space = libc::CMSG_SPACE((fds.len() * 4) as u32) as usize;
        let mut cbuf = vec![0u64; space.div_ceil(8) + 1];
        if !fds.is_empty() {
            m.msg_control = cbuf.as_mut_ptr() as *mut c_void;
            m.msg_controllen = space as _;
            let c = libc::CMSG_FIRSTHDR(&m);
            (*c).cmsg_level = libc::SOL_SOCKET;
            (*c).cmsg_type = libc::SCM_RIGHTS;
            (*c).cmsg_len = libc::CMSG_LEN((fds.len() * 4) as u32) as _;
            std::ptr::copy_nonoverlapping(fds.as_ptr() as *const u8, libc::CMSG_DATA(c), fds.len() * 4);
        }
        libc::syscall(libc::SYS_sendmsg, fd as c_long, &m as *const libc::msghdr, libc::MSG_NOSIGNAL as c_long) as isize
    }
}

/// One non-blocking receive of at most `max` bytes. Returns None when nothing is readable,
/// Some((bytes, fds)); an empty byte vector with Some means end-of-stream.
pub fn recv_once(fd: RawFd, max: usize) -> Option<(Vec<u8>, Vec<OwnedFd>)> {
    let mut buf = vec![0u8; max.max(1)];
    let mut iov = libc::iovec { iov_base: buf.as_mut_ptr() as *mut c_void, iov_len: max.max(1) };
    let mut cbuf = vec![0u64; 64];
    // SAFETY: msghdr built from valid local buffers.
    unsafe {
        let mut m: libc::msghdr = std::mem::zeroed();
        m.msg_iov = &mut iov;
        m.msg_iovlen = 1;
        m.msg_control = cbuf.as_mut_ptr() as *mut c_void;
        m.msg_controllen = (cbuf.len() * 8) as _;
        let r = libc::syscall(libc::SYS_recvmsg, fd as c_long, &mut m as *mut libc::msghdr, (libc::MSG_DONTWAIT | libc::MSG_CMSG_CLOEXEC) as c_long) as isize;
        if r < 0 {
            return None;
        }
        buf.truncate(r as usize);
        let mut fds = Vec::new();
        let mut c = libc::CMSG_FIRSTHDR(&m);
        while !c.is_null() {
            if (*c).cmsg_level == libc::SOL_SOCKET && (*c).cmsg_type == libc::SCM_RIGHTS {
                let n = ((*c).cmsg_len as usize - libc::CMSG_LEN(0) as usize) / 4;
                let p = libc::CMSG_DATA(c) as *const c_int;
                for i in 0..n {
                    fds.push(OwnedFd::from_raw_fd(std::ptr::read_unaligned(p.add(i))));
                }
            }
            c = libc::CMSG_NXTHDR(&m, c);
        }
        Some((buf, fds))
    }
}

#[derive(Debug, Default)]
pub struct Received {
    pub bytes: Vec<u8>,
    /// (stream offset of the receive that delivered them, descriptors)
    pub fds: Vec<(usize, Vec<OwnedFd>)>,
    pub eof: bool,
}

impl Received {
    pub fn nfds(&self) -> usize {
        self.fds.iter().map(|(_, v)| v.len()).sum()
    }
}

/// Drain everything currently readable. The first receive takes a single byte so that
/// descriptors attached to byte 0 are seen at offset 0 and anything attached later is seen at
/// its own offset (`step` = bytes per later receive).
pub fn drain(fd: RawFd, step: usize) -> Received {
    let mut out = Received::default();
    let mut first = true;
    loop {
        let want = if first { 1 } else { step.max(1) };
        match recv_once(fd, want) {
            None => break,
            Some((b, f)) => {
                if b.is_empty() {
                    if !f.is_empty() {
                        out.fds.push((out.bytes.len(), f));
                    }
                    out.eof = true;
                    break;
                }
                if !f.is_empty() {
                    out.fds.push((out.bytes.len(), f));
                }
                out.bytes.extend_from_slice(&b);
                first = false;
            }
        }
    }
    out
}

pub fn memfd(name: &str, size: u64) -> OwnedFd {
    let n = std::ffi::CString::new(name).unwrap();
    // SAFETY: plain syscalls with valid arguments.
    unsafe {
        let fd = libc::syscall(libc::SYS_memfd_create, n.as_ptr(), libc::MFD_CLOEXEC as c_long) as c_int;
        assert!(fd >= 0, "memfd_create failed");
        if size > 0 {
            assert_eq!(libc::ftruncate(fd, size as i64), 0);
        }
        OwnedFd::from_raw_fd(fd)
    }
}

pub fn eventfd(init: u32, nonblock: bool) -> OwnedFd {
    let flags = libc::EFD_CLOEXEC | if nonblock { libc::EFD_NONBLOCK } else { 0 };
    // SAFETY: plain syscall.
    unsafe {
        let fd = libc::eventfd(init, flags);
        assert!(fd >= 0);
        OwnedFd::from_raw_fd(fd)
    }
}

/// (st_dev, st_ino) of an open descriptor: identity of the open file's inode.
pub fn ident(fd: RawFd) -> (u64, u64) {
    // SAFETY: fstat on a descriptor, zeroed stat buffer.
    unsafe {
        let mut st: libc::stat = std::mem::zeroed();
        if libc::fstat(fd, &mut st) != 0 {
            return (0, 0);
        }
        (st.st_dev as u64, st.st_ino as u64)
    }
}

pub fn is_open(fd: RawFd) -> bool {
    // SAFETY: fcntl F_GETFD on any integer is harmless.
    unsafe { libc::fcntl(fd, libc::F_GETFD) >= 0 }
}

/// Snapshot of the process's descriptor table: fd -> (dev, ino, readlink text).
pub fn fd_table() -> BTreeMap<RawFd, (u64, u64, String)> {
    let mut out = BTreeMap::new();
    let mut nums = Vec::new();
    if let Ok(rd) = std::fs::read_dir("/proc/self/fd") {
        for e in rd.flatten() {
            if let Ok(n) = e.file_name().to_string_lossy().parse::<RawFd>() {
                nums.push(n);
            }
        }
    }
    for n in nums {
        if !is_open(n) {
            continue; // the directory handle used for the listing itself
        }
        let (d, i) = ident(n);
        let link = std::fs::read_link(format!("/proc/self/fd/{n}")).map(|p| p.to_string_lossy().to_string()).unwrap_or_default();
        out.insert(n, (d, i, link));
    }
    out
}

/// Current eventfd counter without consuming it (from /proc/self/fdinfo).
pub fn eventfd_count(fd: RawFd) -> Option<u64> {
    let s = std::fs::read_to_string(format!("/proc/self/fdinfo/{fd}")).ok()?;
    for l in s.lines() {
        if let Some(v) = l.strip_prefix("eventfd-count:") {
            return u64::from_str_radix(v.trim(), 16).ok();
        }
    }
    None
}

/// The registrations of an epoll descriptor: (tfd, events, data, ino).
pub fn epoll_set(epfd: RawFd) -> Vec<(RawFd, u32, u64, u64)> {
    let mut out = Vec::new();
    if let Ok(s) = std::fs::read_to_string(format!("/proc/self/fdinfo/{epfd}")) {
        for l in s.lines() {
            if let Some(rest) = l.strip_prefix("tfd:") {
                let toks: Vec<&str> = rest.split_whitespace().collect();
                // tfd: N events: X data: Y pos:.. ino:Z sdev:..
                let tfd = toks.first().and_then(|t| t.parse::<RawFd>().ok()).unwrap_or(-1);
                let mut ev = 0u32;
                let mut data = 0u64;
                let mut ino = 0u64;
                let mut i = 1;
                while i < toks.len() {
                    match toks[i] {
                        "events:" => {
                            ev = u32::from_str_radix(toks.get(i + 1).unwrap_or(&"0"), 16).unwrap_or(0);
                            i += 1;
                        }
                        "data:" => {
                            data = u64::from_str_radix(toks.get(i + 1).unwrap_or(&"0"), 16).unwrap_or(0);
                            i += 1;
                        }
                        t if t.starts_with("ino:") => {
                            ino = u64::from_str_radix(&t[4..], 16).unwrap_or(0);
                        }
                        _ => {}
                    }
                    i += 1;
                }
                out.push((tfd, ev, data, ino));
            }
        }
    }
    out
}

pub fn raw_fd(f: &impl AsRawFd) -> RawFd {
    f.as_raw_fd()
}
