//! The backend-to-frontend proxy (`Backend`) and the GPU proxy (`GpuBackend`) as finite
//! alphabets: invocation on the real proxies, spec encoding of request and reply.

#![allow(dead_code)]

use crate::feops::Resources;
use crate::spec::*;
use std::os::unix::io::{AsRawFd, RawFd};
use vhost::vhost_user::gpu_message::*;
use vhost::vhost_user::message::{VhostUserMMap, VhostUserSharedMsg, VhostUserU64};
use vhost::vhost_user::{Backend, GpuBackend, VhostUserFrontendReqHandler};
use vm_memory::ByteValued;

#[derive(Clone, Debug, PartialEq)]
pub enum BpOp {
    SharedAdd([u8; 16]),
    SharedRemove([u8; 16]),
    SharedLookup([u8; 16]),
    /// shmid, fd_offset, shm_offset, len, flags
    ShmemMap(u8, u64, u64, u64, u64),
    ShmemUnmap(u8, u64, u64, u64, u64),
}

impl BpOp {
    pub fn name(&self) -> &'static str {
        match self {
            BpOp::SharedAdd(_) => "shared_object_add",
            BpOp::SharedRemove(_) => "shared_object_remove",
            BpOp::SharedLookup(_) => "shared_object_lookup",
            BpOp::ShmemMap(..) => "shmem_map",
            BpOp::ShmemUnmap(..) => "shmem_unmap",
        }
    }
    pub fn code(&self) -> u32 {
        match self {
            BpOp::SharedAdd(_) => B_SHARED_OBJECT_ADD,
            BpOp::SharedRemove(_) => B_SHARED_OBJECT_REMOVE,
            BpOp::SharedLookup(_) => B_SHARED_OBJECT_LOOKUP,
            BpOp::ShmemMap(..) => B_SHMEM_MAP,
            BpOp::ShmemUnmap(..) => B_SHMEM_UNMAP,
        }
    }
    pub fn is_shmem(&self) -> bool {
        matches!(self, BpOp::ShmemMap(..) | BpOp::ShmemUnmap(..))
    }
    pub fn has_fd(&self) -> bool {
        matches!(self, BpOp::SharedLookup(_) | BpOp::ShmemMap(..))
    }
    pub fn request(&self, flags: u32, res: &Resources) -> (Vec<u8>, Vec<RawFd>) {
        let fd = res.mem[0].as_raw_fd();
        match self {
            BpOp::SharedAdd(u) | BpOp::SharedRemove(u) => (message(self.code(), flags, &p_uuid(u)), vec![]),
            BpOp::SharedLookup(u) => (message(self.code(), flags, &p_uuid(u)), vec![fd]),
            BpOp::ShmemMap(id, a, b, c, d) => (message(self.code(), flags, &p_mmap(*id, *a, *b, *c, *d)), vec![fd]),
            BpOp::ShmemUnmap(id, a, b, c, d) => (message(self.code(), flags, &p_mmap(*id, *a, *b, *c, *d)), vec![]),
        }
    }
    /// bytes 1..8 of the map descriptor are padding the specification does not define
    pub fn dont_care(&self) -> Vec<(usize, usize)> {
        if self.is_shmem() {
            vec![(12 + 1, 12 + 8)]
        } else {
            vec![]
        }
    }
    pub fn ack(&self, value: u64) -> Vec<u8> {
        message(self.code(), F_REPLY | F_VERSION, &p_u64(value))
    }
}

fn uuid_msg(u: &[u8; 16]) -> VhostUserSharedMsg {
    let mut m = VhostUserSharedMsg::default();
    m.as_mut_slice().copy_from_slice(u);
    m
}

pub fn invoke_bp(p: &Backend, op: &BpOp, res: &Resources) -> Result<u64, String> {
    let e = |e: std::io::Error| format!("{e}");
    match op {
        BpOp::SharedAdd(u) => p.shared_object_add(&uuid_msg(u)).map_err(e),
        BpOp::SharedRemove(u) => p.shared_object_remove(&uuid_msg(u)).map_err(e),
        BpOp::SharedLookup(u) => p.shared_object_lookup(&uuid_msg(u), &res.mem[0]).map_err(e),
        BpOp::ShmemMap(id, a, b, c, d) => p
            .shmem_map(&VhostUserMMap { shmid: *id, padding: [0; 7], fd_offset: *a, shm_offset: *b, len: *c, flags: *d }, &res.mem[0])
            .map_err(e),
        BpOp::ShmemUnmap(id, a, b, c, d) => p.shmem_unmap(&VhostUserMMap { shmid: *id, padding: [0; 7], fd_offset: *a, shm_offset: *b, len: *c, flags: *d }).map_err(e),
    }
}

pub fn bp_ops_basic() -> Vec<BpOp> {
    let u = crate::feops::UUID_A;
    vec![
        BpOp::SharedAdd(u),
        BpOp::SharedRemove(u),
        BpOp::SharedLookup(u),
        BpOp::ShmemMap(1, 0x1000, 0x2000, 0x3000, 1),
        BpOp::ShmemUnmap(1, 0x0, 0x2000, 0x3000, 0),
    ]
}

// -------------------------------------------------------------------------------------------
// GPU

#[derive(Clone, Debug, PartialEq)]
pub enum GpuOp {
    GetProtocolFeatures,
    SetProtocolFeatures(u64),
    GetDisplayInfo,
    GetEdid(u32),
    /// id, w, h
    SetScanout(u32, u32, u32),
    /// update (id,x,y,w,h), payload length
    UpdateScanout([u32; 5], usize),
    /// 10 fields, with fd?
    DmabufScanout([u32; 10], bool),
    DmabufScanout2([u32; 10], u64, bool),
    DmabufUpdate([u32; 5]),
    CursorPos([u32; 3]),
    CursorPosHide([u32; 3]),
    CursorUpdate([u32; 5]),
}

pub fn gpu_payload(len: usize) -> Vec<u8> {
    (0..len).map(|i| (i * 13 + 5) as u8).collect()
}

impl GpuOp {
    pub fn name(&self) -> &'static str {
        match self {
            GpuOp::GetProtocolFeatures => "gpu_get_protocol_features",
            GpuOp::SetProtocolFeatures(_) => "gpu_set_protocol_features",
            GpuOp::GetDisplayInfo => "gpu_get_display_info",
            GpuOp::GetEdid(_) => "gpu_get_edid",
            GpuOp::SetScanout(..) => "gpu_set_scanout",
            GpuOp::UpdateScanout(..) => "gpu_update_scanout",
            GpuOp::DmabufScanout(..) => "gpu_set_dmabuf_scanout",
            GpuOp::DmabufScanout2(..) => "gpu_set_dmabuf_scanout2",
            GpuOp::DmabufUpdate(_) => "gpu_update_dmabuf_scanout",
            GpuOp::CursorPos(_) => "gpu_cursor_pos",
            GpuOp::CursorPosHide(_) => "gpu_cursor_pos_hide",
            GpuOp::CursorUpdate(_) => "gpu_cursor_update",
        }
    }
    pub fn code(&self) -> u32 {
        match self {
            GpuOp::GetProtocolFeatures => G_GET_PROTOCOL_FEATURES,
            GpuOp::SetProtocolFeatures(_) => G_SET_PROTOCOL_FEATURES,
            GpuOp::GetDisplayInfo => G_GET_DISPLAY_INFO,
            GpuOp::GetEdid(_) => G_GET_EDID,
            GpuOp::SetScanout(..) => G_SCANOUT,
            GpuOp::UpdateScanout(..) => G_UPDATE,
            GpuOp::DmabufScanout(..) => G_DMABUF_SCANOUT,
            GpuOp::DmabufScanout2(..) => G_DMABUF_SCANOUT2,
            GpuOp::DmabufUpdate(_) => G_DMABUF_UPDATE,
            GpuOp::CursorPos(_) => G_CURSOR_POS,
            GpuOp::CursorPosHide(_) => G_CURSOR_POS_HIDE,
            GpuOp::CursorUpdate(_) => G_CURSOR_UPDATE,
        }
    }
    pub fn awaits_reply(&self) -> bool {
        matches!(self, GpuOp::GetProtocolFeatures | GpuOp::GetDisplayInfo | GpuOp::GetEdid(_) | GpuOp::DmabufUpdate(_))
    }
    /// spec encoding of the request (GPU channel: flags 0 on requests)
    pub fn request(&self, res: &Resources) -> (Vec<u8>, Vec<RawFd>) {
        let fd = res.mem[0].as_raw_fd();
        let c = self.code();
        match self {
            GpuOp::GetProtocolFeatures | GpuOp::GetDisplayInfo => (message(c, 0, &[]), vec![]),
            GpuOp::SetProtocolFeatures(v) => (message(c, 0, &p_u64(*v)), vec![]),
            GpuOp::GetEdid(id) => (message(c, 0, &p_u32s(&[*id])), vec![]),
            GpuOp::SetScanout(a, b, d) => (message(c, 0, &p_u32s(&[*a, *b, *d])), vec![]),
            GpuOp::UpdateScanout(u, len) => {
                let mut p = p_u32s(u);
                p.extend_from_slice(&gpu_payload(*len));
                (message(c, 0, &p), vec![])
            }
            GpuOp::DmabufScanout(f, with) => (message(c, 0, &p_u32s(f)), if *with { vec![fd] } else { vec![] }),
            GpuOp::DmabufScanout2(f, m, with) => {
                let mut p = p_u32s(f);
                p.extend_from_slice(&m.to_ne_bytes());
                (message(c, 0, &p), if *with { vec![fd] } else { vec![] })
            }
            GpuOp::DmabufUpdate(u) => (message(c, 0, &p_u32s(u)), vec![]),
            GpuOp::CursorPos(p) | GpuOp::CursorPosHide(p) => (message(c, 0, &p_u32s(p)), vec![]),
            GpuOp::CursorUpdate(u) => {
                let mut p = p_u32s(u);
                p.extend_from_slice(&gpu_payload(4 * 64 * 64));
                (message(c, 0, &p), vec![])
            }
        }
    }
    /// spec encoding of a correct reply carrying the pattern `seed`
    pub fn reply(&self, seed: u64) -> Option<Vec<u8>> {
        let c = self.code();
        Some(match self {
            GpuOp::GetProtocolFeatures => message(c, F_REPLY, &p_u64(seed)),
            GpuOp::GetDisplayInfo => {
                let mut p = p_gpu_ctrl_hdr(0x1101, seed as u32, seed.rotate_left(9), 7, 3);
                for i in 0..16u32 {
                    p.extend_from_slice(&p_u32s(&[i, i + 1, 640 + i, 480 + i, i & 1, (seed as u32) ^ i]));
                }
                message(c, F_REPLY, &p)
            }
            GpuOp::GetEdid(_) => {
                let mut p = p_gpu_ctrl_hdr(0x1104, 0, seed, 0, 0);
                p.extend_from_slice(&p_u32s(&[128, 0]));
                p.extend((0..1024).map(|i| (i as u64 ^ seed) as u8));
                message(c, F_REPLY, &p)
            }
            GpuOp::DmabufUpdate(_) => message(c, F_REPLY, &[]),
            _ => return None,
        })
    }
}

#[derive(Clone, Debug, PartialEq)]
pub enum GpuRet {
    Unit,
    U64(u64),
    Bytes(Vec<u8>),
}

fn scan(f: &[u32; 10]) -> VhostUserGpuDMABUFScanout {
    VhostUserGpuDMABUFScanout { scanout_id: f[0], x: f[1], y: f[2], width: f[3], height: f[4], fd_width: f[5], fd_height: f[6], fd_stride: f[7], fd_flags: f[8], fd_drm_fourcc: f[9] }
}
fn upd(u: &[u32; 5]) -> VhostUserGpuUpdate {
    VhostUserGpuUpdate { scanout_id: u[0], x: u[1], y: u[2], width: u[3], height: u[4] }
}

pub fn invoke_gpu(g: &GpuBackend, op: &GpuOp, res: &Resources) -> Result<GpuRet, String> {
    let e = |e: std::io::Error| format!("{e}");
    match op {
        GpuOp::GetProtocolFeatures => g.get_protocol_features().map(|v| GpuRet::U64(v.value)).map_err(e),
        GpuOp::SetProtocolFeatures(v) => g.set_protocol_features(&VhostUserU64::new(*v)).map(|_| GpuRet::Unit).map_err(e),
        GpuOp::GetDisplayInfo => g.get_display_info().map(|d| GpuRet::Bytes(d.as_slice().to_vec())).map_err(e),
        GpuOp::GetEdid(id) => g.get_edid(&VhostUserGpuEdidRequest { scanout_id: *id }).map(|d| GpuRet::Bytes(d.as_slice().to_vec())).map_err(e),
        GpuOp::SetScanout(a, b, c) => g.set_scanout(&VhostUserGpuScanout { scanout_id: *a, width: *b, height: *c }).map(|_| GpuRet::Unit).map_err(e),
        GpuOp::UpdateScanout(u, len) => g.update_scanout(&upd(u), &gpu_payload(*len)).map(|_| GpuRet::Unit).map_err(e),
        GpuOp::DmabufScanout(f, with) => g.set_dmabuf_scanout(&scan(f), if *with { Some(&res.mem[0]) } else { None }).map(|_| GpuRet::Unit).map_err(e),
        GpuOp::DmabufScanout2(f, m, with) => g
            .set_dmabuf_scanout2(&VhostUserGpuDMABUFScanout2 { dmabuf_scanout: scan(f), modifier: *m }, if *with { Some(&res.mem[0]) } else { None })
            .map(|_| GpuRet::Unit)
            .map_err(e),
        GpuOp::DmabufUpdate(u) => g.update_dmabuf_scanout(&upd(u)).map(|_| GpuRet::Unit).map_err(e),
        GpuOp::CursorPos(p) => g.cursor_pos(&VhostUserGpuCursorPos { scanout_id: p[0], x: p[1], y: p[2] }).map(|_| GpuRet::Unit).map_err(e),
        GpuOp::CursorPosHide(p) => g.cursor_pos_hide(&VhostUserGpuCursorPos { scanout_id: p[0], x: p[1], y: p[2] }).map(|_| GpuRet::Unit).map_err(e),
        GpuOp::CursorUpdate(u) => {
            let data: [u8; 4 * 64 * 64] = gpu_payload(4 * 64 * 64).try_into().unwrap();
            g.cursor_update(&VhostUserGpuCursorUpdate { pos: VhostUserGpuCursorPos { scanout_id: u[0], x: u[1], y: u[2] }, hot_x: u[3], hot_y: u[4] }, &data)
                .map(|_| GpuRet::Unit)
                .map_err(e)
        }
    }
}

pub fn gpu_ops_basic() -> Vec<GpuOp> {
    let s = [1, 2, 3, 1920, 1080, 1921, 1081, 7680, 0x10, 0x3432_5258];
    vec![
        GpuOp::GetProtocolFeatures,
        GpuOp::SetProtocolFeatures(0x3),
        GpuOp::GetDisplayInfo,
        GpuOp::GetEdid(2),
        GpuOp::SetScanout(1, 800, 600),
        GpuOp::UpdateScanout([1, 2, 3, 4, 5], 64),
        GpuOp::DmabufScanout(s, true),
        GpuOp::DmabufScanout(s, false),
        GpuOp::DmabufScanout2(s, 0x0102_0304_0506_0708, true),
        GpuOp::DmabufUpdate([1, 0, 0, 640, 480]),
        GpuOp::CursorPos([1, 31, 102]),
        GpuOp::CursorPosHide([2, 0, 0]),
        GpuOp::CursorUpdate([1, 5, 6, 7, 8]),
    ]
}

pub fn bp_variants(level: u8, seed: u64) -> Vec<BpOp> {
    use crate::feops::pat64;
    use crate::lattice::*;
    let l64 = rotate(&u64_lattice(level, seed), seed);
    let mut v = Vec::new();
    for k in 0..6u64 {
        let mut u = [0u8; 16];
        u[..8].copy_from_slice(&pat64(70 + k).to_ne_bytes());
        u[8..].copy_from_slice(&pat64(80 + k).to_ne_bytes());
        v.push(BpOp::SharedAdd(u));
        v.push(BpOp::SharedRemove(u));
        v.push(BpOp::SharedLookup(u));
    }
    for &x in &l64 {
        // only descriptors the protocol calls valid (non-zero length, no wrap, defined flags) are
        // guaranteed to be delivered; others are exercised by C05/C06
        let ok = |fo: u64, so: u64, len: u64| len != 0 && fo.checked_add(len).is_some() && so.checked_add(len).is_some();
        for (fo, so, len) in [(x, 0x2000, 0x1000), (0x1000, x, 0x1000), (0x1000, 0x2000, x)] {
            if ok(fo, so, len) {
                v.push(BpOp::ShmemMap((x & 0xff) as u8, fo, so, len, x & 1));
                v.push(BpOp::ShmemUnmap((x >> 8) as u8, fo, so, len, (x >> 1) & 1));
            }
        }
    }
    for id in [0u8, 1, 127, 255] {
        v.push(BpOp::ShmemMap(id, pat64(90) >> 2, pat64(91) >> 2, pat64(92) >> 2 | 1, 1));
    }
    // windows ending exactly at (and one byte below) the top of the 64-bit range, for each offset
    for len in [1u64, 0x1000, 1 << 32, 1 << 63, u64::MAX - 1, u64::MAX] {
        let top = u64::MAX - len;
        for (fo, so) in [(top, 0), (0, top), (top, top), (top.saturating_sub(1), 0x1000.min(top)), (0x1000.min(top), top.saturating_sub(1))] {
            v.push(BpOp::ShmemMap(3, fo, so, len, 1));
            v.push(BpOp::ShmemUnmap(4, fo, so, len, 0));
        }
    }
    v
}

pub fn gpu_variants(level: u8, seed: u64) -> Vec<GpuOp> {
    use crate::lattice::*;
    let l32 = rotate(&u32_lattice(level, seed), seed);
    let l64 = rotate(&u64_lattice(level, seed), seed);
    let p = |k: u32| 0x0102_0304u32.wrapping_mul(2 * k + 1) ^ (k << 24);
    let mut v = vec![GpuOp::GetProtocolFeatures, GpuOp::GetDisplayInfo];
    for &x in &l64 {
        v.push(GpuOp::SetProtocolFeatures(x));
        v.push(GpuOp::DmabufScanout2([p(1), p(2), p(3), p(4), p(5), p(6), p(7), p(8), p(9), p(10)], x, x & 1 == 0));
    }
    for &x in &l32 {
        v.push(GpuOp::GetEdid(x));
        v.push(GpuOp::SetScanout(x, p(11), p(12)));
        v.push(GpuOp::SetScanout(p(13), x, p(14)));
        v.push(GpuOp::SetScanout(p(15), p(16), x));
        for i in 0..5 {
            let mut u = [p(20), p(21), p(22), p(23), p(24)];
            u[i] = x;
            v.push(GpuOp::DmabufUpdate(u));
            v.push(GpuOp::UpdateScanout(u, 16));
            v.push(GpuOp::CursorUpdate(u));
        }
        for i in 0..3 {
            let mut c = [p(30), p(31), p(32)];
            c[i] = x;
            v.push(GpuOp::CursorPos(c));
            v.push(GpuOp::CursorPosHide(c));
        }
        for i in 0..10 {
            let mut s = [p(40), p(41), p(42), p(43), p(44), p(45), p(46), p(47), p(48), p(49)];
            s[i] = x;
            v.push(GpuOp::DmabufScanout(s, i % 2 == 0));
        }
    }
    let lens: Vec<usize> = if level == 0 { vec![0, 1, 2, 3, 4, 7, 8, 63, 64, 65, 4075, 4076, 4077, 4095, 4096] } else { (0..=4096).collect() };
    for l in lens {
        v.push(GpuOp::UpdateScanout([1, 2, 3, 4, 5], l));
    }
    v
}
