//! `sysshim`: the harness binary *defines* the libc entry points the library uses, so that every
//! such call made by std, vmm-sys-util and the crates under test binds to these functions
//! (static linking of the Rust side). Unwatched descriptors and the default mode pass straight
//! through with `syscall(2)`.
//!
//! Uses: (1) scheduling points for the E2 explorer, (2) cooperative single-thread execution
//! (`coop`) where "this call would block forever" is a decided outcome, (3) fault injection
//! (short writes, EAGAIN), (4) ioctl capture on dummy descriptors (C19).

#![allow(clippy::missing_safety_doc)]

use libc::{c_int, c_long, c_ulong, c_void, msghdr, ssize_t};
use std::cell::RefCell;
use std::collections::{HashMap, HashSet, VecDeque};
use std::os::unix::io::RawFd;
use std::rc::Rc;
use std::sync::atomic::{AtomicBool, AtomicU64, Ordering};
use std::sync::{Arc, RwLock};

// ------------------------------------------------------------------------------------------------
// raw pass-through

pub unsafe fn raw_recvmsg(fd: c_int, msg: *mut msghdr, flags: c_int) -> ssize_t {
    libc::syscall(libc::SYS_recvmsg, fd as c_long, msg, flags as c_long) as ssize_t
}
pub unsafe fn raw_sendmsg(fd: c_int, msg: *const msghdr, flags: c_int) -> ssize_t {
    libc::syscall(libc::SYS_sendmsg, fd as c_long, msg, flags as c_long) as ssize_t
}
pub unsafe fn raw_ioctl(fd: c_int, req: c_ulong, arg: usize) -> c_int {
    libc::syscall(libc::SYS_ioctl, fd as c_long, req, arg) as c_int
}
pub unsafe fn raw_epoll_wait(epfd: c_int, ev: *mut libc::epoll_event, max: c_int, to: c_int) -> c_int {
    libc::syscall(libc::SYS_epoll_pwait, epfd as c_long, ev, max as c_long, to as c_long, 0usize, 8usize) as c_int
}
pub unsafe fn raw_epoll_ctl(epfd: c_int, op: c_int, fd: c_int, ev: *mut libc::epoll_event) -> c_int {
    libc::syscall(libc::SYS_epoll_ctl, epfd as c_long, op as c_long, fd as c_long, ev) as c_int
}
pub unsafe fn raw_shutdown(fd: c_int, how: c_int) -> c_int {
    libc::syscall(libc::SYS_shutdown, fd as c_long, how as c_long) as c_int
}

pub fn readable(fd: RawFd) -> bool {
    let mut p = libc::pollfd { fd, events: libc::POLLIN, revents: 0 };
    // SAFETY: valid pollfd, zero timeout.
    let r = unsafe { libc::syscall(libc::SYS_poll, &mut p as *mut libc::pollfd, 1 as c_long, 0 as c_long) };
    r > 0 && p.revents != 0
}

/// Has the peer closed or shut down its end?
pub fn hung_up(fd: RawFd) -> bool {
    let mut p = libc::pollfd { fd, events: libc::POLLIN | libc::POLLRDHUP, revents: 0 };
    // SAFETY: valid pollfd, zero timeout.
    let r = unsafe { libc::syscall(libc::SYS_poll, &mut p as *mut libc::pollfd, 1 as c_long, 0 as c_long) };
    r > 0 && p.revents & (libc::POLLHUP | libc::POLLRDHUP | libc::POLLERR) != 0
}

/// Bytes queued for reading on a socket (FIONREAD).
pub fn pending_bytes(fd: RawFd) -> usize {
    let mut n: c_int = 0;
    // SAFETY: FIONREAD writes an int.
    unsafe { raw_ioctl(fd, libc::FIONREAD as c_ulong, &mut n as *mut c_int as usize) };
    n.max(0) as usize
}

// ------------------------------------------------------------------------------------------------
// E2 scheduling hook

#[derive(Clone, Debug, PartialEq, Eq)]
pub enum Point {
    Recv(RawFd),
    Send(RawFd),
    EpollWait(RawFd),
    EpollReturned(RawFd, i32),
    EpollCtl(RawFd, i32, RawFd),
    Shutdown(RawFd),
    Lock(&'static str),
    Atomic(&'static str, usize),
    User(&'static str),
}

pub trait SchedHook: Send + Sync {
    /// Called by a library thread at a scheduling point. Returns when the thread may proceed.
    /// `ready` tells whether the operation could complete now without blocking.
    fn point(&self, p: Point, ready: &dyn Fn() -> bool);
    /// Switch the controller off and let every parked participant continue freely.
    fn release(&self);
}

static SCHED_ON: AtomicBool = AtomicBool::new(false);
static SCHED: RwLock<Option<Arc<dyn SchedHook>>> = RwLock::new(None);

thread_local! {
    static EXEMPT: RefCell<bool> = const { RefCell::new(false) };
}

pub fn set_exempt(v: bool) {
    EXEMPT.with(|e| *e.borrow_mut() = v);
}

pub fn is_exempt() -> bool {
    EXEMPT.with(|e| *e.borrow())
}

pub fn sched_install(h: Arc<dyn SchedHook>) {
    *SCHED.write().unwrap() = Some(h);
    SCHED_ON.store(true, Ordering::SeqCst);
}

/// Release whatever controller is installed (used by teardown paths that may run while a
/// controller is still active, e.g. when a scenario's set-up fails half way).
pub fn sched_release() {
    let h = SCHED.read().unwrap().clone();
    if let Some(h) = h {
        h.release();
    }
}

pub fn sched_on() -> bool {
    SCHED_ON.load(Ordering::Relaxed)
}

pub fn sched_remove() {
    SCHED_ON.store(false, Ordering::SeqCst);
    *SCHED.write().unwrap() = None;
}

#[inline]
pub fn sched_point(p: Point, ready: &dyn Fn() -> bool) {
    if !SCHED_ON.load(Ordering::Relaxed) {
        return;
    }
    if is_exempt() {
        return;
    }
    let h = SCHED.read().unwrap().clone();
    if let Some(h) = h {
        h.point(p, ready);
    }
}

// ------------------------------------------------------------------------------------------------
// coop mode (thread-local: everything runs on one thread)

#[derive(Clone, Debug)]
pub enum SendStep {
    /// accept at most this many bytes of the call
    Accept(usize),
    /// fail with EAGAIN (nothing accepted)
    Eagain,
    /// fail with EINTR
    Eintr,
}

#[derive(Clone, Debug)]
pub struct SendRec {
    pub fd: RawFd,
    pub requested: usize,
    pub accepted: isize,
    pub nfds: usize,
}

type Pump = Rc<RefCell<dyn FnMut()>>;

#[derive(Default)]
struct CoopState {
    on: bool,
    watched: HashSet<RawFd>,
    pumps: HashMap<RawFd, Pump>,
    running: HashSet<RawFd>,
    hangs: Vec<RawFd>,
    send_scripts: HashMap<RawFd, VecDeque<SendStep>>,
    sends: Vec<SendRec>,
    log_sends: bool,
}

thread_local! {
    static COOP: RefCell<CoopState> = RefCell::new(CoopState::default());
}

pub mod coop {
    use super::*;

    pub fn enable() {
        COOP.with(|c| {
            let mut c = c.borrow_mut();
            *c = CoopState::default();
            c.on = true;
        });
    }
    pub fn disable() {
        COOP.with(|c| *c.borrow_mut() = CoopState::default());
    }
    pub fn watch(fd: RawFd) {
        COOP.with(|c| {
            c.borrow_mut().watched.insert(fd);
        });
    }
    pub fn unwatch(fd: RawFd) {
        COOP.with(|c| {
            let mut c = c.borrow_mut();
            c.watched.remove(&fd);
            c.pumps.remove(&fd);
            c.send_scripts.remove(&fd);
        });
    }
    /// When a receive on `fd` finds nothing to read, `pump` is run once and the receive retried.
    pub fn set_pump(fd: RawFd, pump: impl FnMut() + 'static) {
        COOP.with(|c| {
            let mut c = c.borrow_mut();
            c.watched.insert(fd);
            c.pumps.insert(fd, Rc::new(RefCell::new(pump)));
        });
    }
    pub fn clear_pump(fd: RawFd) {
        COOP.with(|c| {
            c.borrow_mut().pumps.remove(&fd);
        });
    }
    /// Descriptors on which a receive would have blocked forever since the last call.
    pub fn take_hangs() -> Vec<RawFd> {
        COOP.with(|c| std::mem::take(&mut c.borrow_mut().hangs))
    }
    pub fn script_send(fd: RawFd, steps: Vec<SendStep>) {
        COOP.with(|c| {
            let mut c = c.borrow_mut();
            c.watched.insert(fd);
            c.send_scripts.insert(fd, steps.into());
        });
    }
    pub fn log_sends(on: bool) {
        COOP.with(|c| c.borrow_mut().log_sends = on);
    }
    pub fn take_sends() -> Vec<SendRec> {
        COOP.with(|c| std::mem::take(&mut c.borrow_mut().sends))
    }
}

fn set_errno(e: c_int) {
    // SAFETY: errno location is thread local and valid.
    unsafe { *libc::__errno_location() = e };
}

unsafe fn count_fds(msg: *const msghdr) -> usize {
    let m = &*msg;
    if m.msg_control.is_null() || (m.msg_controllen as usize) < std::mem::size_of::<libc::cmsghdr>() {
        return 0;
    }
    let c = &*(m.msg_control as *const libc::cmsghdr);
    if c.cmsg_level == libc::SOL_SOCKET && c.cmsg_type == libc::SCM_RIGHTS {
        let hdr = libc::CMSG_LEN(0) as usize;
        ((c.cmsg_len as usize).saturating_sub(hdr)) / std::mem::size_of::<c_int>()
    } else {
        0
    }
}

unsafe fn iov_total(msg: *const msghdr) -> usize {
    let m = &*msg;
    let mut t = 0;
    for i in 0..m.msg_iovlen as usize {
        t += (*m.msg_iov.add(i)).iov_len;
    }
    t
}

unsafe fn sendmsg_capped(fd: c_int, msg: *const msghdr, flags: c_int, cap: usize) -> ssize_t {
    let m = &*msg;
    let mut iov: Vec<libc::iovec> = Vec::new();
    let mut left = cap;
    for i in 0..m.msg_iovlen as usize {
        if left == 0 {
            break;
        }
        let v = *m.msg_iov.add(i);
        let l = v.iov_len.min(left);
        if l > 0 {
            iov.push(libc::iovec { iov_base: v.iov_base, iov_len: l });
            left -= l;
        }
    }
    let mut m2: msghdr = std::mem::zeroed();
    m2.msg_iov = iov.as_mut_ptr();
    m2.msg_iovlen = iov.len() as _;
    m2.msg_control = m.msg_control;
    m2.msg_controllen = m.msg_controllen;
    raw_sendmsg(fd, &m2, flags)
}

// ------------------------------------------------------------------------------------------------
// the interposed entry points

#[no_mangle]
pub unsafe extern "C" fn recvmsg(fd: c_int, msg: *mut msghdr, flags: c_int) -> ssize_t {
    // coop
    let coop_watched = COOP.with(|c| {
        let c = c.borrow();
        c.on && c.watched.contains(&fd)
    });
    if coop_watched {
        if !readable(fd) {
            let pump = COOP.with(|c| {
                let mut c = c.borrow_mut();
                if c.running.contains(&fd) {
                    None
                } else {
                    let p = c.pumps.get(&fd).cloned();
                    if p.is_some() {
                        c.running.insert(fd);
                    }
                    p
                }
            });
            if let Some(p) = pump {
                (p.borrow_mut())();
                COOP.with(|c| {
                    c.borrow_mut().running.remove(&fd);
                });
            }
            if !readable(fd) {
                // Nobody will ever write: the call would block forever. Record, then unwind the
                // caller by simulating end-of-stream.
                COOP.with(|c| c.borrow_mut().hangs.push(fd));
                return 0;
            }
        }
        return raw_recvmsg(fd, msg, flags);
    }
    sched_point(Point::Recv(fd), &|| readable(fd));
    raw_recvmsg(fd, msg, flags)
}

#[no_mangle]
pub unsafe extern "C" fn sendmsg(fd: c_int, msg: *const msghdr, flags: c_int) -> ssize_t {
    let (watched, step, log) = COOP.with(|c| {
        let mut c = c.borrow_mut();
        if c.on && c.watched.contains(&fd) {
            let s = c.send_scripts.get_mut(&fd).and_then(|q| q.pop_front());
            (true, s, c.log_sends)
        } else {
            (false, None, false)
        }
    });
    if watched {
        let req = iov_total(msg);
        let nfds = count_fds(msg);
        let r = match step {
            Some(SendStep::Eagain) => {
                set_errno(libc::EAGAIN);
                -1
            }
            Some(SendStep::Eintr) => {
                set_errno(libc::EINTR);
                -1
            }
            Some(SendStep::Accept(n)) if n < req => sendmsg_capped(fd, msg, flags, n.max(1)),
            _ => raw_sendmsg(fd, msg, flags),
        };
        if log {
            COOP.with(|c| c.borrow_mut().sends.push(SendRec { fd, requested: req, accepted: r, nfds }));
        }
        return r;
    }
    sched_point(Point::Send(fd), &|| true);
    raw_sendmsg(fd, msg, flags)
}

#[no_mangle]
pub unsafe extern "C" fn epoll_wait(epfd: c_int, ev: *mut libc::epoll_event, max: c_int, to: c_int) -> c_int {
    if SCHED_ON.load(Ordering::Relaxed) && !is_exempt() {
        sched_point(Point::EpollWait(epfd), &|| readable(epfd));
        let n = raw_epoll_wait(epfd, ev, max, to);
        sched_point(Point::EpollReturned(epfd, n), &|| true);
        return n;
    }
    raw_epoll_wait(epfd, ev, max, to)
}

#[no_mangle]
pub unsafe extern "C" fn epoll_ctl(epfd: c_int, op: c_int, fd: c_int, ev: *mut libc::epoll_event) -> c_int {
    sched_point(Point::EpollCtl(epfd, op, fd), &|| true);
    raw_epoll_ctl(epfd, op, fd, ev)
}

#[no_mangle]
pub unsafe extern "C" fn shutdown(fd: c_int, how: c_int) -> c_int {
    sched_point(Point::Shutdown(fd), &|| true);
    raw_shutdown(fd, how)
}

// ------------------------------------------------------------------------------------------------
// ioctl capture on dummy descriptors (C19) and /dev/vhost-* opens

#[derive(Clone, Debug)]
pub struct IoctlRec {
    pub fd: RawFd,
    pub req: u64,
    pub arg: Vec<u8>,
    pub arg_is_null: bool,
}

#[derive(Clone, Debug, Default)]
pub struct IoctlAnswer {
    pub rc: i32,
    pub errno: i32,
    /// bytes copied into the argument for read-direction requests (offset 0)
    pub writeback: Vec<u8>,
}

#[derive(Default)]
struct IoctlState {
    on: bool,
    dummies: HashSet<RawFd>,
    recs: Vec<IoctlRec>,
    answers: VecDeque<IoctlAnswer>,
    opened: Vec<(String, RawFd)>,
}

thread_local! {
    static IOCTL: RefCell<IoctlState> = RefCell::new(IoctlState::default());
}

pub static OPEN_INTERCEPTS: AtomicU64 = AtomicU64::new(0);

pub mod ioctl_capture {
    use super::*;
    pub fn enable() {
        IOCTL.with(|s| {
            let mut s = s.borrow_mut();
            *s = IoctlState::default();
            s.on = true;
        });
    }
    pub fn disable() {
        IOCTL.with(|s| *s.borrow_mut() = IoctlState::default());
    }
    pub fn add_dummy(fd: RawFd) {
        IOCTL.with(|s| {
            s.borrow_mut().dummies.insert(fd);
        });
    }
    pub fn remove_dummy(fd: RawFd) {
        IOCTL.with(|s| {
            s.borrow_mut().dummies.remove(&fd);
        });
    }
    pub fn take() -> Vec<IoctlRec> {
        IOCTL.with(|s| std::mem::take(&mut s.borrow_mut().recs))
    }
    pub fn answer(a: IoctlAnswer) {
        IOCTL.with(|s| s.borrow_mut().answers.push_back(a));
    }
    pub fn take_opened() -> Vec<(String, RawFd)> {
        IOCTL.with(|s| std::mem::take(&mut s.borrow_mut().opened))
    }
}

fn ioc_size(req: u64) -> usize {
    ((req >> 16) & 0x3fff) as usize
}
fn ioc_dir(req: u64) -> u64 {
    (req >> 30) & 0x3
}

#[no_mangle]
pub unsafe extern "C" fn ioctl(fd: c_int, req: c_ulong, arg: usize) -> c_int {
    let captured = IOCTL.with(|s| {
        let s = s.borrow();
        s.on && s.dummies.contains(&fd)
    });
    if !captured {
        return raw_ioctl(fd, req, arg);
    }
    let req64 = req as u64;
    let mut size = ioc_size(req64);
    let dir = ioc_dir(req64);
    let nr = req64 & 0xff;
    let ty = (req64 >> 8) & 0xff;
    let null = arg == 0 || dir == 0;
    // flexible-array arguments: capture the variable part too
    if !null && ty == 0xAF {
        if nr == 0x03 && size >= 8 {
            // vhost_memory: u32 nregions, u32 padding, regions[nregions] (32 bytes each)
            let n = std::ptr::read_unaligned(arg as *const u32) as usize;
            size = 8 + n.min(4096) * 32;
        } else if (nr == 0x73 || nr == 0x74) && size >= 8 {
            // vhost_vdpa_config: u32 off, u32 len, u8 buf[len]
            let l = std::ptr::read_unaligned((arg + 4) as *const u32) as usize;
            size = 8 + l.min(1 << 20);
        }
    }
    let mut bytes = vec![0u8; if null { 0 } else { size }];
    if !null {
        std::ptr::copy_nonoverlapping(arg as *const u8, bytes.as_mut_ptr(), size);
    }
    let ans = IOCTL.with(|s| {
        let mut s = s.borrow_mut();
        s.recs.push(IoctlRec { fd, req: req64, arg: bytes, arg_is_null: arg == 0 });
        s.answers.pop_front()
    });
    let ans = ans.unwrap_or_default();
    if !null && (dir & 2) != 0 && !ans.writeback.is_empty() {
        let n = ans.writeback.len().min(size);
        std::ptr::copy_nonoverlapping(ans.writeback.as_ptr(), arg as *mut u8, n);
    }
    if ans.rc < 0 {
        set_errno(if ans.errno != 0 { ans.errno } else { libc::EINVAL });
    }
    ans.rc
}

unsafe fn open_common(path: *const libc::c_char, flags: c_int, mode: libc::mode_t) -> c_int {
    let on = IOCTL.with(|s| s.borrow().on);
    if on && !path.is_null() {
        let p = std::ffi::CStr::from_ptr(path).to_string_lossy().to_string();
        if p.starts_with("/dev/vhost-") {
            // hand out a pipe-like dummy: a memfd, registered for ioctl capture
            let name = b"vhost-dummy\0";
            let fd = libc::syscall(libc::SYS_memfd_create, name.as_ptr(), libc::MFD_CLOEXEC as c_long) as c_int;
            if fd >= 0 {
                OPEN_INTERCEPTS.fetch_add(1, Ordering::Relaxed);
                IOCTL.with(|s| {
                    let mut s = s.borrow_mut();
                    s.dummies.insert(fd);
                    s.opened.push((p, fd));
                });
            }
            return fd;
        }
    }
    libc::syscall(libc::SYS_openat, libc::AT_FDCWD as c_long, path, flags as c_long, mode as c_long) as c_int
}

#[no_mangle]
pub unsafe extern "C" fn open64(path: *const libc::c_char, flags: c_int, mode: libc::mode_t) -> c_int {
    open_common(path, flags | libc::O_LARGEFILE, mode)
}

#[no_mangle]
pub unsafe extern "C" fn open(path: *const libc::c_char, flags: c_int, mode: libc::mode_t) -> c_int {
    open_common(path, flags, mode)
}

/// Self test used by every run: the interposition must really be in effect, otherwise the
/// explorers would silently see nothing.
pub fn self_test() -> Result<(), String> {
    use std::os::unix::io::AsRawFd;
    let (a, b) = std::os::unix::net::UnixStream::pair().map_err(|e| e.to_string())?;
    coop::enable();
    coop::watch(b.as_raw_fd());
    // a receive on an empty watched socket must be decided as "would block forever"
    let mut buf = [0u8; 4];
    let mut iov = libc::iovec { iov_base: buf.as_mut_ptr() as *mut c_void, iov_len: 4 };
    let mut m: msghdr = unsafe { std::mem::zeroed() };
    m.msg_iov = &mut iov;
    m.msg_iovlen = 1;
    // go through the libc crate's symbol, as the library does
    let r = unsafe { libc::recvmsg(b.as_raw_fd(), &mut m, 0) };
    let hangs = coop::take_hangs();
    coop::disable();
    drop(a);
    if r != 0 || hangs.len() != 1 {
        return Err(format!("recvmsg interposition inactive (r={r}, hangs={})", hangs.len()));
    }
    // ioctl + open
    ioctl_capture::enable();
    let f = std::fs::OpenOptions::new().read(true).write(true).open("/dev/vhost-net");
    let opened = ioctl_capture::take_opened();
    let ok = f.is_ok() && opened.len() == 1;
    if ok {
        let fd = f.as_ref().unwrap().as_raw_fd();
        let mut v: u64 = 0;
        let rc = unsafe { libc::ioctl(fd, 0x8008_af00u64 as c_ulong, &mut v as *mut u64) };
        let recs = ioctl_capture::take();
        if rc != 0 || recs.len() != 1 || recs[0].req != 0x8008_af00 {
            ioctl_capture::disable();
            return Err("ioctl interposition inactive".into());
        }
    }
    ioctl_capture::disable();
    if !ok {
        return Err("open64 interposition inactive".into());
    }
    Ok(())
}
