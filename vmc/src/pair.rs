//! Single-threaded (`coop`) wiring of the real endpoints:
//!   Frontend  <->  BackendReqHandler<Mutex<Recorder>>           (Pair)
//!   raw peer  <->  BackendReqHandler<Mutex<Recorder>>           (Server + peer socket)
//!   Backend proxy <-> FrontendReqHandler<Mutex<FrRecorder>>     (BackPair)
//! The server side behaves like the daemon: it keeps serving while `handle_request` returns Ok
//! and shuts the connection down on the first Err.

#![allow(dead_code)]

use crate::recorder::{FrRecorder, Recorder};
use crate::sysshim::{coop, readable};
use std::cell::{Cell, RefCell};
use std::os::unix::io::{AsRawFd, RawFd};
use std::os::unix::net::UnixStream;
use std::panic::{catch_unwind, AssertUnwindSafe};
use std::rc::Rc;
use std::sync::{Arc, Mutex};
use vhost::vhost_user::{Backend, BackendReqHandler, Frontend, FrontendReqHandler};

pub struct Server {
    pub rec: Arc<Mutex<Recorder>>,
    pub h: Rc<RefCell<BackendReqHandler<Mutex<Recorder>>>>,
    pub fd: RawFd,
    conn: UnixStream,
    pub alive: Rc<Cell<bool>>,
    pub panicked: Rc<Cell<bool>>,
    pub last_err: Rc<RefCell<Option<String>>>,
    pub served_ok: Rc<Cell<u64>>,
}

impl Server {
    /// Returns the server and the peer end of its connection.
    pub fn new(rec: Recorder) -> (Server, UnixStream) {
        let (a, b) = UnixStream::pair().unwrap();
        let rec = Arc::new(Mutex::new(rec));
        let fd = a.as_raw_fd();
        let h = BackendReqHandler::from_stream(a, rec.clone());
        let conn = h.try_clone_connection().unwrap();
        coop::watch(fd);
        (
            Server {
                rec,
                h: Rc::new(RefCell::new(h)),
                fd,
                conn,
                alive: Rc::new(Cell::new(true)),
                panicked: Rc::new(Cell::new(false)),
                last_err: Rc::new(RefCell::new(None)),
                served_ok: Rc::new(Cell::new(0)),
            },
            b,
        )
    }

    /// Handle one request the way the daemon thread does. Returns the textual result.
    pub fn serve_one(&self) -> std::result::Result<(), String> {
        if !self.alive.get() {
            return Err("dead".into());
        }
        let h = self.h.clone();
        let r = catch_unwind(AssertUnwindSafe(|| h.borrow_mut().handle_request()));
        match r {
            Ok(Ok(())) => {
                self.served_ok.set(self.served_ok.get() + 1);
                Ok(())
            }
            Ok(Err(e)) => {
                let s = format!("{e:?}");
                *self.last_err.borrow_mut() = Some(s.clone());
                self.alive.set(false);
                let _ = self.conn.shutdown(std::net::Shutdown::Both);
                Err(s)
            }
            Err(p) => {
                let msg = p.downcast_ref::<String>().cloned().or_else(|| p.downcast_ref::<&str>().map(|s| s.to_string())).unwrap_or_else(|| "panic".into());
                self.panicked.set(true);
                self.alive.set(false);
                *self.last_err.borrow_mut() = Some(format!("PANIC: {msg}"));
                // a panicking daemon thread dies without shutting the socket down
                Err(format!("PANIC: {msg}"))
            }
        }
    }

    /// Serve everything that is already queued.
    pub fn drain(&self) {
        let mut guard = 0;
        while self.alive.get() && readable(self.fd) && guard < 10_000 {
            let _ = self.serve_one();
            guard += 1;
        }
    }

    pub fn pump(&self) -> impl FnMut() + 'static {
        let h = self.h.clone();
        let alive = self.alive.clone();
        let panicked = self.panicked.clone();
        let last_err = self.last_err.clone();
        let served = self.served_ok.clone();
        let conn = self.conn.try_clone().unwrap();
        let fd = self.fd;
        move || {
            if !alive.get() || !readable(fd) {
                return;
            }
            let r = catch_unwind(AssertUnwindSafe(|| h.borrow_mut().handle_request()));
            match r {
                Ok(Ok(())) => served.set(served.get() + 1),
                Ok(Err(e)) => {
                    *last_err.borrow_mut() = Some(format!("{e:?}"));
                    alive.set(false);
                    let _ = conn.shutdown(std::net::Shutdown::Both);
                }
                Err(_) => {
                    panicked.set(true);
                    alive.set(false);
                    *last_err.borrow_mut() = Some("PANIC".into());
                }
            }
        }
    }

    pub fn log_len(&self) -> usize {
        self.rec.lock().unwrap().log.len()
    }
}

impl Drop for Server {
    fn drop(&mut self) {
        coop::unwatch(self.fd);
    }
}

pub struct Pair {
    pub fe: Frontend,
    pub fe_fd: RawFd,
    pub server: Server,
    pub max_queues: u64,
}

impl Pair {
    pub fn new(rec: Recorder, max_queues: u64) -> Pair {
        let (server, peer) = Server::new(rec);
        let fe_fd = peer.as_raw_fd();
        let fe = Frontend::from_stream(peer, max_queues);
        coop::set_pump(fe_fd, server.pump());
        Pair { fe, fe_fd, server, max_queues }
    }

    /// Classify hangs recorded since the last call: (frontend_hung, server_hung).
    pub fn hangs(&self) -> (bool, bool) {
        let h = coop::take_hangs();
        (h.contains(&self.fe_fd), h.contains(&self.server.fd))
    }
}

impl Drop for Pair {
    fn drop(&mut self) {
        coop::unwatch(self.fe_fd);
    }
}

/// Backend-to-frontend channel: real `Backend` proxy <-> real `FrontendReqHandler`.
pub struct BackPair {
    pub proxy: Backend,
    pub proxy_fd: RawFd,
    pub rec: Arc<Mutex<FrRecorder>>,
    pub h: Rc<RefCell<FrontendReqHandler<Mutex<FrRecorder>>>>,
    pub srv_fd: RawFd,
    pub last: Rc<RefCell<Vec<String>>>,
    pub panicked: Rc<Cell<bool>>,
}

impl BackPair {
    pub fn new() -> BackPair {
        let rec = Arc::new(Mutex::new(FrRecorder::default()));
        let h = FrontendReqHandler::new(rec.clone()).unwrap();
        let srv_fd = h.as_raw_fd();
        // the tx end is what the frontend would pass to the backend: dup it into a proxy
        // SAFETY: dup of a valid descriptor.
        let tx = unsafe { libc::fcntl(h.get_tx_raw_fd(), libc::F_DUPFD_CLOEXEC, 3) };
        assert!(tx >= 0);
        use std::os::unix::io::FromRawFd;
        // SAFETY: we own `tx`.
        let sock = unsafe { UnixStream::from_raw_fd(tx) };
        let proxy_fd = sock.as_raw_fd();
        let proxy = Backend::from_stream(sock);
        let h = Rc::new(RefCell::new(h));
        let last = Rc::new(RefCell::new(Vec::new()));
        let panicked = Rc::new(Cell::new(false));
        coop::watch(srv_fd);
        {
            let h = h.clone();
            let last = last.clone();
            let panicked = panicked.clone();
            coop::set_pump(proxy_fd, move || {
                if !readable(srv_fd) {
                    return;
                }
                let r = catch_unwind(AssertUnwindSafe(|| h.borrow_mut().handle_request()));
                match r {
                    Ok(r) => last.borrow_mut().push(format!("{r:?}")),
                    Err(_) => {
                        panicked.set(true);
                        last.borrow_mut().push("PANIC".into());
                    }
                }
            });
        }
        BackPair { proxy, proxy_fd, rec, h, srv_fd, last, panicked }
    }

    pub fn drain(&self) {
        let mut guard = 0;
        while readable(self.srv_fd) && guard < 1000 {
            let h = self.h.clone();
            let r = catch_unwind(AssertUnwindSafe(|| h.borrow_mut().handle_request()));
            match r {
                Ok(r) => self.last.borrow_mut().push(format!("{r:?}")),
                Err(_) => {
                    self.panicked.set(true);
                    break;
                }
            }
            guard += 1;
        }
    }
}

impl Drop for BackPair {
    fn drop(&mut self) {
        coop::unwatch(self.proxy_fd);
        coop::unwatch(self.srv_fd);
    }
}

/// Standard negotiation through the real frontend API: GET_FEATURES, SET_FEATURES(all offered),
/// GET_PROTOCOL_FEATURES, SET_PROTOCOL_FEATURES(`ack`). The recorder's script must offer bit 30.
pub fn negotiate(p: &mut Pair, ack: u64) -> std::result::Result<(), String> {
    use vhost::vhost_user::message::VhostUserProtocolFeatures;
    use vhost::vhost_user::VhostUserFrontend;
    use vhost::VhostBackend;
    let f = p.fe.get_features().map_err(|e| format!("get_features: {e:?}"))?;
    p.fe.set_features(f).map_err(|e| format!("set_features: {e:?}"))?;
    p.server.drain();
    let _ = p.fe.get_protocol_features().map_err(|e| format!("get_protocol_features: {e:?}"))?;
    p.fe.set_protocol_features(VhostUserProtocolFeatures::from_bits_retain(ack)).map_err(|e| format!("set_protocol_features: {e:?}"))?;
    p.server.drain();
    Ok(())
}
