//! The frontend-request alphabet on the wire (server-side checks C04, C05, C08, C09): well-formed
//! instances of every request code, encoded by the independent codec, plus a raw session helper
//! that talks to the real `BackendReqHandler`.

#![allow(dead_code)]

use crate::feops::{Resources, UUID_A};
use crate::pair::Server;
use crate::rawpeer::{drain, send_with_fds, Received};
use crate::recorder::Recorder;
use crate::spec::*;
use crate::sysshim::coop;
use std::cell::RefCell;
use std::collections::VecDeque;
use std::os::unix::io::{AsRawFd, RawFd};
use std::os::unix::net::UnixStream;
use std::rc::Rc;

#[derive(Clone, Debug)]
pub struct WireReq {
    pub code: u32,
    pub payload: Vec<u8>,
    /// indices into the descriptor pool to attach (Resources::mem / ev / sock)
    pub fds: Vec<FdKind>,
    pub label: &'static str,
}

#[derive(Clone, Copy, Debug, PartialEq, Eq)]
pub enum FdKind {
    Mem(usize),
    Event(usize),
    Sock,
}

impl FdKind {
    pub fn fd(&self, res: &Resources) -> RawFd {
        match self {
            FdKind::Mem(i) => res.mem[*i % res.mem.len()].as_raw_fd(),
            FdKind::Event(i) => res.ev[*i % res.ev.len()].as_raw_fd(),
            FdKind::Sock => res.sock.1.as_raw_fd(),
        }
    }
}

impl WireReq {
    pub fn new(code: u32, payload: Vec<u8>, fds: Vec<FdKind>, label: &'static str) -> Self {
        WireReq { code, payload, fds, label }
    }
    pub fn bytes(&self, flags: u32) -> Vec<u8> {
        message(self.code, flags, &self.payload)
    }
    pub fn raw_fds(&self, res: &Resources) -> Vec<RawFd> {
        self.fds.iter().map(|k| k.fd(res)).collect()
    }
    pub fn name(&self) -> String {
        format!("{}[{}]", frontend_req_name(self.code), self.label)
    }
}

/// One (or a few) well-formed instance(s) of every request code 1..=44.
pub fn wellformed() -> Vec<WireReq> {
    let r0 = Region { gpa: 0x0, size: 0x2000, user: 0x7f00_0000_0000, offset: 0 };
    let r1 = Region { gpa: 0x10_0000, size: 0x1000, user: 0x7f00_1000_0000, offset: 0x1000 };
    let r2 = Region { gpa: 0x20_0000, size: 0x1000, user: 0x7f00_2000_0000, offset: 0x0 };
    vec![
        WireReq::new(GET_FEATURES, vec![], vec![], ""),
        WireReq::new(SET_FEATURES, p_u64(VIRTIO_F_PROTOCOL_FEATURES | 3), vec![], "pf"),
        WireReq::new(SET_FEATURES, p_u64(3), vec![], "nopf"),
        WireReq::new(SET_OWNER, vec![], vec![], ""),
        WireReq::new(RESET_OWNER, vec![], vec![], ""),
        WireReq::new(SET_MEM_TABLE, p_mem_table(&[r0, r1]), vec![FdKind::Mem(0), FdKind::Mem(1)], "2"),
        WireReq::new(SET_MEM_TABLE, p_mem_table(&[r2]), vec![FdKind::Mem(2)], "1"),
        WireReq::new(SET_LOG_BASE, p_log(0x1000, 0), vec![FdKind::Mem(1)], "shmfd"),
        WireReq::new(SET_LOG_FD, vec![], vec![FdKind::Event(0)], ""),
        WireReq::new(SET_VRING_NUM, p_vring_state(0, 128), vec![], ""),
        WireReq::new(SET_VRING_ADDR, p_vring_addr(1, 1, 0x1000, 0x2000, 0x3000, 0x4000), vec![], ""),
        WireReq::new(SET_VRING_BASE, p_vring_state(0, 5), vec![], ""),
        WireReq::new(GET_VRING_BASE, p_vring_state(1, 0), vec![], ""),
        WireReq::new(SET_VRING_KICK, p_u64(1), vec![FdKind::Event(1)], "fd"),
        WireReq::new(SET_VRING_KICK, p_u64(0x100), vec![], "nofd"),
        WireReq::new(SET_VRING_CALL, p_u64(0), vec![FdKind::Event(0)], "fd"),
        WireReq::new(SET_VRING_CALL, p_u64(0x101), vec![], "nofd"),
        WireReq::new(SET_VRING_ERR, p_u64(0), vec![FdKind::Event(2)], "fd"),
        WireReq::new(GET_PROTOCOL_FEATURES, vec![], vec![], ""),
        WireReq::new(SET_PROTOCOL_FEATURES, p_u64(PF_ALL_DEFINED), vec![], "all"),
        WireReq::new(GET_QUEUE_NUM, vec![], vec![], ""),
        WireReq::new(SET_VRING_ENABLE, p_vring_state(1, 1), vec![], "on"),
        WireReq::new(SET_VRING_ENABLE, p_vring_state(0, 0), vec![], "off"),
        WireReq::new(SEND_RARP, p_u64(0x1122_3344_5566), vec![], ""),
        WireReq::new(NET_SET_MTU, p_u64(1500), vec![], ""),
        WireReq::new(SET_BACKEND_REQ_FD, vec![], vec![FdKind::Sock], ""),
        WireReq::new(IOTLB_MSG, vec![0u8; 32], vec![], ""),
        WireReq::new(SET_VRING_ENDIAN, p_vring_state(0, 1), vec![], ""),
        WireReq::new(GET_CONFIG, p_config(0x100, 8, 0, &[0u8; 8]), vec![], ""),
        WireReq::new(SET_CONFIG, p_config(0x100, 4, 1, &[1, 2, 3, 4]), vec![], ""),
        WireReq::new(CREATE_CRYPTO_SESSION, vec![0u8; 16], vec![], ""),
        WireReq::new(CLOSE_CRYPTO_SESSION, p_u64(1), vec![], ""),
        WireReq::new(POSTCOPY_ADVISE, vec![], vec![], ""),
        WireReq::new(POSTCOPY_LISTEN, vec![], vec![], ""),
        WireReq::new(POSTCOPY_END, vec![], vec![], ""),
        WireReq::new(GET_INFLIGHT_FD, p_inflight(0x1000, 0, 2, 256), vec![], ""),
        WireReq::new(SET_INFLIGHT_FD, p_inflight(0x1000, 0, 2, 256), vec![FdKind::Mem(2)], ""),
        WireReq::new(GPU_SET_SOCKET, vec![], vec![FdKind::Sock], ""),
        WireReq::new(RESET_DEVICE, vec![], vec![], ""),
        WireReq::new(VRING_KICK, p_vring_state(0, 0), vec![], ""),
        WireReq::new(GET_MAX_MEM_SLOTS, vec![], vec![], ""),
        WireReq::new(ADD_MEM_REG, p_single_region(&r2), vec![FdKind::Mem(2)], ""),
        WireReq::new(REM_MEM_REG, p_single_region(&r2), vec![], ""),
        WireReq::new(SET_STATUS, p_u64(0xf), vec![], ""),
        WireReq::new(GET_STATUS, vec![], vec![], ""),
        WireReq::new(GET_SHARED_OBJECT, p_uuid(&UUID_A), vec![], ""),
        WireReq::new(SET_DEVICE_STATE_FD, p_transfer(0, 0), vec![FdKind::Mem(3)], ""),
        WireReq::new(CHECK_DEVICE_STATE, vec![], vec![], ""),
        WireReq::new(GET_SHMEM_CONFIG, vec![], vec![], ""),
    ]
}

/// Does this build of the server implement the request (i.e. is there a handler operation)?
/// Codes without one are answered with an error and no handler call.
pub fn server_implements(code: u32) -> bool {
    !matches!(
        code,
        SET_LOG_FD | SEND_RARP | NET_SET_MTU | IOTLB_MSG | SET_VRING_ENDIAN | CREATE_CRYPTO_SESSION | CLOSE_CRYPTO_SESSION | POSTCOPY_ADVISE
            | POSTCOPY_LISTEN | POSTCOPY_END | VRING_KICK | SET_STATUS | GET_STATUS
    )
}

/// Gating protocol feature of a request on the server (None = ungated).
pub fn server_gate(code: u32) -> Option<u64> {
    match code {
        GET_QUEUE_NUM => Some(PF_MQ),
        GET_CONFIG | SET_CONFIG => Some(PF_CONFIG),
        SET_BACKEND_REQ_FD => Some(PF_BACKEND_REQ),
        GET_INFLIGHT_FD | SET_INFLIGHT_FD => Some(PF_INFLIGHT_SHMFD),
        GET_MAX_MEM_SLOTS | ADD_MEM_REG | REM_MEM_REG => Some(PF_CONFIGURE_MEM_SLOTS),
        RESET_DEVICE => Some(PF_RESET_DEVICE),
        GET_SHARED_OBJECT => Some(PF_SHARED_OBJECT),
        GET_SHMEM_CONFIG => Some(PF_SHMEM),
        SET_LOG_BASE => Some(PF_LOG_SHMFD),
        _ => None,
    }
}

/// Raw peer <-> real BackendReqHandler.
pub struct RawSession {
    pub server: Server,
    pub peer: UnixStream,
    queue: Rc<RefCell<VecDeque<(Vec<u8>, Vec<RawFd>)>>>,
    /// once the queue is empty, shut the peer down instead of letting the server wait
    pub eof_when_empty: Rc<std::cell::Cell<bool>>,
}

impl RawSession {
    pub fn new(rec: Recorder) -> Self {
        let (server, peer) = Server::new(rec);
        let queue: Rc<RefCell<VecDeque<(Vec<u8>, Vec<RawFd>)>>> = Rc::new(RefCell::new(VecDeque::new()));
        let q = queue.clone();
        let pfd = peer.as_raw_fd();
        let eof = Rc::new(std::cell::Cell::new(false));
        let e = eof.clone();
        // when the server finds nothing to read, the next queued segment (if any) is delivered
        coop::set_pump(server.fd, move || {
            let seg = q.borrow_mut().pop_front();
            match seg {
                Some((b, f)) => {
                    send_with_fds(pfd, &b, &f);
                }
                None => {
                    if e.get() {
                        // SAFETY: shutdown on our own socket.
                        unsafe { libc::syscall(libc::SYS_shutdown, pfd as libc::c_long, libc::SHUT_RDWR as libc::c_long) };
                    }
                }
            }
        });
        RawSession { server, peer, queue, eof_when_empty: eof }
    }

    pub fn send(&self, bytes: &[u8], fds: &[RawFd]) {
        send_with_fds(self.peer.as_raw_fd(), bytes, fds);
    }

    /// Queue `bytes` for delivery in segments cut at the given (sorted, distinct, 0<c<len)
    /// stream positions; the descriptors ride on the first segment.
    pub fn queue_segments(&self, bytes: &[u8], fds: &[RawFd], cuts: &[usize]) {
        let mut q = self.queue.borrow_mut();
        let mut prev = 0;
        let mut first = true;
        for &c in cuts.iter().chain(std::iter::once(&bytes.len())) {
            if c <= prev || c > bytes.len() {
                continue;
            }
            q.push_back((bytes[prev..c].to_vec(), if first { fds.to_vec() } else { vec![] }));
            first = false;
            prev = c;
        }
    }

    pub fn queued(&self) -> usize {
        self.queue.borrow().len()
    }

    pub fn clear_queue(&self) {
        self.queue.borrow_mut().clear();
    }

    /// Everything the server has written so far.
    pub fn recv(&self) -> Received {
        drain(self.peer.as_raw_fd(), 65536)
    }

    /// Request + serve + collect the answer bytes.
    pub fn roundtrip(&self, bytes: &[u8], fds: &[RawFd]) -> (std::result::Result<(), String>, Received) {
        self.send(bytes, fds);
        let r = self.server.serve_one();
        (r, self.recv())
    }

    /// GET_FEATURES, SET_FEATURES(virtio), GET_PROTOCOL_FEATURES, SET_PROTOCOL_FEATURES(proto).
    pub fn negotiate(&self, virtio: u64, proto: u64) -> bool {
        let steps: Vec<Vec<u8>> = vec![
            message(GET_FEATURES, F_VERSION, &[]),
            message(SET_FEATURES, F_VERSION, &p_u64(virtio)),
            message(GET_PROTOCOL_FEATURES, F_VERSION, &[]),
            message(SET_PROTOCOL_FEATURES, F_VERSION, &p_u64(proto)),
        ];
        for s in steps {
            let (r, _) = self.roundtrip(&s, &[]);
            if r.is_err() {
                return false;
            }
        }
        self.server.rec.lock().unwrap().log.clear();
        true
    }
}

impl Drop for RawSession {
    fn drop(&mut self) {
        coop::unwatch(self.server.fd);
    }
}
