//! E3: finite boundary lattices. Every set is enumerated completely; `VERIF_SEED` only adds
//! extra patterns and rotates the walking order, it never turns enumeration into sampling.

pub fn splitmix(x: &mut u64) -> u64 {
    *x = x.wrapping_add(0x9E37_79B9_7F4A_7C15);
    let mut z = *x;
    z = (z ^ (z >> 30)).wrapping_mul(0xBF58_476D_1CE4_E5B9);
    z = (z ^ (z >> 27)).wrapping_mul(0x94D0_49BB_1331_11EB);
    z ^ (z >> 31)
}

fn dedup(mut v: Vec<u64>) -> Vec<u64> {
    let mut seen = std::collections::BTreeSet::new();
    v.retain(|x| seen.insert(*x));
    v
}

/// Boundary values of a 64-bit field. `level` 0 = small (quick pairs), 1 = medium, 2 = full.
pub fn u64_lattice(level: u8, seed: u64) -> Vec<u64> {
    let mut v: Vec<u64> = vec![
        0,
        1,
        2,
        0x1000,
        u64::MAX,
        u64::MAX - 0xfff,  // 2^64 - 0x1000
        1 << 63,
        0xffff_ffff,
        1 << 32,
        3,
        4,
        16,
        0xfff,
        u64::MAX - 1,
        (1 << 63) - 1,
    ];
    if level >= 1 {
        v.extend_from_slice(&[
            7,
            8,
            15,
            17,
            0x1001,
            0x7fff_ffff,
            0x8000_0000,
            0x8000_0001,
            0x1_0000_0001,
            (1 << 63) + 1,
            u64::MAX - 0x1000, // 2^64 - 0x1001
            u64::MAX - 0xffe,  // 2^64 - 0xfff
            u64::MAX - 0x7ff,  // 2^64 - 0x800
            1 << 47,
            (1 << 47) - 0x1000,
            0x100,
            0xff,
            0x101,
        ]);
    }
    if level >= 2 {
        for k in 0..64 {
            v.push(1u64 << k);
            v.push(!(1u64 << k));
        }
        v.extend_from_slice(&[5, 6, 9, 12, 14, 18, 31, 32, 33, 0x10_0000, 0x1234_5678_9abc_def0]);
    }
    let mut s = seed ^ 0xC0FF_EE00;
    let extra = match level {
        0 => 1,
        1 => 4,
        _ => 12,
    };
    for _ in 0..extra {
        v.push(splitmix(&mut s));
    }
    dedup(v)
}

pub fn u32_lattice(level: u8, seed: u64) -> Vec<u32> {
    let mut v: Vec<u64> = vec![
        0,
        1,
        2,
        3,
        4,
        0xff,
        0x100,
        0x101,
        0xfff,
        0x1000,
        0x1001,
        0x7fff_ffff,
        0x8000_0000,
        0xffff_ffff,
        0xffff_fffe,
        0xffff_f000,
        0xffff_efff,
        0xffff,
        0x1_0000,
    ];
    if level >= 1 {
        for k in 0..32 {
            v.push(1u64 << k);
        }
        v.extend_from_slice(&[5, 7, 8, 15, 16, 17, 31, 32, 33, 0xffe, 0x800, 0x7ff]);
    }
    if level >= 2 {
        for k in 0..32 {
            v.push((!(1u64 << k)) & 0xffff_ffff);
        }
    }
    let mut s = seed ^ 0xBEEF;
    for _ in 0..(1 + 2 * level as usize) {
        v.push(splitmix(&mut s) & 0xffff_ffff);
    }
    dedup(v).into_iter().map(|x| x as u32).collect()
}

pub fn u16_lattice(level: u8) -> Vec<u16> {
    let mut v: Vec<u64> = vec![0, 1, 2, 3, 255, 256, 257, 0x7fff, 0x8000, 0xffff, 0xfffe];
    if level >= 1 {
        for k in 0..16 {
            v.push(1 << k);
        }
    }
    dedup(v).into_iter().map(|x| x as u16).collect()
}

/// Rotate a vector by the seed so that a different seed walks the same finite space in another order.
pub fn rotate<T: Clone>(v: &[T], seed: u64) -> Vec<T> {
    if v.is_empty() {
        return vec![];
    }
    let k = (seed as usize) % v.len();
    let mut out = v[k..].to_vec();
    out.extend_from_slice(&v[..k]);
    out
}
