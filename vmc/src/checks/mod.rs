pub mod c03;
pub mod c08;
pub mod c19;
pub mod c20;
