pub mod c20;
