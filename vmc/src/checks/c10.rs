//! C10: concurrent callers get their own replies: request/response pairs are atomic.
//! Engine E2: 2-3 real caller threads on clones of one endpoint (Frontend, Backend proxy, GPU
//! proxy); the peer is an environment actor that consumes ONE request at a time and answers it
//! with a reply tagged by the request's identity. Scheduling points: the endpoint mutex
//! (`lock_point` hook), sendmsg, recvmsg.

use crate::feops::*;
use crate::feraw::*;
use crate::pxops::*;
use crate::rawpeer::{recv_once, send_with_fds};
use crate::recorder::Script;
use crate::report::Report;
use crate::sched::*;
use crate::spec::*;
use crate::sysshim::{self, coop, Point};
use serde_json::{json, Value};
use std::os::unix::io::{AsRawFd, RawFd};
use std::os::unix::net::UnixStream;
use std::sync::{Arc, Mutex};
use vhost::vhost_user::message::VhostUserHeaderFlag;
use vhost::vhost_user::{Backend, Frontend, GpuBackend};

/// The endpoint-mutex acquisitions are scheduling points: the process-wide lock-point callback
/// (crash.rs) hands them to the controller while one is installed.
fn install_lock_hook() {}

#[derive(Clone, Debug)]
pub enum Call {
    Fe(FeOp),
    Bp(BpOp),
    Gpu(GpuOp),
}

#[derive(Clone, Debug)]
pub struct Sc10 {
    pub calls: Vec<Call>,
    pub need_reply: bool,
    /// negotiation the frontend endpoint went through before the calls: 0 = everything offered and
    /// acknowledged, 1 = protocol features offered, none acknowledged, 2 = PROTOCOL_FEATURES never
    /// offered, 3 = everything except the feature the first call is tied to
    pub nego: u8,
}

/// The handler values the peer answers caller `i` with: every value carries the caller's index, so
/// a reply delivered to the wrong caller is visible in the returned value.
fn tag_script(i: usize) -> Script {
    let k = i as u64;
    Script {
        features: 0xfeed_0000 + k,
        proto: [PF_MQ, PF_LOG_SHMFD, PF_CONFIG][i % 3],
        queue_num: 7 + k,
        vring_base: 100 + i as u32,
        max_slots: 0x20 + k,
        shmem: (1 + i as u32, vec![0x1000 * (k + 1)]),
        inflight: (0x1000 * (k + 1), 0x40 * k, 2, 256),
        state_returns_file: i % 2 == 1,
        ..Default::default()
    }
}

/// Callers issuing the very same request cannot be told apart by the peer: they share a tag.
fn tag_index(calls: &[Call], i: usize) -> usize {
    (0..=i).find(|j| format!("{:?}", calls[*j]) == format!("{:?}", calls[i])).unwrap_or(i)
}

/// What a caller must get back (its own tag).
fn expected(calls: &[Call], i: usize, need_reply: bool, res: &Resources) -> String {
    match &calls[i] {
        Call::Fe(op) => format!("Ok({:?})", op.expected_ret(&tag_script(tag_index(calls, i)), res)),
        Call::Bp(op) => match op {
            BpOp::ShmemUnmap(..) if need_reply => "Err".into(),
            _ => "Ok(0)".into(),
        },
        Call::Gpu(op) => match op {
            GpuOp::GetProtocolFeatures => "Ok(U64(0xabc))".into(),
            GpuOp::GetDisplayInfo | GpuOp::GetEdid(_) => format!("Ok(bytes:{})", op.reply(7).map(|r| r.len() - 12).unwrap_or(0)),
            _ => "Ok(Unit)".into(),
        },
    }
}

fn render_fe(r: &Result<FeRet, String>) -> String {
    match r {
        Ok(o) => format!("Ok({o:?})"),
        Err(e) => format!("Err({e})"),
    }
}

pub struct St {
    peer: UnixStream,
    ep_fd: RawFd,
    results: Arc<Mutex<Vec<Option<String>>>>,
    handles: Vec<std::thread::JoinHandle<()>>,
    kind: u8, // 0 frontend, 1 backend proxy, 2 gpu
    answered: usize,
    res: Arc<Resources>,
}

/// What is queued at the peer, without consuming it: the header of the first request if that request
/// is completely there (code, flags, body size), and the total number of queued bytes. The library
/// may write one message with several sendmsg calls (and a peek does not cross a segment that
/// carries descriptors), so completeness is decided with FIONREAD, not with the peeked length.
fn wire_state(fd: RawFd) -> (Option<(u32, u32, usize)>, usize) {
    let total = sysshim::pending_bytes(fd);
    let mut hdr = [0u8; 12];
    // SAFETY: recv with MSG_PEEK|MSG_DONTWAIT into a local buffer.
    let n = unsafe { libc::recv(fd, hdr.as_mut_ptr() as *mut libc::c_void, 12, libc::MSG_PEEK | libc::MSG_DONTWAIT) };
    if n < 12 {
        return (None, total);
    }
    let size = rd32(&hdr, 8) as usize;
    if total < 12 + size {
        return (None, total);
    }
    (Some((rd32(&hdr, 0), rd32(&hdr, 4), size)), total)
}

fn awaits_reply(kind: u8, code: u32, flags: u32, size: usize) -> bool {
    match kind {
        // (only the descriptor-carrying form of SET_LOG_BASE is answered with a reply)
        0 => reply_kind(code) == ReplyKind::Reply || (code == SET_LOG_BASE && size == 16) || flags & F_NEED_REPLY != 0,
        1 => flags & F_NEED_REPLY != 0,
        _ => matches!(code, G_GET_PROTOCOL_FEATURES | G_GET_DISPLAY_INFO | G_GET_EDID | G_DMABUF_UPDATE),
    }
}

fn reply_for(kind: u8, code: u32, flags: u32, payload: &[u8]) -> Option<Vec<u8>> {
    if !awaits_reply(kind, code, flags, payload.len()) {
        return None;
    }
    let fl = F_REPLY | F_VERSION;
    Some(match kind {
        0 => message(code, fl, &p_u64(0)),
        1 => message(code, fl, &p_u64(if code == B_SHMEM_UNMAP { 5 } else { 0 })),
        _ => match code {
            G_GET_PROTOCOL_FEATURES => message(code, F_REPLY, &p_u64(0xabc)),
            G_GET_DISPLAY_INFO => GpuOp::GetDisplayInfo.reply(7).unwrap(),
            G_GET_EDID => GpuOp::GetEdid(0).reply(7).unwrap(),
            _ => message(code, F_REPLY, &[]),
        },
    })
}

impl Scenario for Sc10 {
    type S = St;

    fn name(&self) -> String {
        let n: Vec<String> = self
            .calls
            .iter()
            .map(|c| match c {
                Call::Fe(o) => format!("{:?}", o).chars().take(24).collect::<String>(),
                Call::Bp(o) => o.name().to_string(),
                Call::Gpu(o) => o.name().to_string(),
            })
            .collect();
        format!("{}{}{}", n.join("|"), if self.need_reply { "+NR" } else { "" }, if self.nego != 0 { format!("/nego{}", self.nego) } else { String::new() })
    }

    fn expected_threads(&self) -> usize {
        self.calls.len()
    }

    fn setup(&self, x: &mut Exec) -> Result<St, String> {
        install_lock_hook();
        let res = Arc::new(Resources::new());
        let results = Arc::new(Mutex::new(vec![None; self.calls.len()]));
        let mut handles = Vec::new();
        let (kind, peer, ep_fd): (u8, UnixStream, RawFd);
        match &self.calls[0] {
            Call::Fe(_) => {
                // negotiation on the explorer thread in coop mode, then hand clones to the callers
                coop::enable();
                let mut f = FeRaw::new(4);
                let gate0 = match &self.calls[0] {
                    Call::Fe(op) => op.gate().unwrap_or(0),
                    _ => 0,
                };
                match self.nego {
                    0 => f.negotiate(VIRTIO_F_PROTOCOL_FEATURES | 0x3, PF_ALL_DEFINED, PF_ALL_DEFINED)?,
                    1 => f.negotiate(VIRTIO_F_PROTOCOL_FEATURES | 0x3, PF_ALL_DEFINED, 0)?,
                    2 => f.negotiate(0x3, 0, 0)?,
                    _ => f.negotiate(VIRTIO_F_PROTOCOL_FEATURES | 0x3, PF_ALL_DEFINED, PF_ALL_DEFINED & !gate0)?,
                }
                f.fe.set_hdr_flags(if self.need_reply { VhostUserHeaderFlag::NEED_REPLY } else { VhostUserHeaderFlag::empty() });
                let fd = f.raw.ep_fd;
                let p = f.raw.peer.try_clone().map_err(|e| e.to_string())?;
                let fe: Frontend = f.fe.clone();
                drop(f);
                coop::disable();
                kind = 0;
                peer = p;
                ep_fd = fd;
                for (i, c) in self.calls.iter().enumerate() {
                    let Call::Fe(op) = c.clone() else { return Err("mixed endpoints".into()) };
                    let mut fe = fe.clone();
                    let res = res.clone();
                    let results = results.clone();
                    let ctl = x.ctl.clone();
                    handles.push(std::thread::Builder::new().name(format!("caller-{i}")).spawn(move || {
                        let r = std::panic::catch_unwind(std::panic::AssertUnwindSafe(|| invoke(&mut fe, &op, &res)));
                        results.lock().unwrap()[i] = Some(match r {
                            Ok(r) => render_fe(&r),
                            Err(_) => "PANIC".into(),
                        });
                        ctl.exited();
                    }).unwrap());
                }
                drop(fe);
            }
            Call::Bp(_) => {
                let (a, b) = UnixStream::pair().unwrap();
                ep_fd = a.as_raw_fd();
                let p = Backend::from_stream(a);
                p.set_reply_ack_flag(self.need_reply);
                p.set_shared_object_flag(true);
                p.set_shmem_flag(true);
                kind = 1;
                peer = b;
                for (i, c) in self.calls.iter().enumerate() {
                    let Call::Bp(op) = c.clone() else { return Err("mixed endpoints".into()) };
                    let p = p.clone();
                    let res = res.clone();
                    let results = results.clone();
                    let ctl = x.ctl.clone();
                    handles.push(std::thread::Builder::new().name(format!("caller-{i}")).spawn(move || {
                        let r = invoke_bp(&p, &op, &res);
                        results.lock().unwrap()[i] = Some(match r {
                            Ok(v) => format!("Ok({v})"),
                            Err(_) => "Err".into(),
                        });
                        ctl.exited();
                    }).unwrap());
                }
            }
            Call::Gpu(_) => {
                let (a, b) = UnixStream::pair().unwrap();
                ep_fd = a.as_raw_fd();
                let g = GpuBackend::from_stream(a);
                kind = 2;
                peer = b;
                for (i, c) in self.calls.iter().enumerate() {
                    let Call::Gpu(op) = c.clone() else { return Err("mixed endpoints".into()) };
                    let g = g.clone();
                    let res = res.clone();
                    let results = results.clone();
                    let ctl = x.ctl.clone();
                    handles.push(std::thread::Builder::new().name(format!("caller-{i}")).spawn(move || {
                        let r = invoke_gpu(&g, &op, &res);
                        results.lock().unwrap()[i] = Some(match r {
                            Ok(GpuRet::U64(v)) => format!("Ok(U64({v:#x}))"),
                            Ok(GpuRet::Bytes(b)) => format!("Ok(bytes:{})", b.len()),
                            Ok(GpuRet::Unit) => "Ok(Unit)".into(),
                            Err(e) => format!("Err({e})"),
                        });
                        ctl.exited();
                    }).unwrap());
                }
            }
        }
        x.ctl.quiesce(self.calls.len())?;
        Ok(St { peer, ep_fd, results, handles, kind, answered: 0, res })
    }

    fn env_names(&self) -> Vec<String> {
        vec!["P".into()]
    }

    fn env_enabled(&self, s: &St, _i: usize) -> bool {
        wire_state(s.peer.as_raw_fd()).0.is_some()
    }

    fn env_step(&self, s: &mut St, _i: usize, x: &mut Exec) -> String {
        let (first, total) = wire_state(s.peer.as_raw_fd());
        let (code, flags, size) = first.expect("peer step without a complete request");
        // consume exactly this one request
        let mut msg: Vec<u8> = Vec::new();
        while msg.len() < 12 + size {
            match recv_once(s.peer.as_raw_fd(), 12 + size - msg.len()) {
                Some((b, _)) if !b.is_empty() => msg.extend_from_slice(&b),
                _ => break,
            }
        }
        let payload: Vec<u8> = msg.get(12..).map(|p| p.to_vec()).unwrap_or_default();
        // a reply-awaiting request must be alone: nothing may have been written behind it
        if awaits_reply(s.kind, code, flags, payload.len()) && total > 12 + size {
            x.violation("C10:second-request-behind-awaited-request", &format!("request code {code} awaits a reply but {} more byte(s) of another request were already written behind it", total - 12 - size));
        }
        s.answered += 1;
        if s.kind == 0 {
            if !awaits_reply(0, code, flags, payload.len()) {
                return format!("consume({code})");
            }
            // whose request is this? (code and body identify the call; identical calls share a tag)
            let who = self.calls.iter().position(|c| match c {
                Call::Fe(op) => {
                    let (mut bytes, _) = correct_request(op, F_VERSION, &s.res);
                    let mut got = payload.clone();
                    // bytes the specification leaves unspecified (struct padding) are don't-care
                    for (a, b) in dont_care_ranges(op) {
                        for k in a..b.min(bytes.len()).min(got.len() + 12) {
                            bytes[k] = 0;
                            got[k - 12] = 0;
                        }
                    }
                    op.code() == code && bytes[12..] == got[..]
                }
                _ => false,
            });
            return match who {
                Some(i) => {
                    let Call::Fe(op) = &self.calls[i] else { unreachable!() };
                    let (r, fds) = correct_reply(op, &tag_script(tag_index(&self.calls, i)), &s.res);
                    send_with_fds(s.peer.as_raw_fd(), &r, &fds);
                    format!("answer({code})")
                }
                None => {
                    x.violation("C10:unknown-request-on-the-wire", &format!("request code {code} with a body no caller's call encodes to: {:x?}", payload));
                    format!("unknown({code})")
                }
            };
        }
        match reply_for(s.kind, code, flags, &payload) {
            Some(r) => {
                send_with_fds(s.peer.as_raw_fd(), &r, &[]);
                format!("answer({code})")
            }
            None => format!("consume({code})"),
        }
    }

    fn after_step(&self, s: &mut St, _info: &StepInfo, x: &mut Exec) {
        // no request may be written while a reply is still unread at the endpoint
        let unread = sysshim::pending_bytes(s.ep_fd);
        let (_, total) = wire_state(s.peer.as_raw_fd());
        if unread > 0 && total > 0 {
            x.violation("C10:request-written-before-reply-consumed", &format!("a reply of {unread} byte(s) is still unread while {total} byte(s) of another request are already on the wire"));
        }
    }

    fn finish(&self, s: &mut St, x: &mut Exec) {
        let snap = x.ctl.snapshot();
        let stuck: Vec<String> = snap.iter().filter(|p| p.0.starts_with("caller") && p.1 != PState::Exited).map(|p| format!("{}@{}", p.0, point_label(&p.2))).collect();
        if !stuck.is_empty() {
            x.violation("C10:deadlock", &format!("no actor is enabled but caller(s) never completed: {stuck:?}"));
        }
        let res = s.results.lock().unwrap().clone();
        for i in 0..self.calls.len() {
            let want = expected(&self.calls, i, self.need_reply, &s.res);
            match &res[i] {
                Some(got) => {
                    // after a partial negotiation a call may be refused (which calls must be is C07's
                    // subject): here it has to complete, and a value it returns must be its own
                    let ok = if want == "Err" || self.nego != 0 && got.starts_with("Err") { got.starts_with("Err") } else { *got == want };
                    if !ok {
                        x.violation("C10:caller-did-not-get-its-own-reply", &format!("caller {i} ({}) returned {got}, its own reply carries {want}", self.name()));
                    }
                }
                None => {}
            }
        }
    }

    fn teardown(&self, s: St) {
        // closing the peer releases callers that are still blocked reading
        drop(s.peer);
        for h in s.handles {
            // a caller that dead-locked itself on the endpoint mutex never returns: it is leaked
            // (the violation has been reported by `finish`), never joined
            let start = std::time::Instant::now();
            while !h.is_finished() && start.elapsed() < std::time::Duration::from_secs(3) {
                std::thread::sleep(std::time::Duration::from_millis(2));
            }
            if h.is_finished() {
                let _ = h.join();
            } else {
                crate::daemonh::STUCK.store(true, std::sync::atomic::Ordering::SeqCst);
            }
        }
    }
}

fn outcome(r: &RunResult) -> String {
    // order in which the peer saw the requests
    let order: Vec<&str> = r.trace.iter().filter(|t| t.starts_with("P:")).map(|t| t.as_str()).collect();
    format!("{}|v{}", order.join(","), r.violations.len())
}

pub fn run(rep: &mut Report) {
    let thorough = rep.is_thorough();
    rep.exhaustive = false;
    // every frontend operation has its own lock-hold pattern, so every one of them is the observed
    // call: against a reply-bearing and a fire-and-forget / acknowledged interferer, in both roles,
    // with NEED_REPLY off and on, and against itself; all ordered pairs at thorough
    let mut fe_ops = all_ops_basic();
    fe_ops.extend([FeOp::SetProtocolFeatures(PF_ALL_DEFINED), FeOp::SetLogBase(0x5000, None), FeOp::SetLogFd, FeOp::GetVringBase(0), FeOp::SetVringNum(0, 8)]);
    let inter = [FeOp::GetFeatures, FeOp::SetVringNum(1, 16), FeOp::GetVringBase(2)];
    let mut scs: Vec<Sc10> = Vec::new();
    for nr in [false, true] {
        if thorough {
            for a in &fe_ops {
                for b in &fe_ops {
                    scs.push(Sc10 { calls: vec![Call::Fe(a.clone()), Call::Fe(b.clone())], need_reply: nr, nego: 0 });
                }
            }
        } else {
            for a in &fe_ops {
                for b in &inter[..2] {
                    scs.push(Sc10 { calls: vec![Call::Fe(a.clone()), Call::Fe(b.clone())], need_reply: nr, nego: 0 });
                    scs.push(Sc10 { calls: vec![Call::Fe(b.clone()), Call::Fe(a.clone())], need_reply: nr, nego: 0 });
                }
                scs.push(Sc10 { calls: vec![Call::Fe(a.clone()), Call::Fe(a.clone())], need_reply: nr, nego: 0 });
            }
        }
    }
    scs.push(Sc10 { calls: vec![Call::Fe(inter[0].clone()), Call::Fe(inter[1].clone()), Call::Fe(inter[2].clone())], need_reply: true, nego: 0 });
    // "all calls complete": the branches an operation takes when its feature was not negotiated hold
    // the endpoint mutex too - every operation after each partial negotiation, next to a plain call
    for nego in 1..=3u8 {
        for a in &fe_ops {
            if nego == 3 && a.gate().is_none() {
                continue;
            }
            scs.push(Sc10 { calls: vec![Call::Fe(a.clone()), Call::Fe(FeOp::GetFeatures)], need_reply: false, nego });
        }
    }
    let u = UUID_A;
    let bp = vec![BpOp::SharedAdd(u), BpOp::ShmemUnmap(1, 0, 0, 0x1000, 0), BpOp::SharedLookup(u), BpOp::SharedRemove(u), BpOp::ShmemMap(2, 0, 0x1000, 0x1000, 1)];
    for a in &bp {
        for b in &bp {
            for nr in [false, true] {
                scs.push(Sc10 { calls: vec![Call::Bp(a.clone()), Call::Bp(b.clone())], need_reply: nr, nego: 0 });
            }
        }
    }
    let gp = gpu_ops_basic();
    for a in &gp {
        for b in &gp {
            scs.push(Sc10 { calls: vec![Call::Gpu(a.clone()), Call::Gpu(b.clone())], need_reply: false, nego: 0 });
        }
    }
    if thorough {
        // all ordered triples over six representative operations: plain reply, reply indexed by the
        // argument, acknowledged / fire-and-forget, reply with payload, reply with a descriptor, the
        // descriptor-carrying SET_LOG_BASE
        let rep6 = [FeOp::GetFeatures, FeOp::GetVringBase(1), FeOp::SetVringNum(0, 128), FeOp::GetConfig(0x100, 8, 0), FeOp::GetInflightFd(0x1000, 0x0, 2, 256), FeOp::SetLogBase(0x1000, Some((0x1000, 0x0)))];
        for nr in [false, true] {
            for a in &rep6 {
                for b in &rep6 {
                    for c in &rep6 {
                        scs.push(Sc10 { calls: vec![Call::Fe(a.clone()), Call::Fe(b.clone()), Call::Fe(c.clone())], need_reply: nr, nego: 0 });
                    }
                }
            }
        }
        for (a, b, c) in [(0, 9, 13), (0, 6, 14), (9, 9, 17), (6, 8, 0), (5, 0, 9), (21, 20, 27)] {
            scs.push(Sc10 { calls: vec![Call::Fe(fe_ops[a].clone()), Call::Fe(fe_ops[b].clone()), Call::Fe(fe_ops[c].clone())], need_reply: true, nego: 0 });
        }
        scs.push(Sc10 { calls: vec![Call::Bp(bp[0].clone()), Call::Bp(bp[1].clone()), Call::Bp(bp[2].clone())], need_reply: true, nego: 0 });
        scs.push(Sc10 { calls: vec![Call::Gpu(gp[0].clone()), Call::Gpu(gp[1].clone()), Call::Gpu(gp[2].clone())], need_reply: false, nego: 0 });
    }
    let start = std::time::Instant::now();
    let total_budget = if thorough { 1500.0 } else { 150.0 };
    let mut done = 0;
    let mut all_outcomes = std::collections::BTreeSet::new();
    for sc in &scs {
        let remaining = total_budget - start.elapsed().as_secs_f64();
        if remaining < 1.0 {
            rep.caps.push(format!("wall budget {total_budget}s: {} of {} scenarios explored", done, scs.len()));
            break;
        }
        let bound = if sc.calls.len() == 3 { 2 } else if thorough { 4 } else { 2 };
        let st = explore(sc, bound, 200, remaining.min(if thorough { 120.0 } else { 20.0 }), rep, "C10", &outcome);
        rep.states += st.states;
        rep.traces += st.schedules;
        for o in &st.outcomes {
            all_outcomes.insert(o.clone());
        }
        done += 1;
    }
    rep.extra.insert("scenarios".into(), json!(done));
    rep.extra.insert("distinct_request_orders".into(), json!(all_outcomes.len()));
    rep.rule = "per scenario (ordered pairs - and triples at thorough - of calls on clones of one endpoint: reply-bearing, acknowledged and fire-and-forget frontend operations with NEED_REPLY on/off, Backend proxy calls in ack and no-ack mode, GPU proxy calls; every frontend operation next to GET_FEATURES after three partial negotiations - nothing acknowledged, PROTOCOL_FEATURES never offered, everything but the operation's own feature): all schedules of the caller threads and the answering peer with at most 2 (4 at thorough) preemptions; scheduling points lock_point (endpoint mutex), sendmsg, recvmsg. Oracle in every state: no request on the wire while a reply is unread, no request behind a reply-awaiting request; at the end: every caller returned the value tagged for its own request, all callers completed. Non-trivial = schedules that preempt a runnable thread at least once (all schedules are distinct)".into();
    rep.assumptions.push("callers block only at the endpoint mutex (hook), sendmsg or recvmsg; a thread blocked elsewhere is detected through /proc and treated as blocked".into());
}

pub fn replay(case: &Value, rep: &mut Report) {
    println!("replay C10: re-running the quick exploration (scenario {})", case["scenario"]);
    run(rep);
}
