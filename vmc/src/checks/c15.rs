//! C15: dirty-page logging records every backend write, precisely and atomically.
//! E3: (region layout x log window x write offset/length) lattice on a real daemon whose guest
//! memory uses the library's `BitmapMmapRegion`; E1: all short histories interleaving
//! SET_LOG_BASE with memory-table changes; E2: N concurrent writers on bits of the same log byte
//! with the atomic accesses as scheduling points.

use crate::daemonh::*;
use crate::rawpeer::{eventfd, memfd};
use crate::report::Report;
use crate::sched::*;
use crate::spec::*;
use crate::sysshim::{self, Point};
use serde_json::{json, Value};
use std::collections::BTreeSet;
use std::os::unix::io::{AsRawFd, OwnedFd};
use std::sync::{Arc, Once};
use vhost_user_backend::bitmap::BitmapMmapRegion;
use vhost_user_backend::VringRwLock;
use vm_memory::{Bytes, GuestAddress, GuestAddressSpace};

type H = DaemonH<VringRwLock<GM<BitmapMmapRegion>>, BitmapMmapRegion>;

const PROTO: u64 = PF_REPLY_ACK | PF_LOG_SHMFD | PF_CONFIGURE_MEM_SLOTS | PF_MQ;
const VIRTIO: u64 = VIRTIO_F_PROTOCOL_FEATURES | VIRTIO_F_LOG_ALL | 0x3;
const GUARD: u8 = 0xee;
const USER: u64 = 0x7f00_0000_0000;

fn daemon() -> Result<H, String> {
    let cfg = Cfg { features: VIRTIO | (1 << 29), ..Default::default() };
    let mut h = H::new(cfg);
    h.negotiate(VIRTIO, PROTO)?;
    Ok(h)
}

fn renegotiate(h: &mut H) -> Result<(), String> {
    let _ = h.reconnect();
    h.negotiate(VIRTIO, PROTO)
}

/// (gpa, size) of each region; backing file offset = running total
fn set_table(h: &mut H, mem: &OwnedFd, regions: &[(u64, u64)]) -> Result<bool, String> {
    let mut off = 0u64;
    let rs: Vec<Region> = regions
        .iter()
        .map(|(g, s)| {
            let r = Region { gpa: *g, size: *s, user: USER + *g, offset: off };
            off += (*s + 0xfff) & !0xfff;
            r
        })
        .collect();
    let fds: Vec<i32> = regions.iter().map(|_| mem.as_raw_fd()).collect();
    h.ack(SET_MEM_TABLE, &p_mem_table(&rs), &fds)
}

/// Log file: one guard page, the window, one guard page.
fn new_log(window_pages: usize) -> OwnedFd {
    let f = memfd("c15-log", ((window_pages + 2) * 4096) as u64);
    let g = vec![GUARD; (window_pages + 2) * 4096];
    // SAFETY: pwrite on our memfd.
    unsafe { libc::pwrite(f.as_raw_fd(), g.as_ptr() as *const libc::c_void, g.len(), 0) };
    f
}

fn clear_window(log: &OwnedFd, off: u64, len: usize) {
    let z = vec![0u8; len];
    // SAFETY: pwrite on our memfd.
    unsafe { libc::pwrite(log.as_raw_fd(), z.as_ptr() as *const libc::c_void, len, off as i64) };
}

fn read_file(f: &OwnedFd, len: usize) -> Vec<u8> {
    let mut b = vec![0u8; len];
    // SAFETY: pread on our memfd.
    unsafe { libc::pread(f.as_raw_fd(), b.as_mut_ptr() as *mut libc::c_void, len, 0) };
    b
}

/// Independent oracle: the set of 4 KiB guest pages a write of `len` bytes at `gpa` touches.
fn pages_of(gpa: u64, len: u64) -> BTreeSet<u64> {
    let mut s = BTreeSet::new();
    if len == 0 {
        return s;
    }
    let mut p = gpa / 4096;
    let last = (gpa + len - 1) / 4096;
    while p <= last {
        s.insert(p);
        p += 1;
    }
    s
}

fn expected_window(pages: &BTreeSet<u64>, len: usize) -> Vec<u8> {
    let mut w = vec![0u8; len];
    for p in pages {
        let byte = (*p / 8) as usize;
        if byte < len {
            w[byte] |= 1 << (*p % 8);
        }
    }
    w
}

fn layouts() -> Vec<(&'static str, Vec<(u64, u64)>, bool)> {
    vec![
        ("one-region-8-pages", vec![(0, 0x8000)], true),
        ("two-regions-sharing-a-log-byte", vec![(0, 0x3000), (0x4000, 0x4000)], true),
        ("adjacent-regions", vec![(0, 0x3000), (0x3000, 0x2000)], true),
        ("three-regions-two-log-bytes", vec![(0x1000, 0x2000), (0x5000, 0x1000), (0x9000, 0x8000)], true),
        ("four-regions-crossing-byte-boundary", vec![(0, 0x1000), (0x2000, 0x1000), (0x7000, 0x2000), (0x10000, 0x1000)], true),
        ("region-length-not-page-multiple", vec![(0, 0x1800)], false),
        ("region-start-not-page-aligned", vec![(0x800, 0x1000)], false),
        ("second-region-unaligned-length", vec![(0, 0x2000), (0x4000, 0x2800)], false),
    ]
}

fn write_points(size: u64) -> Vec<(u64, u64)> {
    let offs: Vec<u64> = [0u64, 1, 4095, 4096, 4097, 8191, 8192, 8193, size.saturating_sub(4097), size.saturating_sub(4096), size.saturating_sub(2), size.saturating_sub(1)].into_iter().filter(|o| *o < size).collect();
    let lens: Vec<u64> = vec![0, 1, 2, 4095, 4096, 4097, 8191, 8192, 8193, size];
    let mut v = Vec::new();
    for &o in &offs {
        for &l in &lens {
            if o + l <= size {
                v.push((o, l));
            }
        }
        v.push((o, size - o));
    }
    v.sort();
    v.dedup();
    v
}

fn inputs(rep: &mut Report, thorough: bool) {
    for (lname, regions, aligned) in layouts() {
        let last_page = regions.iter().map(|(g, s)| (g + s - 1) / 4096).max().unwrap();
        let needed = (last_page / 8 + 1) as u64; // bytes of log needed for the highest guest page
        for log_off_pages in [1u64, 2] {
            for log_size in [needed.saturating_sub(1), needed, needed + 1, 4096] {
                if log_size == 0 {
                    continue;
                }
                if !thorough && log_off_pages == 2 && log_size != needed {
                    continue;
                }
                let mut h = match daemon() {
                    Ok(h) => h,
                    Err(e) => return rep.violation("C15:setup", &e, json!({})),
                };
                let mem = memfd("c15-mem", 0x20000);
                if set_table(&mut h, &mem, &regions) != Ok(true) {
                    rep.violation("C15:set_mem_table-rejected", &format!("layout {lname}"), json!({"check":"C15","layout":lname}));
                    continue;
                }
                let log = new_log(3);
                let log_off = log_off_pages * 4096 - if log_off_pages == 2 { 0 } else { 0 };
                // window starts at page 1 (offset 4096) or page 2 (offset 8192) of the 5-page file
                let out = h.req(SET_LOG_BASE, &p_log(log_size, log_off), &[log.as_raw_fd()]);
                let accepted = matches!(&out, ReqOut::Msg(d, _) if d.code == SET_LOG_BASE && d.flags & F_REPLY != 0);
                rep.evaluations += 1;
                rep.transitions += 1;
                let case = json!({"check":"C15","part":"inputs","layout":lname,"log_offset":log_off,"log_size":log_size});
                let must_reject = !aligned || log_size < needed;
                if must_reject {
                    if accepted {
                        rep.outcome("invalid-log-setup-accepted");
                        rep.violation(
                            &format!("C15:set_log_base:{}", if !aligned { "unaligned-region-accepted" } else { "log-too-small-accepted" }),
                            &format!("layout {lname} (regions {:x?}), log of {log_size} byte(s) for highest guest page {last_page}: SET_LOG_BASE was accepted", regions),
                            case.clone(),
                        );
                    } else {
                        rep.outcome("invalid-log-setup-rejected");
                        rep.nontrivial += 1;
                        continue;
                    }
                } else if !accepted {
                    rep.violation("C15:set_log_base:valid-setup-rejected", &format!("layout {lname}, log {log_size} bytes at {log_off:#x}: {:?}", out), case);
                    continue;
                } else {
                    rep.outcome("log-setup-accepted");
                }
                // writes through the guest-memory interface
                let gm = h.be.mem.lock().unwrap().clone().unwrap();
                let file_len = 5 * 4096;
                for (ri, (gpa, size)) in regions.iter().enumerate() {
                    for (o, l) in write_points(*size) {
                        clear_window(&log, log_off, log_size as usize);
                        let data = vec![0x5au8; l as usize];
                        let wr = gm.memory().write_slice(&data, GuestAddress(gpa + o));
                        rep.evaluations += 1;
                        rep.transitions += 1;
                        let f = read_file(&log, file_len);
                        let win = &f[log_off as usize..(log_off + log_size) as usize];
                        let want = expected_window(&pages_of(gpa + o, l), log_size as usize);
                        let guard_ok = f[..log_off as usize].iter().all(|b| *b == GUARD) && f[(log_off + log_size) as usize..].iter().all(|b| *b == GUARD);
                        let case = json!({"check":"C15","part":"inputs","layout":lname,"region":ri,"offset":o,"len":l,"log_offset":log_off,"log_size":log_size});
                        if wr.is_err() {
                            rep.violation("C15:write-failed", &format!("write of {l} bytes at {:#x} inside region {ri} failed: {:?}", gpa + o, wr.err()), case);
                        } else if !guard_ok {
                            rep.outcome("log-guard-touched");
                            rep.violation("C15:memory-outside-log-touched", &format!("write at {:#x}+{l}: bytes outside the log window [{log_off:#x},+{log_size}) changed", gpa + o), case);
                        } else if win != want.as_slice() {
                            rep.outcome("log-bits-differ");
                            let kind = if win.iter().zip(want.iter()).any(|(a, b)| a & !b != 0) { "extra-bits" } else { "missing-bits" };
                            rep.violation(
                                &format!("C15:log:{kind}:{}", if aligned { "aligned-layout" } else { "unaligned-layout" }),
                                &format!("layout {lname}: write of {l} byte(s) at guest address {:#x}: log window {:02x?}, pages touched require {:02x?}", gpa + o, &win[..win.len().min(8)], &want[..want.len().min(8)]),
                                case,
                            );
                        } else {
                            rep.outcome(if l == 0 { "zero-length-write-logs-nothing" } else { "log-exact" });
                            rep.nontrivial += 1;
                        }
                    }
                }
                // a write that starts in an already dirty page ("changes no other bit" also means that
                // bits set earlier stay, and that an earlier bit does not excuse a later page)
                for (ri, (gpa, size)) in regions.iter().enumerate() {
                    for (pre, o, l) in [(0x10u64, 0x800u64, 0x2000u64), (0x1ff0, 0x1ff8, 0x1010), (0x0, 0x0, *size)] {
                        if o + l > *size || pre >= *size {
                            continue;
                        }
                        clear_window(&log, log_off, log_size as usize);
                        let w1 = gm.memory().write_slice(&[1u8; 1], GuestAddress(gpa + pre));
                        let w2 = gm.memory().write_slice(&vec![2u8; l as usize], GuestAddress(gpa + o));
                        let f = read_file(&log, file_len);
                        let win = &f[log_off as usize..(log_off + log_size) as usize];
                        let mut pages = pages_of(gpa + pre, 1);
                        pages.extend(pages_of(gpa + o, l));
                        let want = expected_window(&pages, log_size as usize);
                        rep.evaluations += 1;
                        rep.transitions += 2;
                        if w1.is_err() || w2.is_err() || win != want.as_slice() {
                            rep.outcome("log-bits-differ-after-earlier-write");
                            rep.violation(&format!("C15:log:second-write:{}", if aligned { "aligned-layout" } else { "unaligned-layout" }), &format!("layout {lname}: 1 byte at {:#x}, then {l} bytes at {:#x}: log window {:02x?}, pages touched require {:02x?}", gpa + pre, gpa + o, &win[..win.len().min(8)], &want[..want.len().min(8)]), json!({"check":"C15","part":"inputs","layout":lname,"region":ri,"pre":pre,"offset":o,"len":l}));
                        } else {
                            rep.outcome("log-exact-after-earlier-write");
                            rep.nontrivial += 1;
                        }
                    }
                }
                // a write spanning two guest-contiguous regions
                if lname == "adjacent-regions" {
                    clear_window(&log, log_off, log_size as usize);
                    let wr = gm.memory().write_slice(&vec![1u8; 0x2000], GuestAddress(0x2800));
                    let f = read_file(&log, file_len);
                    let win = &f[log_off as usize..(log_off + log_size) as usize];
                    let want = expected_window(&pages_of(0x2800, 0x2000), log_size as usize);
                    rep.evaluations += 1;
                    if wr.is_err() || win != want.as_slice() {
                        rep.violation("C15:log:write-spanning-regions", &format!("write 0x2800+0x2000 across two regions: window {:02x?} expected {:02x?} ({:?})", &win[..2.min(win.len())], &want[..2.min(want.len())], wr.err()), json!({"check":"C15","part":"inputs","layout":lname,"spanning":true}));
                    } else {
                        rep.outcome("log-exact-spanning");
                        rep.nontrivial += 1;
                    }
                }
                // used-ring update performed by the backend
                if lname == "one-region-8-pages" && log_size >= needed {
                    let kick = eventfd(0, true);
                    let _ = h.ack(SET_VRING_NUM, &p_vring_state(0, 16), &[]);
                    let _ = h.ack(SET_VRING_ADDR, &p_vring_addr(0, 0, USER + 0x1000, USER + 0x3ff8, USER + 0x2000, 0), &[]);
                    let _ = h.ack(SET_VRING_KICK, &p_u64(0), &[kick.as_raw_fd()]);
                    let _ = h.ack(SET_VRING_ENABLE, &p_vring_state(0, 1), &[]);
                    clear_window(&log, log_off, log_size as usize);
                    h.be.sh.0.lock().unwrap().actions.push_back(Action::AddUsedSignal(1, 0x40));
                    let one: u64 = 1;
                    // SAFETY: write to our own eventfd.
                    unsafe { libc::write(kick.as_raw_fd(), &one as *const u64 as *const libc::c_void, 8) };
                    let _ = h.probe(0);
                    let f = read_file(&log, file_len);
                    let win = &f[log_off as usize..(log_off + log_size) as usize];
                    // used ring at 0x3ff8: flags/idx in page 3, first element at 0x3ffc..0x4004 crosses into page 4
                    let mut pages = pages_of(0x3ff8 + 2, 2);
                    pages.extend(pages_of(0x3ff8 + 4, 8));
                    let want = expected_window(&pages, log_size as usize);
                    rep.evaluations += 1;
                    if win != want.as_slice() {
                        rep.outcome("used-ring-update-not-logged");
                        rep.violation("C15:log:used-ring-update", &format!("add_used on a used ring at 0x3ff8: log window {:02x?}, pages written require {:02x?}", &win[..1], &want[..1]), json!({"check":"C15","part":"used_ring","log_offset":log_off}));
                    } else {
                        rep.outcome("used-ring-update-logged");
                        rep.nontrivial += 1;
                    }
                }
                let _ = renegotiate;
            }
        }
    }
}

// ---- histories -------------------------------------------------------------------------------------

#[derive(Clone, Debug, PartialEq)]
enum HOp {
    LogBase,
    /// SET_LOG_BASE with a second, one-byte log: enough for region A's pages, too small for region B's
    LogSmall,
    TableA,
    TableAB,
    AddB,
    RemB,
    WriteA,
    WriteB,
}

fn histories(rep: &mut Report, depth: usize) {
    let ops = [HOp::LogBase, HOp::LogSmall, HOp::TableA, HOp::TableAB, HOp::AddB, HOp::RemB, HOp::WriteA, HOp::WriteB];
    let a = (0u64, 0x2000u64);
    // region B's pages (16, 17) live in log byte 2, region A's (0, 1) in byte 0
    let b = (0x1_0000u64, 0x2000u64);
    let mut seqs: Vec<Vec<usize>> = vec![vec![]];
    let mut all: Vec<Vec<usize>> = Vec::new();
    for _ in 0..depth {
        let mut next = Vec::new();
        for s in &seqs {
            for i in 0..ops.len() {
                let mut t = s.clone();
                t.push(i);
                next.push(t);
            }
        }
        all.extend(next.iter().filter(|s| matches!(ops[*s.last().unwrap()], HOp::WriteA | HOp::WriteB) && s.iter().any(|i| matches!(ops[*i], HOp::LogBase | HOp::LogSmall))).cloned());
        seqs = next;
    }
    // one level deeper from a non-initial state: every history of length depth+1 that starts with the
    // two-region table (the only state in which a SET_LOG_BASE can be *rejected*, so that "accepted
    // log, rejected log, reconnect, table change, write" fits into the bound)
    let ab = ops.iter().position(|o| *o == HOp::TableAB).unwrap();
    for s in seqs.iter().filter(|s| s[0] == ab) {
        for i in 0..ops.len() {
            if matches!(ops[i], HOp::WriteA | HOp::WriteB) && s.iter().any(|i| matches!(ops[*i], HOp::LogBase | HOp::LogSmall)) {
                let mut t = s.clone();
                t.push(i);
                all.push(t);
            }
        }
    }
    for seq in all {
        let mut h = match daemon() {
            Ok(h) => h,
            Err(e) => return rep.violation("C15:setup", &e, json!({})),
        };
        let mem = memfd("c15-mem", 0x10000);
        let log = new_log(1);
        let log2 = new_log(1);
        // which log is in force: 0 none, 1 the page-sized one, 2 the one-byte one
        let mut cur_log = 0u8;
        let (mut has_a, mut has_b, mut logging) = (false, false, false);
        // region (re)installed by a table message after the SET_LOG_BASE in force (known finding)
        let (mut a_late, mut b_late) = (false, false);
        let case = json!({"check":"C15","part":"histories","seq": seq.iter().map(|i| format!("{:?}", ops[*i])).collect::<Vec<_>>()});
        for i in seq.iter() {
            let mut failed = false;
            match ops[*i] {
                HOp::LogBase => {
                    // SET_LOG_BASE needs at least one region to cover; with an empty table it trivially succeeds
                    let out = h.req(SET_LOG_BASE, &p_log(4096, 4096), &[log.as_raw_fd()]);
                    if matches!(&out, ReqOut::Msg(d, _) if d.code == SET_LOG_BASE) {
                        logging = true;
                        cur_log = 1;
                        a_late = false;
                        b_late = false;
                    } else {
                        failed = true;
                    }
                }
                HOp::LogSmall => {
                    let out = h.req(SET_LOG_BASE, &p_log(1, 4096), &[log2.as_raw_fd()]);
                    let accepted = matches!(&out, ReqOut::Msg(d, _) if d.code == SET_LOG_BASE);
                    rep.evaluations += 1;
                    if accepted != !has_b {
                        rep.violation(&format!("C15:history:{}", if accepted { "log-too-small-accepted" } else { "valid-log-rejected" }), &format!("history {:?}: one-byte log with region B {}: accepted={accepted}", seq.iter().map(|i| format!("{:?}", ops[*i])).collect::<Vec<_>>(), if has_b { "present (needs 3 bytes)" } else { "absent" }), case.clone());
                    }
                    if accepted {
                        logging = true;
                        cur_log = 2;
                        a_late = false;
                        b_late = false;
                    } else {
                        // rejected: whatever was in force before stays in force, for every region
                        failed = true;
                    }
                }
                HOp::TableA => match set_table(&mut h, &mem, &[a]) {
                    Ok(true) => {
                        has_a = true;
                        has_b = false;
                        a_late = logging;
                    }
                    _ => failed = true,
                },
                HOp::TableAB => match set_table(&mut h, &mem, &[a, b]) {
                    Ok(true) => {
                        has_a = true;
                        has_b = true;
                        a_late = logging;
                        b_late = logging;
                    }
                    _ => failed = true,
                },
                HOp::AddB => {
                    let r = Region { gpa: b.0, size: b.1, user: USER + b.0, offset: 0x4000 };
                    match h.ack(ADD_MEM_REG, &p_single_region(&r), &[mem.as_raw_fd()]) {
                        Ok(true) => {
                            has_b = true;
                            b_late = logging;
                        }
                        _ => failed = true,
                    }
                }
                HOp::RemB => {
                    let r = Region { gpa: b.0, size: b.1, user: USER + b.0, offset: 0x4000 };
                    match h.ack(REM_MEM_REG, &p_single_region(&r), &[]) {
                        Ok(true) => has_b = false,
                        _ => failed = true,
                    }
                }
                HOp::WriteA | HOp::WriteB => {
                    let (is_a, gpa) = if ops[*i] == HOp::WriteA { (true, a.0 + 0x1010) } else { (false, b.0 + 0x1010) };
                    if (is_a && !has_a) || (!is_a && !has_b) {
                        continue;
                    }
                    let Some(gm) = h.be.mem.lock().unwrap().clone() else { continue };
                    clear_window(&log, 4096, 4096);
                    clear_window(&log2, 4096, 1);
                    let wr = gm.memory().write_slice(&[7u8; 8], GuestAddress(gpa));
                    let f = read_file(&log, 3 * 4096);
                    let f2 = read_file(&log2, 3 * 4096);
                    // the two windows side by side: the page-sized log, then the one-byte log
                    let mut win: Vec<u8> = f[4096..8192].to_vec();
                    win.push(f2[4096]);
                    let pages = pages_of(gpa, 8);
                    let mut want = if logging && cur_log == 1 { expected_window(&pages, 4096) } else { vec![0u8; 4096] };
                    want.push(if logging && cur_log == 2 { expected_window(&pages, 1)[0] } else { 0 });
                    let win = win.as_slice();
                    if f2[..4096].iter().chain(f2[4097..].iter()).any(|x| *x != GUARD) {
                        rep.violation("C15:history:outside-the-log-window", "bytes outside the one-byte log window were modified", case.clone());
                    }
                    rep.evaluations += 1;
                    rep.transitions += 1;
                    if wr.is_err() {
                        rep.violation("C15:write-failed", &format!("{:?}", wr.err()), case.clone());
                    } else if win != want.as_slice() {
                        rep.outcome("logging-not-in-force");
                        rep.violation(
                            &format!("C15:history:write-not-logged:{}", if (is_a && a_late) || (!is_a && b_late) { "region-installed-after-set_log_base" } else { "other" }),
                            &format!("history {:?}: write at {gpa:#x}: page-sized log bytes 0..3 = {:02x?} (expected {:02x?}), one-byte log = {:#04x} (expected {:#04x})", seq.iter().map(|i| format!("{:?}", ops[*i])).collect::<Vec<_>>(), &win[..3], &want[..3], win[4096], want[4096]),
                            case.clone(),
                        );
                    } else {
                        rep.outcome(if logging { "history-write-logged" } else { "history-write-before-logging" });
                        rep.nontrivial += 1;
                    }
                }
            }
            if failed {
                if renegotiate(&mut h).is_err() {
                    break;
                }
            }
            // the memory the backend holds consists of exactly the regions of the accepted updates: a
            // table change that was rejected (e.g. because the log in force cannot cover it) changes nothing
            if let Some(gm) = h.be.mem.lock().unwrap().clone() {
                use vm_memory::{GuestMemory, GuestMemoryRegion};
                let got: Vec<u64> = gm.memory().iter().map(|r| r.start_addr().0).collect();
                let mut want: Vec<u64> = Vec::new();
                if has_a {
                    want.push(a.0);
                }
                if has_b {
                    want.push(b.0);
                }
                rep.evaluations += 1;
                if got != want {
                    rep.outcome("history-memory-differs");
                    rep.violation("C15:history:memory-differs-from-accepted-updates", &format!("history {:?}: backend memory has regions at {:x?}, the accepted updates give {:x?}", seq.iter().map(|i| format!("{:?}", ops[*i])).collect::<Vec<_>>(), got, want), case.clone());
                    break;
                }
            }
        }
    }
}

// ---- concurrent writers on one log byte (E2) ----------------------------------------------------

static HOOK: Once = Once::new();

fn install_atomic_hook() {
    HOOK.call_once(|| {
        vhost_user_backend::verif::set_atomic_point(Box::new(|op, addr| {
            sysshim::sched_point(Point::Atomic(op, addr), &|| true);
        }));
    });
}

#[derive(Clone)]
struct ScW {
    writers: usize,
    marks: usize,
}

struct StW {
    h: H,
    log: OwnedFd,
    handles: Vec<std::thread::JoinHandle<()>>,
}

impl Scenario for ScW {
    type S = StW;
    fn name(&self) -> String {
        format!("{}writers-{}marks", self.writers, self.marks)
    }
    fn expected_threads(&self) -> usize {
        2 + self.writers
    }
    fn setup(&self, x: &mut Exec) -> Result<StW, String> {
        install_atomic_hook();
        x.expected = 2; // worker + daemon thread during the set-up prefix
        let cfg = Cfg { features: VIRTIO, ..Default::default() };
        let mut h = H::new(cfg);
        let mut sync = |h: &mut H, code: u32, payload: Vec<u8>, fds: Vec<i32>, x: &mut Exec| -> Result<(), String> {
            h.send(code, F_VERSION | F_NEED_REPLY, &payload, &fds);
            x.run_quiet()?;
            match h.try_recv_msg() {
                Some(ReqOut::Msg(..)) => Ok(()),
                o => Err(format!("{} not answered: {o:?}", frontend_req_name(code))),
            }
        };
        x.run_quiet()?;
        sync(&mut h, GET_FEATURES, vec![], vec![], x)?;
        sync(&mut h, GET_PROTOCOL_FEATURES, vec![], vec![], x)?;
        sync(&mut h, SET_PROTOCOL_FEATURES, p_u64(PROTO), vec![], x)?;
        sync(&mut h, SET_FEATURES, p_u64(VIRTIO), vec![], x)?;
        let mem = memfd("c15-mem", 0x10000);
        let rs = [Region { gpa: 0, size: 0x10000, user: USER, offset: 0 }];
        sync(&mut h, SET_MEM_TABLE, p_mem_table(&rs), vec![mem.as_raw_fd()], x)?;
        let log = new_log(1);
        sync(&mut h, SET_LOG_BASE, p_log(4096, 4096), vec![log.as_raw_fd()], x)?;
        clear_window(&log, 4096, 4096);
        let gm = h.be.mem.lock().unwrap().clone().ok_or("no memory")?;
        let mut handles = Vec::new();
        for w in 0..self.writers {
            let gm = gm.clone();
            let ctl = x.ctl.clone();
            let marks = self.marks;
            let nw = self.writers;
            handles.push(
                std::thread::Builder::new()
                    .name(format!("writer-{w}"))
                    .spawn(move || {
                        sysshim::sched_point(Point::User("start"), &|| true);
                        for m in 0..marks {
                            // distinct pages, all in log byte 0 (pages 0..7)
                            let page = (w + m * nw) as u64 % 8;
                            let _ = gm.memory().write_slice(&[1u8], GuestAddress(page * 4096 + 8));
                        }
                        ctl.exited();
                    })
                    .unwrap(),
            );
        }
        x.expected = self.expected_threads();
        x.ctl.quiesce(x.expected)?;
        Ok(StW { h, log, handles })
    }
    fn env_names(&self) -> Vec<String> {
        vec![]
    }
    fn env_enabled(&self, _s: &StW, _i: usize) -> bool {
        false
    }
    fn env_step(&self, _s: &mut StW, _i: usize, _x: &mut Exec) -> String {
        String::new()
    }
    fn after_step(&self, _s: &mut StW, _info: &StepInfo, _x: &mut Exec) {}
    fn finish(&self, s: &mut StW, x: &mut Exec) {
        let f = read_file(&s.log, 3 * 4096);
        let mut want = 0u8;
        for w in 0..self.writers {
            for m in 0..self.marks {
                want |= 1 << ((w + m * self.writers) % 8);
            }
        }
        if f[4096] != want {
            x.violation("C15:concurrent-writers:lost-bit", &format!("{} writers x {} marks on log byte 0: final byte {:#010b}, OR of all writers' bits {:#010b}", self.writers, self.marks, f[4096], want));
        }
        if f[4097..8192].iter().any(|b| *b != 0) || f[..4096].iter().any(|b| *b != GUARD) || f[8192..].iter().any(|b| *b != GUARD) {
            x.violation("C15:concurrent-writers:other-bytes-touched", "bytes other than log byte 0 changed");
        }
        let stuck = x.ctl.snapshot().iter().filter(|p| p.0.starts_with("writer") && p.1 != PState::Exited).count();
        if stuck > 0 {
            x.violation("C15:concurrent-writers:stuck", &format!("{stuck} writer(s) never finished"));
        }
    }
    fn teardown(&self, s: StW) {
        let StW { h, handles, .. } = s;
        drop(h);
        for t in handles {
            let _ = t.join();
        }
    }
}

fn outcome(r: &RunResult) -> String {
    let order: Vec<String> = r.trace.iter().filter(|t| t.contains("atomic")).map(|t| t.split(':').next().unwrap_or("").to_string()).collect();
    format!("{}|v{}", order.join(","), r.violations.len())
}

fn schedules(rep: &mut Report, thorough: bool) {
    let mut scs = vec![ScW { writers: 2, marks: 1 }, ScW { writers: 2, marks: 2 }, ScW { writers: 3, marks: 1 }];
    if thorough {
        scs.extend([ScW { writers: 3, marks: 2 }, ScW { writers: 4, marks: 1 }, ScW { writers: 5, marks: 1 }, ScW { writers: 6, marks: 1 }]);
    }
    for sc in scs {
        // unbounded for these tiny bodies: the bound exceeds the number of scheduling points
        let st = explore(&sc, if thorough { 12 } else { 8 }, 200, if thorough { 300.0 } else { 8.0 }, rep, "C15", &outcome);
        rep.states += st.states;
        rep.traces += st.schedules;
        rep.extra.insert(format!("schedules_{}", sc.name()), json!({"schedules": st.schedules, "by_preemptions": st.by_preemptions, "capped": st.capped, "distinct_orders": st.outcomes.len()}));
    }
}

pub fn run(rep: &mut Report) {
    let thorough = rep.is_thorough();
    inputs(rep, thorough);
    histories(rep, if thorough { 5 } else { 4 });
    schedules(rep, thorough);
    let p = take_panics();
    if !p.is_empty() {
        rep.violation("C15:panic", &format!("library thread panicked: {:?}", p), json!({"check":"C15","panics":p}));
    }
    rep.exhaustive = rep.caps.is_empty();
    rep.sample(json!({"layout":"two-regions-sharing-a-log-byte","write":{"gpa":"0x4fff","len":2},"expect_log_byte0":"0b00110000"}));
    rep.sample(json!({"history":["TableA","LogBase","AddB","WriteB"],"expect":"bit of page 5 set (logging stays in force for memory added later)"}));
    rep.sample(json!({"schedule":"2 writers x 1 mark","expect":"byte 0 == OR of both bits in every interleaving of the atomic accesses"}));
    rep.rule = "inputs: 8 region layouts (1-4 regions sharing log bytes, adjacent, crossing a log-byte boundary, three unaligned ones) x log window at file offset 4096 / 8192 between guard pages x log sizes {needed-1, needed, needed+1, 4096} x writes (offset, len) over {0,1,4095,4096,4097,8191,8192,8193,end-4097,end-4096,end-2,end-1} x {0,1,2,4095,4096,4097,8191,8192,8193,size,to-end} through GuestMemory::write_slice, writes that start in an already dirty page, one write spanning two regions and one used-ring update; histories: all sequences of length <= 4 (5 at thorough) over {SET_LOG_BASE, SET_LOG_BASE with a one-byte log (enough for region A, too small for region B: must be rejected and leave the log in force untouched), table A, table A+B, ADD B, REM B, write A, write B} ending in a write after a SET_LOG_BASE, plus all such sequences one step longer that start from the two-region table (the state in which a SET_LOG_BASE can be rejected: accepted log, rejected log, reconnect, table change, write); schedules: N writers marking distinct bits of the same log byte, every interleaving of the atomic accesses (N=2,3; up to 6 at thorough). Oracle: log window == independent page-set bitmap (LSB first), guard bytes untouched, rejection iff unaligned region or log too small, final byte == OR of all writers' bits. Non-trivial = writes / set-ups / schedules whose log content was compared".into();
    rep.assumptions.push("the atomic accesses of the bitmap go through the verif-hooks AtomicU8 wrapper, which makes each of them a scheduling point; sequentially consistent scheduler (Relaxed ordering is irrelevant for a single RMW)".into());
}

pub fn replay(case: &Value, rep: &mut Report) {
    println!("replay C15 by re-running the quick enumeration; case: {case}");
    run(rep);
}

#[allow(dead_code)]
fn _unused(_: Arc<()>) {}
