//! C11: vring state follows the protocol: kicks are dispatched iff started and enabled.
//! Engine E1 on a real `VhostUserDaemon` (Mutex- and RwLock-backed rings, one and two workers),
//! driven over its socket with acknowledged messages; a per-worker probe listener is the
//! ordering barrier, so "no dispatch" is observed without sleeping.

use crate::daemonh::*;
use crate::rawpeer::{eventfd, eventfd_count};
use crate::report::Report;
use crate::spec::*;
use crate::xstate::bfs;
use serde_json::{json, Value};
use std::os::unix::io::{AsRawFd, OwnedFd};
use vhost_user_backend::bitmap::BitmapReplace;
use vhost_user_backend::{VringMutex, VringRwLock, VringT};
use vm_memory::bitmap::Bitmap;
use vm_memory::mmap::NewBitmap;

#[derive(Clone, Debug, PartialEq)]
pub enum Op {
    FeaturesPf,
    FeaturesNoPf,
    KickNew(usize),
    KickNone(usize),
    Call(usize),
    Enable(usize, bool),
    GetBase(usize),
    Reset,
    Kick(usize),
}

pub fn alphabet() -> Vec<Op> {
    let mut v = vec![Op::FeaturesPf, Op::FeaturesNoPf, Op::Reset];
    for r in 0..2 {
        v.extend([Op::KickNew(r), Op::KickNone(r), Op::Call(r), Op::Enable(r, true), Op::Enable(r, false), Op::GetBase(r), Op::Kick(r)]);
    }
    v
}

#[derive(Clone, Debug, Default, PartialEq)]
pub struct Ring {
    started: bool,
    enabled: bool,
    has_fd: bool,
    pending: u64,
}

#[derive(Clone, Debug, Default, PartialEq)]
pub struct Model {
    rings: [Ring; 2],
    pf: bool,
}

pub struct Sys<V, B>
where
    V: VringT<GM<B>> + Clone + Send + Sync + 'static,
    B: Bitmap + BitmapReplace + NewBitmap + Clone + Send + Sync + 'static,
{
    h: DaemonH<V, B>,
    m: Model,
    kick: [Option<OwnedFd>; 2],
    broken: Option<String>,
}

const VIRTIO: u64 = VIRTIO_F_PROTOCOL_FEATURES | 0x3;

fn fresh<V, B>(masks: &[u64]) -> Sys<V, B>
where
    V: VringT<GM<B>> + Clone + Send + Sync + 'static,
    B: Bitmap + BitmapReplace + NewBitmap + Clone + Send + Sync + 'static,
{
    let cfg = Cfg { masks: masks.to_vec(), ..Default::default() };
    let mut h = DaemonH::<V, B>::new(cfg);
    // protocol features first (REPLY_ACK makes every later message synchronous); the virtio
    // feature word is deliberately not acknowledged yet: rings start disabled
    let mut broken = None;
    (|| -> Result<(), String> {
        match h.req(GET_FEATURES, &[], &[]) {
            ReqOut::Msg(..) => {}
            o => return Err(format!("{o:?}")),
        }
        match h.req(GET_PROTOCOL_FEATURES, &[], &[]) {
            ReqOut::Msg(..) => {}
            o => return Err(format!("{o:?}")),
        }
        match h.req(SET_PROTOCOL_FEATURES, &p_u64(PF_REPLY_ACK | PF_RESET_DEVICE | PF_MQ), &[]) {
            ReqOut::Msg(..) => {}
            o => return Err(format!("{o:?}")),
        }
        h.reply_ack = true;
        Ok(())
    })()
    .unwrap_or_else(|e| broken = Some(e));
    Sys { h, m: Model::default(), kick: [None, None], broken }
}

fn applicable(m: &Model, op: &Op, have_fd: &[bool; 2]) -> bool {
    match op {
        Op::Enable(..) => m.pf,
        Op::Kick(r) => have_fd[*r] && m.rings[*r].has_fd,
        _ => true,
    }
}

fn worker_of(masks: &[u64], r: usize) -> usize {
    masks.iter().position(|m| m >> r & 1 == 1).unwrap_or(0)
}

fn event_of(masks: &[u64], r: usize) -> u16 {
    let m = masks[worker_of(masks, r)];
    (m & ((1u64 << r) - 1)).count_ones() as u16
}

fn step<V, B>(sys: &mut Sys<V, B>, op: &Op, hist: &[usize], check: bool, rep: &mut Report, masks: &[u64], ops: &[Op], cfgname: &str) -> String
where
    V: VringT<GM<B>> + Clone + Send + Sync + 'static,
    B: Bitmap + BitmapReplace + NewBitmap + Clone + Send + Sync + 'static,
{
    if let Some(b) = &sys.broken {
        return format!("broken:{b}");
    }
    let have = [sys.kick[0].is_some(), sys.kick[1].is_some()];
    if !applicable(&sys.m, op, &have) {
        return "n/a".into();
    }
    sys.h.be.take_dispatches();
    let case = |sys: &Sys<V, B>| json!({"check":"C11","config":cfgname,"history": hist.iter().map(|i| format!("{:?}", ops[*i])).collect::<Vec<_>>(), "op": format!("{op:?}"), "model": format!("{:?}", sys.m)});
    // ---- apply to the implementation ----
    let mut base_reply: Option<u32> = None;
    let res: Result<bool, String> = match op {
        Op::FeaturesPf => sys.h.ack(SET_FEATURES, &p_u64(VIRTIO), &[]),
        Op::FeaturesNoPf => sys.h.ack(SET_FEATURES, &p_u64(0x3), &[]),
        Op::KickNew(r) => {
            let fd = eventfd(0, true);
            let raw = fd.as_raw_fd();
            let out = sys.h.ack(SET_VRING_KICK, &p_u64(*r as u64), &[raw]);
            sys.kick[*r] = Some(fd);
            out
        }
        Op::KickNone(r) => {
            let out = sys.h.ack(SET_VRING_KICK, &p_u64(*r as u64 | 0x100), &[]);
            sys.kick[*r] = None;
            out
        }
        Op::Call(r) => {
            let fd = eventfd(0, true);
            sys.h.ack(SET_VRING_CALL, &p_u64(*r as u64), &[fd.as_raw_fd()])
        }
        Op::Enable(r, on) => sys.h.ack(SET_VRING_ENABLE, &p_vring_state(*r as u32, *on as u32), &[]),
        Op::GetBase(r) => match sys.h.req(GET_VRING_BASE, &p_vring_state(*r as u32, 0), &[]) {
            ReqOut::Msg(d, _) => {
                if d.size == 8 {
                    base_reply = Some(rd32(&d.payload, 4));
                }
                Ok(true)
            }
            o => Err(format!("{o:?}")),
        },
        Op::Reset => sys.h.ack(RESET_DEVICE, &[], &[]),
        Op::Kick(r) => {
            let one: u64 = 1;
            // SAFETY: write to our own eventfd.
            unsafe { libc::write(sys.kick[*r].as_ref().unwrap().as_raw_fd(), &one as *const u64 as *const libc::c_void, 8) };
            Ok(true)
        }
    };
    // ---- reference model ----
    let m = &mut sys.m;
    match op {
        Op::FeaturesPf => m.pf = true,
        Op::FeaturesNoPf => {
            m.pf = false;
            for r in m.rings.iter_mut() {
                r.enabled = true;
            }
        }
        Op::KickNew(r) => {
            m.rings[*r].started = true;
            m.rings[*r].has_fd = true;
            m.rings[*r].pending = 0;
        }
        Op::KickNone(r) => {
            m.rings[*r].has_fd = false;
            m.rings[*r].pending = 0;
        }
        Op::Call(_) => {}
        Op::Enable(r, on) => m.rings[*r].enabled = *on,
        Op::GetBase(r) => {
            m.rings[*r].started = false;
            m.rings[*r].has_fd = false;
            m.rings[*r].pending = 0;
        }
        Op::Reset => {
            m.pf = false;
            for r in m.rings.iter_mut() {
                r.enabled = false;
            }
        }
        Op::Kick(r) => m.rings[*r].pending += 1,
    }
    // ---- barrier, observation ----
    let snaps = match res {
        Err(e) => {
            sys.broken = Some(e.clone());
            if check {
                rep.evaluations += 1;
                rep.violation(&format!("C11:{cfgname}:control-message-failed:{}", format!("{op:?}").split('(').next().unwrap_or("")), &format!("{op:?} was not answered: {e} (panics: {:?})", take_panics()), case(sys));
            }
            return format!("failed:{e}");
        }
        Ok(_) => sys.h.probe_all(),
    };
    let snaps = match snaps {
        Ok(s) => s,
        Err(e) => {
            sys.broken = Some(e.clone());
            if check {
                rep.evaluations += 1;
                rep.violation(&format!("C11:{cfgname}:worker-stuck-or-dead"), &e, case(sys));
            }
            return format!("worker:{e}");
        }
    };
    let disp = sys.h.be.take_dispatches();
    let mut per_ring = [0u64; 2];
    let mut stray = 0;
    for d in &disp {
        let mut hit = false;
        for r in 0..2 {
            if d.thread == worker_of(masks, r) && d.event == event_of(masks, r) {
                per_ring[r] += 1;
                hit = true;
            }
        }
        if !hit {
            stray += 1;
        }
    }
    // expected dispatches
    let mut expect = [false; 2];
    for r in 0..2 {
        let ring = &mut sys.m.rings[r];
        let active = ring.started && ring.enabled && ring.has_fd;
        if active && ring.pending > 0 {
            expect[r] = true;
        }
    }
    let mut digest = String::new();
    for r in 0..2 {
        let ring = sys.m.rings[r].clone();
        let pend_before = ring.pending;
        let active = ring.started && ring.enabled && ring.has_fd;
        if check {
            rep.evaluations += 1;
            if expect[r] {
                if per_ring[r] == 0 {
                    rep.outcome("kick-not-dispatched");
                    let counter = sys.kick[r].as_ref().and_then(|f| eventfd_count(f.as_raw_fd()));
                    rep.violation(
                        &format!("C11:{cfgname}:kick-not-dispatched:after-{}", format!("{op:?}").split('(').next().unwrap_or("")),
                        &format!("ring {r} is started and enabled with {pend_before} kick(s) raised on its current descriptor, but the handler was not called (eventfd counter now {counter:?}; epoll set {:?})", sys.h.epoll_regs(worker_of(masks, r))),
                        case(sys),
                    );
                } else if per_ring[r] > pend_before {
                    // more handler calls than kicks on an active ring: the statement does not forbid
                    // it (a handler call without work is harmless); recorded, not reported
                    rep.outcome("kick-dispatched-more-often-than-kicked(info)");
                    rep.nontrivial += 1;
                } else {
                    rep.outcome("kick-dispatched");
                    rep.nontrivial += 1;
                }
            } else if per_ring[r] > 0 {
                rep.outcome("dispatch-while-inactive");
                rep.violation(
                    &format!("C11:{cfgname}:dispatch-while-inactive:after-{}", format!("{op:?}").split('(').next().unwrap_or("")),
                    &format!("ring {r} (started={}, enabled={}, descriptor={}, pending={pend_before}) got {} dispatch(es)", ring.started, ring.enabled, ring.has_fd, per_ring[r]),
                    case(sys),
                );
            } else if !active && pend_before > 0 {
                // retained: the kick must still be pending in the current descriptor
                let counter = sys.kick[r].as_ref().and_then(|f| eventfd_count(f.as_raw_fd()));
                if ring.has_fd && counter == Some(0) {
                    rep.outcome("kick-consumed-while-inactive");
                    rep.violation(&format!("C11:{cfgname}:kick-consumed-while-inactive"), &format!("ring {r} inactive with {pend_before} kick(s) raised, but the descriptor's counter is 0: the wake-up was consumed without being processed"), case(sys));
                } else {
                    rep.outcome("kick-retained");
                    rep.nontrivial += 1;
                }
            } else {
                rep.outcome("quiet");
            }
        }
        if expect[r] && per_ring[r] > 0 {
            sys.m.rings[r].pending = 0;
        }
        digest.push_str(&format!("r{r}:{}:{};", per_ring[r].min(1), sys.m.rings[r].pending.min(1)));
    }
    if check {
        if stray > 0 {
            rep.violation(&format!("C11:{cfgname}:stray-dispatch"), &format!("{stray} dispatch(es) with (thread, event) belonging to no ring: {:?}", disp), case(sys));
        }
        if let (Op::GetBase(r), Some(v)) = (op, base_reply) {
            // nothing was processed: next-available index is the initial 0; descriptors dropped
            let w = worker_of(masks, *r);
            let q = &snaps[w][event_of(masks, *r) as usize];
            if v != 0 || q.has_kick || q.has_call || q.ready {
                rep.violation(&format!("C11:{cfgname}:get_vring_base"), &format!("GET_VRING_BASE returned {v}, ring afterwards: ready={} kick={} call={}", q.ready, q.has_kick, q.has_call), case(sys));
            }
        }
        // the worker's epoll set holds exactly the kick descriptors of active rings
        for (w, mask) in masks.iter().enumerate() {
            let regs = sys.h.epoll_regs(w);
            let want: Vec<u64> = (0..2).filter(|r| mask >> r & 1 == 1 && sys.m.rings[*r].started && sys.m.rings[*r].enabled && sys.m.rings[*r].has_fd).map(|r| event_of(masks, r) as u64).collect();
            let got: Vec<u64> = regs.iter().map(|(d, _)| *d).filter(|d| *d < 2).collect();
            let mut want_s = want.clone();
            want_s.sort();
            let mut got_s = got.clone();
            got_s.sort();
            got_s.dedup();
            rep.transitions += 1;
            if want_s != got_s {
                // Not a violation by itself: the statement is about dispatches. The registration set is
                // part of the deduplication key, so a state with a deviating set is a state of its own and
                // every operation (including kicks) is still tried from it; a deviation that matters shows
                // up there as a missing or forbidden dispatch.
                rep.outcome("epoll-set-differs-from-active-rings(info)");
                let n = rep.extra.get("epoll_set_deviations").and_then(|v| v.as_u64()).unwrap_or(0);
                rep.extra.insert("epoll_set_deviations".into(), serde_json::json!(n + 1));
                let _ = (w, &got, &want);
            }
        }
    }
    let impl_state: Vec<String> = snaps.iter().flat_map(|s| s.iter().map(|q| format!("{}{}{}", q.ready as u8, q.enabled as u8, q.has_kick as u8))).collect();
    format!("{digest}|{}", impl_state.join(","))
}

fn key<V, B>(sys: &Sys<V, B>) -> String
where
    V: VringT<GM<B>> + Clone + Send + Sync + 'static,
    B: Bitmap + BitmapReplace + NewBitmap + Clone + Send + Sync + 'static,
{
    if let Some(b) = &sys.broken {
        return format!("broken:{b}");
    }
    let m = &sys.m;
    let model = format!("{}|{}", m.pf, m.rings.iter().map(|r| format!("{}{}{}{}", r.started as u8, r.enabled as u8, r.has_fd as u8, (r.pending > 0) as u8)).collect::<Vec<_>>().join(","));
    // implementation state: ring flags via the probe snapshot + epoll registrations
    let snaps = sys.h.probe_all().unwrap_or_default();
    let imp: Vec<String> = snaps.iter().flat_map(|s| s.iter().map(|q| format!("{}{}{}{}", q.ready as u8, q.enabled as u8, q.has_kick as u8, q.has_call as u8))).collect();
    let regs: Vec<String> = (0..sys.h.workers()).map(|w| format!("{:?}", sys.h.epoll_regs(w).iter().map(|(d, _)| *d).collect::<Vec<_>>())).collect();
    format!("{model}#{}#{}", imp.join(","), regs.join(";"))
}

fn explore<V, B>(rep: &mut Report, masks: &[u64], cfgname: &str, depth: usize, budget: f64)
where
    V: VringT<GM<B>> + Clone + Send + Sync + 'static,
    B: Bitmap + BitmapReplace + NewBitmap + Clone + Send + Sync + 'static,
{
    let ops = alphabet();
    let freshf = || fresh::<V, B>(masks);
    let stepf = |s: &mut Sys<V, B>, oi: usize, hist: &[usize], check: bool, rep: &mut Report| step(s, &ops[oi], hist, check, rep, masks, &ops, cfgname);
    let keyf = |s: &Sys<V, B>| key(s);
    let st = bfs(ops.len(), &freshf, &stepf, &keyf, depth, budget, true, rep);
    rep.states += st.states;
    rep.traces += st.transitions;
    rep.extra.insert(format!("config_{cfgname}"), json!({"states": st.states, "transitions": st.transitions, "depth_completed": st.depth_completed, "closure": st.closed, "capped": st.capped}));
    if !st.closed {
        rep.exhaustive = false;
    }
}

pub fn run(rep: &mut Report) {
    let thorough = rep.is_thorough();
    rep.exhaustive = true;
    if thorough {
        explore::<VringRwLock, ()>(rep, &[0b11], "rwlock-1worker", 12, 400.0);
        explore::<VringMutex, ()>(rep, &[0b11], "mutex-1worker", 12, 400.0);
        explore::<VringRwLock, ()>(rep, &[0b01, 0b10], "rwlock-2workers", 12, 300.0);
        explore::<VringMutex, ()>(rep, &[0b10, 0b01], "mutex-2workers-swapped", 12, 300.0);
    } else {
        explore::<VringRwLock, ()>(rep, &[0b11], "rwlock-1worker", 12, 30.0);
        explore::<VringMutex, ()>(rep, &[0b01, 0b10], "mutex-2workers", 4, 14.0);
    }
    let p = take_panics();
    if !p.is_empty() {
        rep.violation("C11:panic", &format!("library thread panicked: {:?}", p), json!({"check":"C11","panics":p}));
    }
    rep.sample(json!({"history":["FeaturesNoPf","KickNew(0)","Kick(0)"],"expect":"one dispatch of ring 0"}));
    rep.sample(json!({"history":["KickNew(0)","Kick(0)","FeaturesNoPf"],"expect":"the retained kick is dispatched by the step that enables the ring"}));
    rep.sample(json!({"alphabet": alphabet().iter().map(|o| format!("{o:?}")).collect::<Vec<_>>()}));
    rep.rule = "BFS over control-message histories on 2 rings: {SET_FEATURES with/without PROTOCOL_FEATURES, SET_VRING_KICK new descriptor / no descriptor, SET_VRING_CALL, SET_VRING_ENABLE 0/1, GET_VRING_BASE, RESET_DEVICE, guest kick on the current descriptor} against a real daemon (RwLock and Mutex rings, one worker and two workers); every message is acknowledged, a per-worker probe listener is the barrier after each step. State key = model (per ring started/enabled/descriptor/kick pending, PF) + implementation (ready/enabled/kick/call flags per ring, epoll registrations). Non-trivial = steps after which a pending kick had to be dispatched or had to stay retained".into();
    rep.assumptions.push("steps the protocol forbids in the current state (SET_VRING_ENABLE without acknowledged PROTOCOL_FEATURES) are not part of the alphabet in that state".into());
    rep.assumptions.push("barrier = two consecutive probe events on the worker: a kick that was ready before the first probe is reported in the same epoll batch at the latest, and the whole batch is handled before the second probe".into());
}

pub fn replay(case: &Value, rep: &mut Report) {
    let ops = alphabet();
    let cfg = case["config"].as_str().unwrap_or("rwlock-1worker").to_string();
    let hist: Vec<usize> = case["history"].as_array().map(|a| a.iter().filter_map(|x| ops.iter().position(|o| Some(format!("{o:?}")) == x.as_str().map(|s| s.to_string()))).collect()).unwrap_or_default();
    let last = ops.iter().position(|o| Some(format!("{o:?}")) == case["op"].as_str().map(|s| s.to_string()));
    fn go<V, B>(masks: &[u64], cfg: &str, hist: &[usize], last: Option<usize>, ops: &[Op], rep: &mut Report)
    where
        V: VringT<GM<B>> + Clone + Send + Sync + 'static,
        B: Bitmap + BitmapReplace + NewBitmap + Clone + Send + Sync + 'static,
    {
        let mut s = fresh::<V, B>(masks);
        for (i, h) in hist.iter().enumerate() {
            let o = step(&mut s, &ops[*h], &hist[..i], false, rep, masks, ops, cfg);
            println!("  {:?} -> {o}", ops[*h]);
        }
        if let Some(l) = last {
            let o = step(&mut s, &ops[l], hist, true, rep, masks, ops, cfg);
            println!("  {:?} -> {o}", ops[l]);
        }
    }
    match cfg.as_str() {
        "mutex-1worker" => go::<VringMutex, ()>(&[0b11], &cfg, &hist, last, &ops, rep),
        "rwlock-2workers" => go::<VringRwLock, ()>(&[0b01, 0b10], &cfg, &hist, last, &ops, rep),
        "mutex-2workers" => go::<VringMutex, ()>(&[0b01, 0b10], &cfg, &hist, last, &ops, rep),
        "mutex-2workers-swapped" => go::<VringMutex, ()>(&[0b10, 0b01], &cfg, &hist, last, &ops, rep),
        _ => go::<VringRwLock, ()>(&[0b11], &cfg, &hist, last, &ops, rep),
    }
}
