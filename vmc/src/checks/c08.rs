//! C08: message framing is independent of stream segmentation; truncation is an error.
//! Engine E3 (fault enumeration): every 2-/3-split and byte-by-byte delivery to every receiver,
//! every cut offset followed by close, every 1-/2-short-write and EAGAIN/EINTR pattern on every
//! sender, via the sysshim pumps / send scripts.

use crate::feops::*;
use crate::feraw::*;
use crate::pxops::*;
use crate::recorder::{Call, FrRecorder, Recorder, Script};
use crate::report::Report;
use crate::spec::*;
use crate::sysshim::{coop, SendStep};
use crate::wirereq::*;
use serde_json::{json, Value};
use std::os::unix::io::{AsRawFd, FromRawFd, RawFd};
use std::os::unix::net::UnixStream;
use std::sync::{Arc, Mutex};
use vhost::vhost_user::message::VhostUserHeaderFlag;
use vhost::vhost_user::{Backend, FrontendReqHandler, GpuBackend};

fn splits2(len: usize, pos: &[usize]) -> Vec<Vec<usize>> {
    pos.iter().filter(|c| **c > 0 && **c < len).map(|c| vec![*c]).collect()
}

fn splits3(len: usize, pos: &[usize]) -> Vec<Vec<usize>> {
    let p: Vec<usize> = pos.iter().cloned().filter(|c| *c > 0 && *c < len).collect();
    let mut out = Vec::new();
    for i in 0..p.len() {
        for j in i + 1..p.len() {
            out.push(vec![p[i], p[j]]);
        }
    }
    out
}

/// All 4-splits (three cuts) over the given positions.
fn splits4(len: usize, pos: &[usize]) -> Vec<Vec<usize>> {
    let p: Vec<usize> = pos.iter().cloned().filter(|c| *c > 0 && *c < len).collect();
    let mut out = Vec::new();
    for i in 0..p.len() {
        for j in i + 1..p.len() {
            for k in j + 1..p.len() {
                out.push(vec![p[i], p[j], p[k]]);
            }
        }
    }
    out
}

/// Cut positions for a message of `len` bytes with structural boundaries `bounds`:
/// every position for short messages, a neighbourhood of each boundary plus a stride otherwise.
fn positions(len: usize, bounds: &[usize], radius: usize, full_below: usize) -> Vec<usize> {
    if len <= full_below {
        return (1..len).collect();
    }
    let mut v = std::collections::BTreeSet::new();
    for b in bounds.iter().chain([0usize, len].iter()) {
        for d in 0..=radius {
            if *b >= d && *b - d > 0 && *b - d < len {
                v.insert(*b - d);
            }
            if *b + d > 0 && *b + d < len {
                v.insert(*b + d);
            }
        }
    }
    let mut p = 61;
    while p < len {
        v.insert(p);
        p += 61;
    }
    v.into_iter().collect()
}

fn region_of(cut: usize, hdr: usize, body_end: usize) -> &'static str {
    if cut < hdr {
        "inside-header"
    } else if cut == hdr {
        "at-header-end"
    } else if cut < body_end {
        "inside-body"
    } else if cut == body_end {
        "at-body-end"
    } else {
        "inside-payload"
    }
}

fn err_class(e: &str) -> String {
    e.split(|c: char| !c.is_alphanumeric() && c != '_').next().unwrap_or("").to_string()
}

// ------------------------------------------------------------------------------------------------
// receivers: backend request server

#[derive(Debug, PartialEq, Clone)]
struct SrvObs {
    result: String,
    log: Vec<Call>,
    reply: Vec<u8>,
    reply_fds: usize,
    hang: bool,
}

fn srv_recorder(res: &Resources) -> Recorder {
    let mut rec = Recorder::new();
    rec.script.features = VIRTIO_F_PROTOCOL_FEATURES | 0x3;
    rec.script.proto = PF_ALL_DEFINED;
    rec.script.shmem = (2, vec![0x1000, 0x2000]);
    rec.ret_file = Some(res.ret.try_clone().unwrap());
    rec
}

fn srv_run(req: &WireReq, cuts: Option<&[usize]>, trunc: Option<usize>, res: &Resources) -> SrvObs {
    let s = RawSession::new(srv_recorder(res));
    if !s.negotiate(VIRTIO_F_PROTOCOL_FEATURES | 0x3, PF_ALL_DEFINED) {
        eprintln!("MACHINERY FAILURE: raw negotiation failed");
        std::process::exit(2);
    }
    let _ = coop::take_hangs();
    let bytes = req.bytes(F_VERSION | F_NEED_REPLY);
    let fds = req.raw_fds(res);
    match trunc {
        Some(cut) => {
            if cut > 0 {
                s.queue_segments(&bytes[..cut], &fds, &[]);
            }
            s.eof_when_empty.set(true);
        }
        None => s.queue_segments(&bytes, &fds, cuts.unwrap_or(&[])),
    }
    let r = s.server.serve_one();
    let hang = coop::take_hangs().contains(&s.server.fd);
    let got = s.recv();
    let log = s.server.rec.lock().unwrap().log.clone();
    SrvObs { result: match r { Ok(()) => "Ok".into(), Err(e) => err_class(&e) }, log, reply: got.bytes.clone(), reply_fds: got.nfds(), hang }
}

fn recv_server(rep: &mut Report, res: &Resources, thorough: bool) {
    let mut types = 0;
    for req in wellformed() {
        let bytes = req.bytes(F_VERSION | F_NEED_REPLY);
        let len = bytes.len();
        let reference = srv_run(&req, None, None, res);
        types += 1;
        rep.evaluations += 1;
        if reference.hang {
            rep.violation(&format!("C08:recv:backend_server:{}:unsplit-hang", frontend_req_name(req.code)), "server waits for more than the declared size on an unsplit message", json!({"check":"C08","part":"recv_server","req":req.name()}));
            continue;
        }
        let body_end = len;
        let pos = positions(len, &[12], if thorough { 24 } else { 8 }, if thorough { 80 } else { 56 });
        // thorough: every single cut position of every message, every 3-split of messages up to
        // 80 bytes, every 4-split of messages up to 36 bytes (and around the header boundary of longer ones)
        let all: Vec<usize> = (1..len).collect();
        let mut plans: Vec<Vec<usize>> = splits2(len, if thorough { &all } else { &pos });
        if len > 1 {
            plans.push((1..len).collect()); // byte by byte
        }
        if thorough {
            plans.extend(splits4(len, &if len <= 36 { all.clone() } else { positions(len, &[12], 3, 0).into_iter().filter(|c| *c % 61 != 0 || *c <= 16).collect::<Vec<_>>() }));
        }
        if thorough || len <= 24 {
            plans.extend(splits3(len, &pos));
        } else {
            let few: Vec<usize> = [1, 11, 12, 13, len / 2, len - 1].iter().cloned().filter(|c| *c > 0 && *c < len).collect();
            plans.extend(splits3(len, &few));
        }
        for cuts in plans {
            let obs = srv_run(&req, Some(&cuts), None, res);
            rep.evaluations += 1;
            rep.transitions += cuts.len() as u64 + 1;
            if obs == reference {
                rep.outcome("recv:reassembled");
                if cuts.iter().any(|c| *c > 12) {
                    rep.nontrivial += 1;
                }
                continue;
            }
            // classify by the first cut that is not at a boundary the receiver handles
            let worst = cuts.iter().map(|c| region_of(*c, 12, body_end)).find(|r| *r == "inside-body").unwrap_or_else(|| region_of(cuts[0], 12, body_end));
            rep.outcome(&format!("recv:differs:{worst}"));
            let sig = format!("C08:recv:backend_server:{worst}");
            rep.violation(
                &sig,
                &format!("{} ({} bytes) split at {:?}: result {} (unsplit: {}), handler calls {} (unsplit: {}), hang={}", req.name(), len, &cuts[..cuts.len().min(6)], obs.result, reference.result, obs.log.len(), reference.log.len(), obs.hang),
                json!({"check":"C08","part":"recv_server","req":req.name(),"cuts":cuts}),
            );
        }
        // truncation: every cut offset inside the message, then close
        for cut in 0..len {
            if !thorough && len > 80 && !(cut < 40 || cut > len - 16 || cut % 61 == 0) {
                continue;
            }
            let obs = srv_run(&req, None, Some(cut), res);
            rep.evaluations += 1;
            rep.transitions += 1;
            let mut bad = Vec::new();
            if obs.result == "Ok" {
                bad.push("no-error");
            }
            if obs.result == "Disconnected" && cut != 0 {
                bad.push("clean-disconnect-inside-message");
            }
            if cut == 0 && obs.result != "Disconnected" {
                // a clean disconnect at a message boundary is what the statement expects
                bad.push("boundary-close-not-reported-as-disconnect");
            }
            if !obs.log.is_empty() {
                bad.push("partial-request-dispatched");
            }
            if obs.hang {
                bad.push("blocks-forever");
            }
            rep.outcome(&format!("trunc:{}", obs.result));
            if bad.is_empty() {
                rep.nontrivial += 1;
            }
            for b in bad {
                rep.violation(
                    &format!("C08:trunc:backend_server:{b}"),
                    &format!("{} cut at {cut}/{len} then close: result {}, handler calls {}", req.name(), obs.result, obs.log.len()),
                    json!({"check":"C08","part":"trunc_server","req":req.name(),"cut":cut}),
                );
            }
        }
    }
    rep.extra.insert("server_request_types".into(), json!(types));
}

// ------------------------------------------------------------------------------------------------
// receivers: frontend reply paths

fn fe_ops() -> Vec<FeOp> {
    let mut v = all_ops_basic();
    v.push(FeOp::SetProtocolFeatures(PF_ALL_DEFINED));
    v.push(FeOp::GetConfig(0, 256, 0));
    v
}

fn fe_run(op: &FeOp, cuts: Option<&[usize]>, trunc: Option<usize>, res: &Resources, script: &Script) -> (Result<FeRet, String>, bool, usize) {
    let mut f = FeRaw::new(2);
    if let Err(e) = f.negotiate(VIRTIO_F_PROTOCOL_FEATURES | 0x3, PF_ALL_DEFINED, PF_ALL_DEFINED) {
        eprintln!("MACHINERY FAILURE: scripted negotiation failed: {e}");
        std::process::exit(2);
    }
    f.fe.set_hdr_flags(VhostUserHeaderFlag::NEED_REPLY);
    let _ = coop::take_hangs();
    let (bytes, fds) = correct_reply(op, script, res);
    match trunc {
        Some(cut) => {
            if cut > 0 {
                f.raw.queue(&bytes[..cut], &fds, &[]);
            }
            f.raw.eof_when_empty.set(true);
        }
        None => f.raw.queue(&bytes, &fds, cuts.unwrap_or(&[])),
    }
    let r = invoke(&mut f.fe, op, res);
    let hang = coop::take_hangs().contains(&f.raw.ep_fd);
    (r, hang, bytes.len())
}

fn recv_frontend(rep: &mut Report, res: &Resources, thorough: bool) {
    let script = Script { shmem: (2, vec![0x1000, 0x2000]), ..Default::default() };
    for op in fe_ops() {
        let expected = op.expected_ret(&script, res);
        let (r0, h0, len) = fe_run(&op, None, None, res, &script);
        rep.evaluations += 1;
        if h0 || r0.as_ref().ok() != Some(&expected) {
            rep.violation(&format!("C08:recv:frontend:{}:unsplit", op.name()), &format!("{:?}: correct unsplit reply not accepted: {:?} hang={h0}", op, r0), json!({"check":"C08","part":"recv_frontend","op":format!("{op:?}")}));
            continue;
        }
        let body = 12 + match op {
            FeOp::GetConfig(..) => 12,
            _ => len - 12,
        };
        let pos = positions(len, &[12, body], if thorough { 24 } else { 6 }, if thorough { 80 } else { 48 });
        let all: Vec<usize> = (1..len).collect();
        let mut plans = splits2(len, if thorough { &all } else { &pos });
        plans.push((1..len).collect());
        if thorough {
            plans.extend(splits4(len, &if len <= 36 { all.clone() } else { positions(len, &[12, body], 2, 0).into_iter().filter(|c| *c % 61 != 0 || *c <= 16).collect::<Vec<_>>() }));
        }
        if thorough || len <= 24 {
            plans.extend(splits3(len, &pos));
        } else {
            let few: Vec<usize> = [1, 12, 13, len - 1].iter().cloned().filter(|c| *c > 0 && *c < len).collect();
            plans.extend(splits3(len, &few));
        }
        for cuts in plans {
            if cuts.is_empty() {
                continue;
            }
            let (r, hang, _) = fe_run(&op, Some(&cuts), None, res, &script);
            rep.evaluations += 1;
            rep.transitions += cuts.len() as u64 + 1;
            if !hang && r.as_ref().ok() == Some(&expected) {
                rep.outcome("recv:reassembled");
                rep.nontrivial += 1;
            } else {
                let w = region_of(cuts[0], 12, body);
                rep.outcome(&format!("recv:differs:{w}"));
                rep.violation(&format!("C08:recv:frontend:{}:{w}", op.name()), &format!("{:?}: reply split at {:?}: {:?} hang={hang}", op, &cuts[..cuts.len().min(6)], r), json!({"check":"C08","part":"recv_frontend","op":format!("{op:?}"),"cuts":cuts}));
            }
        }
        for cut in 0..len {
            if !thorough && len > 64 && !(cut < 30 || cut > len - 8 || cut % 61 == 0) {
                continue;
            }
            let (r, hang, _) = fe_run(&op, None, Some(cut), res, &script);
            rep.evaluations += 1;
            rep.transitions += 1;
            if r.is_ok() || hang {
                rep.violation(&format!("C08:trunc:frontend:{}", if hang { "blocks-forever" } else { "no-error" }), &format!("{:?}: reply cut at {cut}/{len} then close: {:?} hang={hang}", op, r), json!({"check":"C08","part":"trunc_frontend","op":format!("{op:?}"),"cut":cut}));
            } else {
                rep.outcome(&format!("trunc:{}", err_class(r.as_ref().err().unwrap())));
                rep.nontrivial += 1;
            }
        }
    }
}

// ------------------------------------------------------------------------------------------------
// receivers: frontend's server for backend-initiated requests, and the proxies' ack paths

struct FrSrv {
    h: FrontendReqHandler<Mutex<FrRecorder>>,
    rec: Arc<Mutex<FrRecorder>>,
    raw: RawScript,
}

fn fr_server() -> FrSrv {
    let rec = Arc::new(Mutex::new(FrRecorder::default()));
    let mut h = FrontendReqHandler::new(rec.clone()).unwrap();
    h.set_reply_ack_flag(true);
    // SAFETY: dup of the tx descriptor; we own the copy.
    let tx = unsafe { libc::fcntl(h.get_tx_raw_fd(), libc::F_DUPFD_CLOEXEC, 3) };
    let peer = unsafe { UnixStream::from_raw_fd(tx) };
    let raw = RawScript::attach(h.as_raw_fd(), peer);
    FrSrv { h, rec, raw }
}

fn fr_run(op: &BpOp, cuts: Option<&[usize]>, trunc: Option<usize>, res: &Resources) -> (String, Vec<Call>, Vec<u8>, bool) {
    let mut s = fr_server();
    let (bytes, fds) = op.request(F_VERSION | F_NEED_REPLY, res);
    match trunc {
        Some(cut) => {
            if cut > 0 {
                s.raw.queue(&bytes[..cut], &fds, &[]);
            }
            s.raw.eof_when_empty.set(true);
        }
        None => s.raw.queue(&bytes, &fds, cuts.unwrap_or(&[])),
    }
    let _ = coop::take_hangs();
    let r = std::panic::catch_unwind(std::panic::AssertUnwindSafe(|| s.h.handle_request()));
    let hang = coop::take_hangs().contains(&s.raw.ep_fd);
    let res_s = match r {
        Ok(Ok(v)) => format!("Ok({v})"),
        Ok(Err(e)) => err_class(&format!("{e:?}")),
        Err(_) => "PANIC".into(),
    };
    let written = s.raw.take_written();
    let log = s.rec.lock().unwrap().log.clone();
    (res_s, log, written.bytes, hang)
}

fn recv_fr_server(rep: &mut Report, res: &Resources) {
    for op in bp_ops_basic() {
        let (bytes, _) = op.request(F_VERSION | F_NEED_REPLY, res);
        let len = bytes.len();
        let reference = fr_run(&op, None, None, res);
        rep.evaluations += 1;
        let pos: Vec<usize> = (1..len).collect();
        let mut plans = splits2(len, &pos);
        plans.push((1..len).collect());
        plans.extend(splits3(len, &[1, 11, 12, 13, 20, len - 1]));
        for cuts in plans {
            let obs = fr_run(&op, Some(&cuts), None, res);
            rep.evaluations += 1;
            rep.transitions += cuts.len() as u64 + 1;
            if obs == reference {
                rep.outcome("recv:reassembled");
                if cuts.iter().any(|c| *c > 12) {
                    rep.nontrivial += 1;
                }
            } else {
                let w = cuts.iter().map(|c| region_of(*c, 12, len)).find(|r| *r == "inside-body").unwrap_or_else(|| region_of(cuts[0], 12, len));
                rep.outcome(&format!("recv:differs:{w}"));
                rep.violation(&format!("C08:recv:frontend_req_server:{w}"), &format!("{} split at {:?}: result {} (unsplit {}), handler calls {} (unsplit {})", op.name(), &cuts[..cuts.len().min(6)], obs.0, reference.0, obs.1.len(), reference.1.len()), json!({"check":"C08","part":"recv_fr_server","op":format!("{op:?}"),"cuts":cuts}));
            }
        }
        for cut in 0..len {
            let obs = fr_run(&op, None, Some(cut), res);
            rep.evaluations += 1;
            let mut bad = Vec::new();
            if obs.0.starts_with("Ok") {
                bad.push("no-error");
            }
            if obs.0 == "Disconnected" && cut != 0 {
                bad.push("clean-disconnect-inside-message");
            }
            if !obs.1.is_empty() {
                bad.push("partial-request-dispatched");
            }
            if obs.3 {
                bad.push("blocks-forever");
            }
            if obs.0 == "PANIC" {
                bad.push("panic");
            }
            rep.outcome(&format!("trunc:{}", obs.0));
            if bad.is_empty() {
                rep.nontrivial += 1;
            }
            for b in bad {
                rep.violation(&format!("C08:trunc:frontend_req_server:{b}"), &format!("{} cut at {cut}/{len}: {}", op.name(), obs.0), json!({"check":"C08","part":"trunc_fr_server","op":format!("{op:?}"),"cut":cut}));
            }
        }
    }
}

fn proxy_pair() -> (Backend, RawScript) {
    let (a, b) = UnixStream::pair().unwrap();
    let fd = a.as_raw_fd();
    let p = Backend::from_stream(a);
    p.set_reply_ack_flag(true);
    p.set_shared_object_flag(true);
    p.set_shmem_flag(true);
    (p, RawScript::attach(fd, b))
}

fn gpu_pair() -> (GpuBackend, RawScript) {
    let (a, b) = UnixStream::pair().unwrap();
    let fd = a.as_raw_fd();
    (GpuBackend::from_stream(a), RawScript::attach(fd, b))
}

fn recv_proxies(rep: &mut Report, res: &Resources) {
    for op in bp_ops_basic() {
        let ack = op.ack(0);
        let len = ack.len();
        let mut plans: Vec<Option<Vec<usize>>> = vec![None];
        plans.extend(splits2(len, &(1..len).collect::<Vec<_>>()).into_iter().map(Some));
        plans.push(Some((1..len).collect()));
        for cuts in plans {
            let (p, raw) = proxy_pair();
            raw.queue(&ack, &[], cuts.as_deref().unwrap_or(&[]));
            let _ = coop::take_hangs();
            let r = invoke_bp(&p, &op, res);
            let hang = coop::take_hangs().contains(&raw.ep_fd);
            rep.evaluations += 1;
            if r == Ok(0) && !hang {
                rep.outcome("recv:reassembled");
                rep.nontrivial += 1;
            } else {
                rep.violation("C08:recv:backend_proxy:ack", &format!("{}: ack split at {:?}: {:?} hang={hang}", op.name(), cuts, r), json!({"check":"C08","part":"recv_proxy","op":format!("{op:?}"),"cuts":cuts}));
            }
        }
        for cut in 0..len {
            let (p, raw) = proxy_pair();
            if cut > 0 {
                raw.queue(&ack[..cut], &[], &[]);
            }
            raw.eof_when_empty.set(true);
            let r = invoke_bp(&p, &op, res);
            let hang = coop::take_hangs().contains(&raw.ep_fd);
            rep.evaluations += 1;
            if r.is_ok() || hang {
                rep.violation("C08:trunc:backend_proxy", &format!("{}: ack cut at {cut}: {:?} hang={hang}", op.name(), r), json!({"check":"C08","part":"trunc_proxy","op":format!("{op:?}"),"cut":cut}));
            } else {
                rep.outcome("trunc:proxy-error");
                rep.nontrivial += 1;
            }
        }
    }
    for op in gpu_ops_basic() {
        let Some(reply) = op.reply(0x1122_3344_5566_7788) else { continue };
        let len = reply.len();
        let pos = positions(len, &[12], 6, 40);
        let mut plans: Vec<Option<Vec<usize>>> = vec![None];
        plans.extend(splits2(len, &pos).into_iter().map(Some));
        if len > 1 {
            plans.push(Some((1..len).collect()));
        }
        let want = match &op {
            GpuOp::GetProtocolFeatures => GpuRet::U64(0x1122_3344_5566_7788),
            GpuOp::DmabufUpdate(_) => GpuRet::Unit,
            _ => GpuRet::Bytes(reply[12..].to_vec()),
        };
        for cuts in plans {
            let (g, raw) = gpu_pair();
            raw.queue(&reply, &[], cuts.as_deref().unwrap_or(&[]));
            let _ = coop::take_hangs();
            let r = invoke_gpu(&g, &op, res);
            let hang = coop::take_hangs().contains(&raw.ep_fd);
            rep.evaluations += 1;
            if r.as_ref().ok() == Some(&want) && !hang {
                rep.outcome("recv:reassembled");
                rep.nontrivial += 1;
            } else {
                rep.violation("C08:recv:gpu_proxy:reply", &format!("{}: reply split at {:?}: ok={} hang={hang}", op.name(), cuts.as_ref().map(|c| &c[..c.len().min(4)]), r.is_ok()), json!({"check":"C08","part":"recv_gpu","op":format!("{op:?}"),"cuts":cuts}));
            }
        }
        for cut in (0..len).filter(|c| *c < 40 || *c % 97 == 0 || *c + 4 > len) {
            let (g, raw) = gpu_pair();
            if cut > 0 {
                raw.queue(&reply[..cut], &[], &[]);
            }
            raw.eof_when_empty.set(true);
            let r = invoke_gpu(&g, &op, res);
            let hang = coop::take_hangs().contains(&raw.ep_fd);
            rep.evaluations += 1;
            if r.is_ok() || hang {
                rep.violation("C08:trunc:gpu_proxy", &format!("{}: reply cut at {cut}: ok={} hang={hang}", op.name(), r.is_ok()), json!({"check":"C08","part":"trunc_gpu","op":format!("{op:?}"),"cut":cut}));
            } else {
                rep.outcome("trunc:gpu-error");
                rep.nontrivial += 1;
            }
        }
    }
}

// ------------------------------------------------------------------------------------------------
// senders under short writes

fn send_patterns(len: usize, thorough: bool) -> Vec<Vec<SendStep>> {
    let mut v: Vec<Vec<SendStep>> = Vec::new();
    let pos: Vec<usize> = if len <= 96 || thorough { (1..len).collect() } else { positions(len, &[12, 24], 8, 0) };
    for &i in &pos {
        v.push(vec![SendStep::Accept(i)]);
    }
    let pp: Vec<usize> = if thorough && len <= 64 { (1..len).collect() } else { [1usize, 2, 11, 12, 13, 19, 20, 24, len / 2, len.saturating_sub(2), len.saturating_sub(1)].iter().cloned().filter(|c| *c > 0 && *c < len).collect() };
    for &i in &pp {
        for &j in &pp {
            // second cap is relative to the remaining bytes
            if j < len - i {
                v.push(vec![SendStep::Accept(i), SendStep::Accept(j)]);
            }
        }
    }
    v.push(vec![SendStep::Eagain]);
    v.push(vec![SendStep::Eintr]);
    v.push(vec![SendStep::Eagain, SendStep::Eagain, SendStep::Accept(1)]);
    for &i in pp.iter().take(4) {
        v.push(vec![SendStep::Accept(i), SendStep::Eagain]);
        v.push(vec![SendStep::Eintr, SendStep::Accept(i), SendStep::Eintr]);
    }
    v
}

#[derive(Debug, PartialEq)]
struct Sent {
    bytes: Vec<u8>,
    fd_offsets: Vec<(usize, usize)>,
    result: String,
}

fn sent_of(r: crate::rawpeer::Received, result: String) -> Sent {
    Sent { bytes: r.bytes, fd_offsets: r.fds.iter().map(|(o, f)| (*o, f.len())).collect(), result }
}

fn send_frontend(rep: &mut Report, res: &Resources, thorough: bool) {
    let script = Script::default();
    for op in fe_ops() {
        let run = |steps: Option<Vec<SendStep>>| -> Sent {
            let mut f = FeRaw::new(2);
            f.negotiate(VIRTIO_F_PROTOCOL_FEATURES | 0x3, PF_ALL_DEFINED, PF_ALL_DEFINED).unwrap();
            f.fe.set_hdr_flags(VhostUserHeaderFlag::NEED_REPLY);
            let (rb, rf) = correct_reply(&op, &script, res);
            f.raw.queue(&rb, &rf, &[]);
            if let Some(s) = steps {
                coop::script_send(f.raw.ep_fd, s);
            }
            let r = invoke(&mut f.fe, &op, res);
            let w = f.raw.take_written();
            sent_of(w, format!("{:?}", r.is_ok()))
        };
        let reference = run(None);
        rep.evaluations += 1;
        let len = reference.bytes.len();
        for steps in send_patterns(len, thorough) {
            let got = run(Some(steps.clone()));
            rep.evaluations += 1;
            rep.transitions += steps.len() as u64;
            if got == reference {
                rep.outcome("send:exactly-once");
                rep.nontrivial += 1;
            } else {
                let kind = if got.bytes != reference.bytes { "bytes" } else if got.fd_offsets != reference.fd_offsets { "descriptors" } else { "result" };
                rep.outcome(&format!("send:differs:{kind}"));
                rep.violation(&format!("C08:send:frontend:{kind}"), &format!("{:?} under {:?}: wrote {} bytes (expected {}), fds at {:?} (expected {:?}), ok={}", op, steps, got.bytes.len(), len, got.fd_offsets, reference.fd_offsets, got.result), json!({"check":"C08","part":"send_frontend","op":format!("{op:?}"),"steps":format!("{steps:?}")}));
            }
        }
    }
}

fn send_server(rep: &mut Report, res: &Resources, thorough: bool) {
    for req in wellformed().into_iter().filter(|r| matches!(r.code, GET_FEATURES | GET_CONFIG | GET_SHMEM_CONFIG | GET_INFLIGHT_FD | SET_VRING_NUM | GET_SHARED_OBJECT | GET_VRING_BASE)) {
        let run = |steps: Option<Vec<SendStep>>| -> Sent {
            let s = RawSession::new(srv_recorder(res));
            s.negotiate(VIRTIO_F_PROTOCOL_FEATURES | 0x3, PF_ALL_DEFINED);
            if let Some(st) = steps {
                coop::script_send(s.server.fd, st);
            }
            let (r, got) = s.roundtrip(&req.bytes(F_VERSION | F_NEED_REPLY), &req.raw_fds(res));
            sent_of(got, format!("{:?}", r.is_ok()))
        };
        let reference = run(None);
        rep.evaluations += 1;
        let len = reference.bytes.len();
        for steps in send_patterns(len, thorough) {
            let got = run(Some(steps.clone()));
            rep.evaluations += 1;
            rep.transitions += steps.len() as u64;
            if got == reference {
                rep.outcome("send:exactly-once");
                rep.nontrivial += 1;
            } else {
                let kind = if got.bytes != reference.bytes { "bytes" } else if got.fd_offsets != reference.fd_offsets { "descriptors" } else { "result" };
                rep.violation(&format!("C08:send:backend_server:{kind}"), &format!("{} reply under {:?}: wrote {} bytes (expected {}), fds {:?} (expected {:?})", req.name(), steps, got.bytes.len(), len, got.fd_offsets, reference.fd_offsets), json!({"check":"C08","part":"send_server","req":req.name(),"steps":format!("{steps:?}")}));
            }
        }
    }
}

fn send_proxies(rep: &mut Report, res: &Resources, thorough: bool) {
    for op in bp_ops_basic() {
        let run = |steps: Option<Vec<SendStep>>| -> Sent {
            let (p, raw) = proxy_pair();
            raw.queue(&op.ack(0), &[], &[]);
            if let Some(s) = steps {
                coop::script_send(raw.ep_fd, s);
            }
            let r = invoke_bp(&p, &op, res);
            sent_of(raw.take_written(), format!("{:?}", r.is_ok()))
        };
        let reference = run(None);
        rep.evaluations += 1;
        for steps in send_patterns(reference.bytes.len(), thorough) {
            let got = run(Some(steps.clone()));
            rep.evaluations += 1;
            if got == reference {
                rep.outcome("send:exactly-once");
                rep.nontrivial += 1;
            } else {
                rep.violation("C08:send:backend_proxy", &format!("{} under {:?}: {} bytes (expected {}), fds {:?}", op.name(), steps, got.bytes.len(), reference.bytes.len(), got.fd_offsets), json!({"check":"C08","part":"send_proxy","op":format!("{op:?}"),"steps":format!("{steps:?}")}));
            }
        }
    }
    for op in gpu_ops_basic() {
        let run = |steps: Option<Vec<SendStep>>| -> Sent {
            let (g, raw) = gpu_pair();
            if let Some(r) = op.reply(7) {
                raw.queue(&r, &[], &[]);
            }
            if let Some(s) = steps {
                coop::script_send(raw.ep_fd, s);
            }
            let r = invoke_gpu(&g, &op, res);
            sent_of(raw.take_written(), format!("{:?}", r.is_ok()))
        };
        let reference = run(None);
        rep.evaluations += 1;
        for steps in send_patterns(reference.bytes.len(), false) {
            let got = run(Some(steps.clone()));
            rep.evaluations += 1;
            if got == reference {
                rep.outcome("send:exactly-once");
                rep.nontrivial += 1;
            } else {
                rep.violation("C08:send:gpu_proxy", &format!("{} under {:?}: {} bytes (expected {}), fds {:?}", op.name(), steps, got.bytes.len(), reference.bytes.len(), got.fd_offsets), json!({"check":"C08","part":"send_gpu","op":format!("{op:?}"),"steps":format!("{steps:?}")}));
            }
        }
    }
    let _ = thorough;
}

pub fn run(rep: &mut Report) {
    let thorough = rep.is_thorough();
    coop::enable();
    let res = Resources::new();
    recv_server(rep, &res, thorough);
    recv_frontend(rep, &res, thorough);
    recv_fr_server(rep, &res);
    recv_proxies(rep, &res);
    send_frontend(rep, &res, thorough);
    send_server(rep, &res, thorough);
    send_proxies(rep, &res, thorough);
    coop::disable();
    rep.states = rep.outcomes.len() as u64;
    rep.traces = rep.evaluations;
    rep.exhaustive = true;
    rep.sample(json!({"part": "recv_server", "req": "SET_VRING_ADDR", "cuts": [13], "expect": "same handler call, same ack as unsplit"}));
    rep.sample(json!({"part": "trunc_server", "req": "SET_VRING_NUM", "cut": 15, "expect": "error other than Disconnected, handler not called"}));
    rep.sample(json!({"part": "send_frontend", "op": "SetMemTable", "steps": ["Accept(5)", "Accept(7)"], "expect": "bytes exactly once in order, descriptors at offset 0 only"}));
    rep.rule = "receivers (backend server, frontend reply paths, frontend request server, proxy ack/reply paths): every message type x every 2-split (quick: all positions for short messages, neighbourhood of each structural boundary + stride 61 for long ones; thorough: every position of every message), byte-by-byte, 3-splits (thorough: all for messages up to 80 bytes), 4-splits at thorough (all for messages up to 36 bytes, around the structural boundaries otherwise), and every cut offset followed by close; senders (frontend, backend server, both proxies): every single short write position, pairs of short writes, EAGAIN/EINTR patterns. Non-trivial = a delivery with a cut beyond the header that was reassembled, a truncation that produced the prescribed error, or a short-write pattern that produced the byte stream exactly once".into();
    rep.assumptions.push("segmentation is produced by a raw peer that writes the next segment only when the receiver starts waiting (real kernel socket semantics); short writes by capping sendmsg in the interposer".into());
}

pub fn replay(case: &Value, rep: &mut Report) {
    coop::enable();
    let res = Resources::new();
    let part = case["part"].as_str().unwrap_or("");
    println!("replay C08 {case}");
    if part == "recv_server" || part == "trunc_server" {
        let name = case["req"].as_str().unwrap_or("");
        if let Some(req) = wellformed().into_iter().find(|r| r.name() == name) {
            let reference = srv_run(&req, None, None, &res);
            let obs = if part == "recv_server" {
                let cuts: Vec<usize> = case["cuts"].as_array().map(|a| a.iter().map(|x| x.as_u64().unwrap_or(0) as usize).collect()).unwrap_or_default();
                srv_run(&req, Some(&cuts), None, &res)
            } else {
                srv_run(&req, None, Some(case["cut"].as_u64().unwrap_or(0) as usize), &res)
            };
            println!("reference: {} calls={} reply={}B\nobserved : {} calls={} reply={}B hang={}", reference.result, reference.log.len(), reference.reply.len(), obs.result, obs.log.len(), obs.reply.len(), obs.hang);
            rep.evaluations += 1;
            if part == "recv_server" && obs != reference {
                rep.violation("C08:replay", "segmented delivery differs from unsplit delivery", case.clone());
            }
        }
    } else {
        println!("(replaying by re-running the quick enumeration)");
        run(rep);
    }
    coop::disable();
}
