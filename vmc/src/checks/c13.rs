//! C13: guest memory table and address translation always reflect the accepted updates.
//! Engine E1 on a real daemon: histories of SET_MEM_TABLE / ADD_MEM_REG / REM_MEM_REG over a
//! region alphabet (adjacent, overlapping, duplicate start, non-zero mmap offsets, user ranges
//! low / around 2^47 / near 2^64, un-mmappable descriptor, misaligned offset), reference map
//! co-executed; byte probes through file and guest memory, translation probes via SET_VRING_ADDR.

use crate::daemonh::*;
use crate::rawpeer::{eventfd, ident, memfd};
use crate::report::Report;
use crate::spec::*;
use crate::xstate::bfs;
use serde_json::{json, Value};
use std::os::unix::io::{AsRawFd, OwnedFd, RawFd};
use vhost_user_backend::VringRwLock;
use vm_memory::{Bytes, GuestAddress, GuestAddressSpace};

type H = DaemonH<VringRwLock, ()>;

#[derive(Clone, Debug, PartialEq)]
pub struct R {
    name: &'static str,
    gpa: u64,
    size: u64,
    user: u64,
    off: u64,
    /// 0..=2 memfds, 3 = eventfd (cannot be mapped)
    file: usize,
    mappable: bool,
}

pub fn regions() -> Vec<R> {
    vec![
        R { name: "A", gpa: 0x0, size: 0x2000, user: 0x7f00_0000_0000, off: 0, file: 0, mappable: true },
        R { name: "B-adjacent", gpa: 0x2000, size: 0x1000, user: 0x7f00_0000_2000, off: 0x2000, file: 0, mappable: true },
        R { name: "C-overlaps-AB", gpa: 0x1000, size: 0x2000, user: 0x7f10_0000_0000, off: 0, file: 1, mappable: true },
        R { name: "D-same-start-as-A", gpa: 0x0, size: 0x1000, user: 0x7f20_0000_0000, off: 0x1000, file: 1, mappable: true },
        R { name: "E-3pages-2^47", gpa: 0x10_0000, size: 0x3000, user: 0x7fff_ffff_0000, off: 0x1000, file: 2, mappable: true },
        R { name: "F-user-near-2^64", gpa: 0x20_0000, size: 0x1000, user: u64::MAX - 0x1fff, off: 0, file: 2, mappable: true },
        R { name: "G-eventfd", gpa: 0x30_0000, size: 0x1000, user: 0x7f30_0000_0000, off: 0, file: 3, mappable: false },
        R { name: "H-misaligned-offset", gpa: 0x40_0000, size: 0x1000, user: 0x7f40_0000_0000, off: 0x800, file: 0, mappable: false },
    ]
}

#[derive(Clone, Debug, PartialEq)]
pub enum Op {
    Set(Vec<usize>),
    /// SET_MEM_TABLE while the backend's update_memory callback fails
    SetBackendFails(Vec<usize>),
    Add(usize),
    Rem(usize),
    /// remove with a size that does not match
    RemWrongSize(usize),
    /// remove naming the region's guest range but another frontend address (the guest range is what
    /// identifies a region; whether such a request succeeds is the implementation's choice - if it
    /// does, the region is gone from memory AND from the translation table)
    RemOtherUser(usize),
}

pub fn alphabet(level: u8) -> Vec<Op> {
    let n = regions().len();
    let mut v = Vec::new();
    for i in 0..n {
        v.push(Op::Set(vec![i]));
    }
    let pairs: Vec<(usize, usize)> = if level > 0 {
        (0..n).flat_map(|a| (0..n).filter(move |b| *b != a).map(move |b| (a, b))).collect()
    } else {
        vec![(0, 1), (1, 0), (0, 2), (0, 3), (0, 4), (4, 0), (4, 5), (5, 4), (0, 6), (6, 0), (0, 7), (1, 4), (2, 4)]
    };
    for (a, b) in pairs {
        v.push(Op::Set(vec![a, b]));
    }
    v.extend([Op::Set(vec![0, 1, 4]), Op::Set(vec![0, 4, 5]), Op::Set(vec![4, 0, 1]), Op::Set(vec![0, 1, 6])]);
    v.push(Op::SetBackendFails(vec![4]));
    for i in 0..n {
        v.push(Op::Add(i));
        v.push(Op::Rem(i));
    }
    v.extend([Op::RemWrongSize(0), Op::RemWrongSize(4), Op::RemOtherUser(0), Op::RemOtherUser(1), Op::RemOtherUser(4)]);
    v
}

pub struct Sys {
    h: H,
    files: Vec<OwnedFd>,
    /// reference model: regions currently in the table
    m: Vec<usize>,
    updates_seen: usize,
    broken: Option<String>,
}

const PROTO: u64 = PF_REPLY_ACK | PF_CONFIGURE_MEM_SLOTS | PF_MQ;

fn negotiate(h: &mut H) -> Result<(), String> {
    h.negotiate(VIRTIO_F_PROTOCOL_FEATURES | 0x3, PROTO)
}

fn fresh() -> Sys {
    let mut h = H::new(Cfg::default());
    let broken = negotiate(&mut h).err();
    let mut files: Vec<OwnedFd> = (0..3).map(|i| memfd(&format!("c13-{i}"), 0x8000)).collect();
    files.push(eventfd(0, true));
    Sys { h, files, m: vec![], updates_seen: 0, broken }
}

fn wire_region(r: &R) -> Region {
    Region { gpa: r.gpa, size: r.size, user: r.user, offset: r.off }
}

fn overlaps(a: &R, b: &R) -> bool {
    a.gpa < b.gpa + b.size && b.gpa < a.gpa + a.size
}

/// Is the update "clearly valid" (must succeed)? sorted by guest address, pairwise disjoint, mappable.
fn clearly_valid_table(rs: &[&R]) -> bool {
    rs.iter().all(|r| r.mappable) && rs.windows(2).all(|w| w[0].gpa + w[0].size <= w[1].gpa)
}

fn step(sys: &mut Sys, op: &Op, hist: &[usize], check: bool, rep: &mut Report, ops: &[Op]) -> String {
    if let Some(b) = &sys.broken {
        return format!("broken:{b}");
    }
    let all = regions();
    let case = |sys: &Sys| json!({"check":"C13","history": hist.iter().map(|i| format!("{:?}", ops[*i])).collect::<Vec<_>>(), "op": format!("{op:?}"), "model": sys.m.iter().map(|i| all[*i].name).collect::<Vec<_>>()});
    let fd_of = |sys: &Sys, r: &R| -> RawFd { sys.files[r.file].as_raw_fd() };
    sys.h.be.sh.0.lock().unwrap().fail_update_memory = matches!(op, Op::SetBackendFails(_));
    let before_updates = sys.h.be.sh.0.lock().unwrap().update_memory.len();
    // ---- implementation ----
    let res = match op {
        Op::Set(ix) | Op::SetBackendFails(ix) => {
            let rs: Vec<Region> = ix.iter().map(|i| wire_region(&all[*i])).collect();
            let fds: Vec<RawFd> = ix.iter().map(|i| fd_of(sys, &all[*i])).collect();
            sys.h.ack(SET_MEM_TABLE, &p_mem_table(&rs), &fds)
        }
        Op::Add(i) => sys.h.ack(ADD_MEM_REG, &p_single_region(&wire_region(&all[*i])), &[fd_of(sys, &all[*i])]),
        Op::Rem(i) => sys.h.ack(REM_MEM_REG, &p_single_region(&wire_region(&all[*i])), &[]),
        Op::RemWrongSize(i) => {
            let mut r = wire_region(&all[*i]);
            r.size += 0x1000;
            sys.h.ack(REM_MEM_REG, &p_single_region(&r), &[])
        }
        Op::RemOtherUser(i) => {
            let mut r = wire_region(&all[*i]);
            r.user = r.user.wrapping_add(0x1000_0000) & 0x7fff_ffff_f000;
            sys.h.ack(REM_MEM_REG, &p_single_region(&r), &[])
        }
    };
    sys.h.be.sh.0.lock().unwrap().fail_update_memory = false;
    let ok = matches!(res, Ok(true));
    if let Err(e) = &res {
        if e.starts_with("dead") {
            sys.broken = Some(e.clone());
            if check {
                rep.evaluations += 1;
                rep.violation("C13:daemon-thread-died", &format!("{op:?}: {e}; panics {:?}", take_panics()), case(sys));
            }
            return format!("dead:{e}");
        }
    }
    // a failing request ends the session (the handler's state persists): reconnect
    if !ok {
        let _ = sys.h.reconnect();
        if let Err(e) = negotiate(&mut sys.h) {
            sys.broken = Some(e.clone());
            return format!("reconnect-failed:{e}");
        }
    }
    // ---- reference model ----
    let model_before = sys.m.clone();
    let (must_succeed, must_fail): (bool, bool) = match op {
        Op::Set(ix) => {
            let rs: Vec<&R> = ix.iter().map(|i| &all[*i]).collect();
            (clearly_valid_table(&rs), rs.iter().any(|r| !r.mappable) || (0..rs.len()).any(|a| (a + 1..rs.len()).any(|b| overlaps(rs[a], rs[b]))))
        }
        Op::SetBackendFails(_) => (false, true),
        Op::Add(i) => {
            let clash = sys.m.iter().any(|j| overlaps(&all[*j], &all[*i]));
            (all[*i].mappable && !clash, !all[*i].mappable || clash)
        }
        Op::Rem(i) => (sys.m.contains(i), !sys.m.iter().any(|j| all[*j].gpa == all[*i].gpa && all[*j].size == all[*i].size)),
        Op::RemWrongSize(_) => (false, true),
        Op::RemOtherUser(i) => (false, !sys.m.iter().any(|j| all[*j].gpa == all[*i].gpa && all[*j].size == all[*i].size)),
    };
    if ok {
        match op {
            Op::Set(ix) | Op::SetBackendFails(ix) => sys.m = ix.clone(),
            Op::Add(i) => sys.m.push(*i),
            Op::Rem(i) | Op::RemOtherUser(i) => {
                let (g, s) = (all[*i].gpa, all[*i].size);
                sys.m.retain(|j| !(all[*j].gpa == g && all[*j].size == s));
            }
            Op::RemWrongSize(_) => {}
        }
    }
    let after_updates = sys.h.be.sh.0.lock().unwrap().update_memory.len();
    let last_update = sys.h.be.sh.0.lock().unwrap().update_memory.last().cloned();
    let digest = format!("{}|{}|{:?}", ok, after_updates - before_updates, sys.m);
    if !check {
        return digest;
    }
    rep.evaluations += 1;
    rep.transitions += 1;
    let name = format!("{op:?}").split('(').next().unwrap_or("").to_string();
    if must_succeed && !ok {
        rep.violation(&format!("C13:{name}:valid-update-rejected"), &format!("{op:?} on table {:?} was rejected ({res:?})", model_before.iter().map(|i| all[*i].name).collect::<Vec<_>>()), case(sys));
    }
    if must_fail && ok {
        rep.violation(&format!("C13:{name}:invalid-update-accepted"), &format!("{op:?} on table {:?} was acknowledged as success", model_before.iter().map(|i| all[*i].name).collect::<Vec<_>>()), case(sys));
    }
    // backend notified once per successful change, never for a failed one
    let delta = after_updates - before_updates;
    if delta != ok as usize && !matches!(op, Op::SetBackendFails(_)) {
        rep.violation(&format!("C13:{name}:notification-count"), &format!("{op:?}: success={ok}, backend notified {delta} time(s)"), case(sys));
    }
    // the memory the backend holds = the model's regions (same guest range, file, offset)
    let mem = sys.h.be.mem.lock().unwrap().clone();
    let mut want: Vec<MemRegionObs> = sys.m.iter().map(|i| MemRegionObs { gpa: all[*i].gpa, len: all[*i].size, file: ident(fd_of(sys, &all[*i])), offset: all[*i].off }).collect();
    want.sort_by_key(|r| r.gpa);
    let mut got: Vec<MemRegionObs> = match &mem {
        Some(m) => {
            use vm_memory::{GuestMemory, GuestMemoryRegion};
            m.memory().iter().map(|r| MemRegionObs { gpa: r.start_addr().0, len: r.len(), file: r.file_offset().map(|f| ident(f.file().as_raw_fd())).unwrap_or((0, 0)), offset: r.file_offset().map(|f| f.start()).unwrap_or(0) }).collect()
        }
        None => vec![],
    };
    got.sort_by_key(|r| r.gpa);
    if got != want {
        rep.outcome("memory-differs-from-accepted-updates");
        rep.violation(
            &format!("C13:{name}:{}", if ok { "memory-differs-after-success" } else { "failed-update-changed-memory" }),
            &format!("{op:?} (success={ok}): backend's guest memory is {:?}, the accepted updates give {:?}", got.iter().map(|r| (r.gpa, r.len, r.offset)).collect::<Vec<_>>(), want.iter().map(|r| (r.gpa, r.len, r.offset)).collect::<Vec<_>>()),
            case(sys),
        );
    } else {
        rep.outcome(if ok { "update-applied" } else { "failed-update-left-table-intact" });
        rep.nontrivial += 1;
    }
    if ok {
        if let Some(u) = &last_update {
            let mut u = u.clone();
            u.sort_by_key(|r| r.gpa);
            if u != want {
                rep.violation(&format!("C13:{name}:snapshot-handed-to-backend"), "the snapshot passed to update_memory differs from the table", case(sys));
            }
        }
    }
    // byte probes: file <-> guest memory, first and last byte of each region
    if let Some(m) = &mem {
        for (n, i) in sys.m.iter().enumerate() {
            let r = &all[*i];
            for k in [0u64, r.size - 1] {
                let tag = 0x40u8 + (n as u8) * 2 + (k != 0) as u8 + (hist.len() as u8) * 16;
                // SAFETY: pwrite/pread on our memfd with valid buffers.
                unsafe { libc::pwrite(fd_of(sys, r), &tag as *const u8 as *const libc::c_void, 1, (r.off + k) as i64) };
                let mut b = [0u8; 1];
                let rr = m.memory().read_slice(&mut b, GuestAddress(r.gpa + k));
                let tag2 = tag ^ 0xff;
                let wr = m.memory().write_slice(&[tag2], GuestAddress(r.gpa + k));
                let mut c = 0u8;
                unsafe { libc::pread(fd_of(sys, r), &mut c as *mut u8 as *mut libc::c_void, 1, (r.off + k) as i64) };
                rep.transitions += 1;
                if rr.is_err() || b[0] != tag || wr.is_err() || c != tag2 {
                    rep.violation(&format!("C13:{name}:bytes-not-shared"), &format!("region {} offset {k:#x}: wrote {tag:#x} through the file, read {:#x} through guest memory; wrote {tag2:#x} through guest memory, read {c:#x} through the file", r.name, b[0]), case(sys));
                    break;
                }
            }
        }
    }
    // translation probes at every region edge (and just outside)
    let table: Vec<R> = sys.m.iter().map(|i| all[*i].clone()).collect();
    let mut probes: Vec<u64> = Vec::new();
    for r in all.iter().filter(|r| r.mappable) {
        probes.extend([r.user, r.user + r.size - 16, r.user.wrapping_add(r.size), r.user.wrapping_sub(16)]);
    }
    probes.sort();
    probes.dedup();
    let good = table.first().map(|r| r.user);
    for va in probes {
        let Some(good) = good else { break };
        let inside = table.iter().find(|r| va >= r.user && va - r.user < r.size);
        sys.h.send(SET_VRING_ADDR, F_VERSION | F_NEED_REPLY, &p_vring_addr(0, 0, va, good, good, 0), &[]);
        let out = sys.h.recv_msg();
        rep.transitions += 1;
        let accepted = matches!(&out, ReqOut::Msg(d, _) if d.size == 8 && rd64(&d.payload, 0) == 0);
        match (inside, accepted) {
            (Some(r), true) => {
                let snap = sys.h.probe(0).unwrap_or_default();
                let want_gpa = r.gpa + (va - r.user);
                if snap.first().map(|q| q.desc) != Some(want_gpa) {
                    rep.outcome("translation-wrong");
                    rep.violation("C13:translation:wrong-guest-address", &format!("frontend address {va:#x} in region {} translated to {:#x?}, expected {want_gpa:#x}", r.name, snap.first().map(|q| q.desc)), case(sys));
                } else {
                    rep.outcome("translated");
                    rep.nontrivial += 1;
                }
            }
            (None, false) => {
                rep.outcome("address-outside-rejected");
                rep.nontrivial += 1;
            }
            (Some(r), false) => {
                rep.outcome("translation-missing");
                rep.violation("C13:translation:address-in-table-rejected", &format!("frontend address {va:#x} lies in region {} of the current table but SET_VRING_ADDR was rejected ({out:?})", r.name), case(sys));
            }
            (None, true) => {
                rep.outcome("stale-translation");
                rep.violation("C13:translation:address-outside-table-accepted", &format!("frontend address {va:#x} lies in no region of the current table {:?} but SET_VRING_ADDR was accepted", table.iter().map(|r| r.name).collect::<Vec<_>>()), case(sys));
            }
        }
        if !accepted {
            if let ReqOut::Dead(e) = &out {
                sys.broken = Some(e.clone());
                rep.violation("C13:daemon-thread-died", &format!("SET_VRING_ADDR probe at {va:#x}: {e}; panics {:?}", take_panics()), case(sys));
                break;
            }
            let _ = sys.h.reconnect();
            if let Err(e) = negotiate(&mut sys.h) {
                sys.broken = Some(e);
                break;
            }
        }
    }
    digest
}

fn key(sys: &Sys) -> String {
    if let Some(b) = &sys.broken {
        return format!("broken:{b}");
    }
    let mut m = sys.m.clone();
    m.sort();
    let imp = sys.h.be.sh.0.lock().unwrap().update_memory.last().map(|u| u.iter().map(|r| (r.gpa, r.len, r.offset)).collect::<Vec<_>>()).unwrap_or_default();
    format!("{:?}#{:?}", m, imp)
}

pub fn run(rep: &mut Report) {
    let thorough = rep.is_thorough();
    let ops = alphabet(if thorough { 1 } else { 0 });
    let stepf = |s: &mut Sys, oi: usize, hist: &[usize], check: bool, rep: &mut Report| step(s, &ops[oi], hist, check, rep, &ops);
    let st = bfs(ops.len(), &fresh, &stepf, &key, if thorough { 5 } else { 3 }, if thorough { 900.0 } else { 40.0 }, true, rep);
    rep.states = st.states;
    rep.traces = st.transitions;
    rep.exhaustive = st.closed && !st.capped;
    rep.extra.insert("alphabet".into(), json!(ops.len()));
    rep.extra.insert("depth_completed".into(), json!(st.depth_completed));
    rep.extra.insert("closure_reached".into(), json!(st.closed));
    let p = take_panics();
    if !p.is_empty() {
        rep.violation("C13:panic", &format!("library thread panicked: {:?}", p), json!({"check":"C13","panics":p}));
    }
    rep.sample(json!({"history":["Set([0, 1])","Add(2)"],"expect":"ADD of a region overlapping the table is rejected, table and translation unchanged"}));
    rep.sample(json!({"regions": regions().iter().map(|r| json!({"name": r.name, "gpa": format!("{:#x}", r.gpa), "size": format!("{:#x}", r.size), "user": format!("{:#x}", r.user), "offset": format!("{:#x}", r.off)})).collect::<Vec<_>>()}));
    rep.rule = "BFS over histories of {SET_MEM_TABLE of 1-3 regions in both orders, SET_MEM_TABLE with a failing backend callback, ADD_MEM_REG, REM_MEM_REG, REM_MEM_REG with a wrong size, REM_MEM_REG naming another frontend address} on 8 regions over 3 memfds (adjacent, overlapping, same start, non-zero mmap offsets, 1/2/3 pages, user ranges low / around 2^47 / ending at 2^64-0x1000, un-mmappable descriptor, misaligned offset). After every step: notification count, the memory handed to the backend vs the reference map, byte probes through file and guest memory at the first/last byte of every region, SET_VRING_ADDR translation probes at every region edge +-1 (failed requests end the session: reconnect to the same daemon, which also compares states reached with and without a reconnect). Non-trivial = steps / probes whose expected table, bytes or translation were verified".into();
    rep.assumptions.push("whether an update must succeed is only demanded for clearly valid tables (sorted by guest address, disjoint, mappable); overlapping / unmappable updates must fail; unordered but disjoint tables may go either way".into());
}

pub fn replay(case: &Value, rep: &mut Report) {
    let ops = alphabet(1);
    let find = |s: &str| ops.iter().position(|o| format!("{o:?}") == s);
    let mut sys = fresh();
    let mut hist = Vec::new();
    for h in case["history"].as_array().cloned().unwrap_or_default() {
        if let Some(i) = h.as_str().and_then(find) {
            let o = step(&mut sys, &ops[i], &hist, false, rep, &ops);
            println!("  {:?} -> {o}", ops[i]);
            hist.push(i);
        }
    }
    if let Some(i) = case["op"].as_str().and_then(find) {
        let o = step(&mut sys, &ops[i], &hist, true, rep, &ops);
        println!("  {:?} -> {o}", ops[i]);
    }
}
