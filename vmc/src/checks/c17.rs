//! C17: kicks are routed to the owning worker with the ring's rank as event id.
//! Engine E3 over configurations: all assignments of n queues to 1..=3 worker masks (subsets of
//! n bits plus bits beyond n) x every queue kicked, on a real daemon; custom listener ids across
//! the 64-bit range.

use crate::daemonh::*;
use crate::rawpeer::eventfd;
use crate::report::Report;
use crate::spec::*;
use serde_json::{json, Value};
use std::os::unix::io::{AsRawFd, OwnedFd};
use vhost_user_backend::VringRwLock;
use vmm_sys_util::epoll::EventSet;

type H = DaemonH<VringRwLock, ()>;

fn kick(fd: &OwnedFd) {
    let one: u64 = 1;
    // SAFETY: write to our own eventfd.
    unsafe { libc::write(fd.as_raw_fd(), &one as *const u64 as *const libc::c_void, 8) };
}

fn size_of_queue(q: usize) -> u16 {
    2u16 << q
}

fn setup(n: usize, masks: &[u64]) -> Result<(H, Vec<OwnedFd>), String> {
    let cfg = Cfg { num_queues: n, max_queue_size: 256, masks: masks.to_vec(), ..Default::default() };
    let mut h = H::new(cfg);
    // rings enabled by a SET_FEATURES without PROTOCOL_FEATURES; REPLY_ACK for synchronous messages
    match h.req(GET_FEATURES, &[], &[]) {
        ReqOut::Msg(..) => {}
        o => return Err(format!("{o:?}")),
    }
    match h.req(SET_PROTOCOL_FEATURES, &p_u64(PF_REPLY_ACK), &[]) {
        ReqOut::Msg(..) => {}
        o => return Err(format!("{o:?}")),
    }
    h.reply_ack = true;
    h.ack(SET_FEATURES, &p_u64(0x3), &[])?;
    let mut fds = Vec::new();
    for q in 0..n {
        h.ack(SET_VRING_NUM, &p_vring_state(q as u32, size_of_queue(q) as u32), &[])?;
        let fd = eventfd(0, true);
        h.ack(SET_VRING_KICK, &p_u64(q as u64), &[fd.as_raw_fd()])?;
        fds.push(fd);
    }
    Ok((h, fds))
}

fn routing(rep: &mut Report, n: usize, masks: &[u64]) {
    let case = |q: usize| json!({"check":"C17","part":"routing","queues":n,"masks":masks,"kicked":q});
    let (h, fds) = match setup(n, masks) {
        Ok(x) => x,
        Err(e) => {
            rep.evaluations += 1;
            rep.violation("C17:setup-failed", &format!("daemon with {n} queues and masks {:x?} could not be configured: {e} (panics {:?})", masks, take_panics()), case(0));
            return;
        }
    };
    for q in 0..n {
        h.be.take_dispatches();
        kick(&fds[q]);
        if let Err(e) = h.probe_all() {
            rep.evaluations += 1;
            rep.violation("C17:worker-stuck-or-dead", &e, case(q));
            return;
        }
        let d = h.be.take_dispatches();
        rep.evaluations += 1;
        rep.transitions += 1;
        let owner = masks.iter().position(|m| m >> q & 1 == 1);
        match owner {
            None => {
                // no worker owns the queue: nothing to route, but nothing may be dispatched either
                if !d.is_empty() {
                    rep.violation("C17:unowned-queue-dispatched", &format!("queue {q} belongs to no mask but {:?} was dispatched", d), case(q));
                } else {
                    rep.outcome("unowned-queue-quiet");
                }
            }
            Some(t) => {
                let ev = (masks[t] & ((1u64 << q) - 1)).count_ones() as u16;
                // handled by exactly one worker, with that worker's id, event id and ring; the same
                // (thread, event, ring) delivered more than once is not forbidden by the statement
                let good = |x: &Dispatch| x.thread == t && x.event == ev && x.ring_size == Some(size_of_queue(q));
                let ok = !d.is_empty() && d.iter().all(good);
                if ok {
                    rep.outcome(if d.len() == 1 { "routed" } else { "routed-repeatedly(info)" });
                    rep.nontrivial += 1;
                } else {
                    rep.outcome("misrouted");
                    let bad = d.iter().find(|x| !good(x));
                    let kind = match bad {
                        None => "not-dispatched",
                        Some(x) if x.thread != t => "wrong-worker",
                        Some(x) if x.event != ev => "wrong-event-id",
                        Some(_) => "wrong-ring-at-event-id",
                    };
                    rep.violation(&format!("C17:routing:{kind}"), &format!("queues={n} masks={:x?}: kick on queue {q} expected (thread {t}, event {ev}, ring of size {}), observed {:?}", masks, size_of_queue(q), d), case(q));
                }
            }
        }
    }
    // the exit event uses id num_queues: it must be registered with exactly that id on each worker
    for t in 0..masks.len() {
        let regs = h.epoll_regs(t);
        rep.evaluations += 1;
        if !regs.iter().any(|(d, _)| *d == n as u64) {
            rep.violation("C17:exit-event-id", &format!("worker {t}: no registration with id num_queues={n}: {:?}", regs), case(0));
        } else {
            rep.outcome("exit-id-ok");
        }
    }
}


/// Wait (bounded) until the condition on the shared state holds.
fn wait_shared(h: &H, secs: u64, cond: impl Fn(&Shared) -> bool) -> bool {
    let (m, cv) = &*h.be.sh;
    let mut g = m.lock().unwrap();
    let start = std::time::Instant::now();
    while !cond(&g) {
        if start.elapsed() > std::time::Duration::from_secs(secs) {
            return false;
        }
        g = cv.wait_timeout(g, std::time::Duration::from_millis(20)).unwrap().0;
    }
    true
}

/// "Handled by the first worker whose mask contains the queue" while that worker is busy: for every
/// queue contained in more than one mask, the owner is held inside the handler (first kick), the
/// queue is kicked again and every *other* worker passes the two-round barrier: none of them may
/// have dispatched anything; after the release the owner handles the second kick. Run after each
/// message history that makes the daemon revisit the kick registrations of running rings.
fn busy_owner(rep: &mut Report, n: usize, masks: &[u64], hist: u8) {
    let owners = |q: usize| masks.iter().enumerate().filter(|(_, m)| *m >> q & 1 == 1).map(|(t, _)| t).collect::<Vec<_>>();
    if !(0..n).any(|q| owners(q).len() >= 2) {
        return;
    }
    let case = |q: usize| json!({"check":"C17","part":"busy-owner","queues":n,"masks":masks,"history":hist,"kicked":q});
    let (mut h, fds) = match setup(n, masks) {
        Ok(x) => x,
        Err(e) => {
            rep.evaluations += 1;
            rep.violation("C17:setup-failed", &format!("daemon with {n} queues and masks {:x?} could not be configured: {e} (panics {:?})", masks, take_panics()), case(0));
            return;
        }
    };
    // histories after which the registrations have been revisited for rings that are running
    let r = match hist {
        0 => Ok(true),
        // enabling message repeated: SET_FEATURES without PROTOCOL_FEATURES enables all rings again
        1 => h.ack(SET_FEATURES, &p_u64(0x3), &[]),
        // twice
        2 => h.ack(SET_FEATURES, &p_u64(0x3), &[]).and_then(|_| h.ack(SET_FEATURES, &p_u64(0x1), &[])),
        // ring sizes set again on running rings (same values)
        _ => (0..n).try_fold(true, |_, q| h.ack(SET_VRING_NUM, &p_vring_state(q as u32, size_of_queue(q) as u32), &[])),
    };
    if let Err(e) = r {
        rep.evaluations += 1;
        rep.violation("C17:history-failed", &format!("history {hist} failed: {e}"), case(0));
        return;
    }
    for q in 0..n {
        let ow = owners(q);
        if ow.len() < 2 {
            continue;
        }
        let t = ow[0];
        let ev = (masks[t] & ((1u64 << q) - 1)).count_ones() as u16;
        let good = |x: &Dispatch| x.thread == t && x.event == ev && x.ring_size == Some(size_of_queue(q));
        if h.probe_all().is_err() {
            rep.evaluations += 1;
            rep.violation("C17:worker-stuck-or-dead", "barrier before the busy-owner step", case(q));
            return;
        }
        h.be.take_dispatches();
        h.be.sh.0.lock().unwrap().actions.push_back(Action::Hold);
        kick(&fds[q]);
        rep.evaluations += 1;
        rep.transitions += 1;
        let held = wait_shared(&h, 6, |s| s.held.is_some());
        let who = h.be.sh.0.lock().unwrap().held;
        if !held || who != Some(t) {
            let d = h.be.dispatches();
            h.be.sh.0.lock().unwrap().release = true;
            h.be.sh.1.notify_all();
            rep.outcome("misrouted");
            rep.violation(if held { "C17:routing:wrong-worker" } else { "C17:routing:not-dispatched" }, &format!("queues={n} masks={:x?} history {hist}: kick on queue {q} expected on thread {t}, handler entered by {:?}; dispatches {:?}", masks, who, d), case(q));
            let _ = wait_shared(&h, 6, |s| s.held.is_none());
            return;
        }
        // the owner is busy: second kick, barrier on everybody else
        kick(&fds[q]);
        let mut failed = None;
        for t2 in 0..masks.len() {
            if t2 != t {
                if let Err(e) = h.probe(t2) {
                    failed = Some(e);
                    break;
                }
            }
        }
        let d = h.be.take_dispatches();
        h.be.sh.0.lock().unwrap().release = true;
        h.be.sh.1.notify_all();
        let _ = wait_shared(&h, 6, |s| s.held.is_none());
        if let Some(e) = failed {
            rep.violation("C17:worker-stuck-or-dead", &e, case(q));
            return;
        }
        let stray: Vec<&Dispatch> = d.iter().filter(|x| x.thread != t).collect();
        if !stray.is_empty() {
            rep.outcome("misrouted");
            rep.violation("C17:routing:wrong-worker-while-owner-busy", &format!("queues={n} masks={:x?} history {hist}: queue {q} belongs to worker {t} (busy in its handler); a second kick was handled by {:?}", masks, stray), case(q));
            continue;
        }
        if let Err(e) = h.probe_all() {
            rep.violation("C17:worker-stuck-or-dead", &e, case(q));
            return;
        }
        let d2 = h.be.take_dispatches();
        if !d2.is_empty() && d2.iter().all(good) {
            rep.outcome("second-kick-waited-for-its-owner");
            rep.nontrivial_key(&format!("busy/{n}/{masks:x?}/{hist}/{q}"));
        } else {
            rep.outcome("misrouted");
            rep.violation("C17:routing:second-kick", &format!("queues={n} masks={:x?} history {hist}: the kick sent while worker {t} was busy was expected on (thread {t}, event {ev}) after the release, observed {:?}", masks, d2), case(q));
        }
    }
}

fn listeners(rep: &mut Report, n: usize, masks: &[u64], ids: &[u64]) {
    listeners_with(rep, n, masks, ids, EventSet::IN);
    // a listener may be registered for any event set: one that becomes ready without EPOLLIN (a
    // writable descriptor, one shot) must be delivered with its id just the same
    let valid: Vec<u64> = ids.iter().cloned().filter(|id| *id > n as u64 && *id <= u16::MAX as u64).collect();
    listeners_with(rep, n, masks, &valid, EventSet::OUT | EventSet::ONE_SHOT);
}

fn listeners_with(rep: &mut Report, n: usize, masks: &[u64], ids: &[u64], evset: EventSet) {
    for &id in ids {
        let (h, fds) = match setup(n, masks) {
            Ok(x) => x,
            Err(e) => {
                rep.violation("C17:setup-failed", &e, json!({"check":"C17","part":"listeners"}));
                return;
            }
        };
        let case = json!({"check":"C17","part":"listener","queues":n,"masks":masks,"id":id,"event_set":format!("{evset:?}")});
        let hs = h.daemon.as_ref().unwrap().get_epoll_handlers();
        let lfd = eventfd(0, true);
        h.be.listeners.lock().unwrap().insert(id as u16, lfd.as_raw_fd());
        h.be.take_dispatches();
        let r = hs[0].register_listener(lfd.as_raw_fd(), evset, id);
        rep.evaluations += 1;
        rep.transitions += 1;
        let reserved = id <= n as u64;
        match r {
            Err(_) => {
                if reserved || id == h.be.probe_id() as u64 {
                    rep.outcome("listener-refused");
                    rep.nontrivial += 1;
                } else if id > u16::MAX as u64 {
                    // cannot be delivered with exactly this id: refusing is the only faithful option
                    rep.outcome("listener-refused-undeliverable");
                    rep.nontrivial += 1;
                } else {
                    rep.violation("C17:listener:valid-id-refused", &format!("id {id} (> num_queues={n}) refused"), case);
                }
            }
            Ok(()) => {
                if reserved {
                    rep.violation("C17:listener:reserved-id-accepted", &format!("id {id} <= num_queues={n} accepted"), case);
                    let _ = hs[0].unregister_listener(lfd.as_raw_fd(), evset, id);
                    continue;
                }
                if evset.contains(EventSet::IN) {
                    h.be.take_dispatches();
                    kick(&lfd);
                }
                let pr = h.probe(0);
                let d = h.be.take_dispatches();
                // stop a possible level-triggered spin before judging
                let _ = hs[0].unregister_listener(lfd.as_raw_fd(), evset, id);
                let exact: Vec<_> = d.iter().filter(|x| x.event as u64 == id && x.thread == 0).collect();
                if pr.is_err() {
                    rep.outcome("listener-killed-worker");
                    rep.violation("C17:listener:worker-lost", &format!("after an event on listener id {id} the worker no longer answers: {:?}", pr.err()), case);
                } else if exact.len() >= 1 && exact.len() == d.len() {
                    rep.outcome("listener-delivered");
                    rep.nontrivial += 1;
                } else {
                    rep.outcome("listener-confused");
                    rep.violation(
                        if id > u16::MAX as u64 { "C17:listener:id-above-65535-accepted-and-truncated" } else { "C17:listener:not-delivered-with-its-id" },
                        &format!("listener registered with id {id:#x}: dispatches observed {:?} (expected exactly one with event id {id:#x} on thread 0, or the registration to be refused)", d),
                        case,
                    );
                }
                // queues still work afterwards
                h.be.take_dispatches();
                kick(&fds[0]);
                let _ = h.probe_all();
            }
        }
    }
}

fn all_configs(n: usize, max_workers: usize, extra_bits: bool) -> Vec<Vec<u64>> {
    let mut pool: Vec<u64> = (1..(1u64 << n)).collect();
    if extra_bits {
        pool.extend((1..(1u64 << n)).filter(|m| m.count_ones() <= 2).map(|m| m | 1 << n | 1 << 40));
    }
    let mut out = Vec::new();
    for a in &pool {
        out.push(vec![*a]);
    }
    if max_workers >= 2 {
        for a in &pool {
            for b in &pool {
                out.push(vec![*a, *b]);
            }
        }
    }
    if max_workers >= 3 {
        for a in &pool {
            for b in &pool {
                for c in &pool {
                    out.push(vec![*a, *b, *c]);
                }
            }
        }
    }
    out
}

pub fn run(rep: &mut Report) {
    let thorough = rep.is_thorough();
    let start = std::time::Instant::now();
    let budget = if thorough { 1800.0 } else { 120.0 };
    let mut configs = 0u64;
    rep.exhaustive = true;
    'outer: for n in 1..=(if thorough { 6 } else { 4 }) {
        // thorough: every assignment of up to 5 queues to up to 3 workers, of 6 queues to up to 2
        let workers = if thorough { if n <= 5 { 3 } else { 2 } } else if n <= 3 { 3 } else { 2 };
        let mut cfgs = all_configs(n, workers, n <= 3);
        if !thorough && n == 4 {
            // pairs at n = 4: keep masks with distinct or overlapping structure
            cfgs.retain(|m| m.len() == 1 || (m[0] | m[1]) == 0b1111 || m[0] & m[1] != 0 && (m[0] + m[1]) % 3 == 0);
        }
        for masks in cfgs {
            if start.elapsed().as_secs_f64() > budget {
                rep.caps.push(format!("wall budget {budget}s hit at n={n} after {configs} configurations"));
                break 'outer;
            }
            routing(rep, n, &masks);
            configs += 1;
            if n <= (if thorough { 4 } else { 3 }) {
                for hist in 0..(if thorough { 4u8 } else { 2 }) {
                    busy_owner(rep, n, &masks, hist);
                }
            }
        }
    }
    let ids: Vec<u64> = vec![0, 1, 2, 3, 4, 5, 255, 256, 65534, 65535, 65536, 65537, 65538, (1 << 32) + 1, (1 << 32) + 5, u64::MAX, (1 << 16) + 65535];
    listeners(rep, 2, &[0b11], &ids);
    listeners(rep, 3, &[0b001, 0b110], &ids);
    let p = take_panics();
    if !p.is_empty() {
        rep.violation("C17:panic", &format!("library thread panicked: {:?}", p), json!({"check":"C17","panics":p}));
    }
    rep.states = rep.outcomes.len() as u64;
    rep.traces = rep.evaluations;
    rep.extra.insert("configurations".into(), json!(configs));
    rep.sample(json!({"queues":3,"masks":["0b101","0b010"],"kicked":2,"expect":{"thread":0,"event":1,"ring_size":8}}));
    rep.sample(json!({"queues":2,"masks":["0b11"],"listener_id":65537,"expect":"refused, or delivered with exactly id 65537"}));
    rep.rule = "all assignments of n queues to worker masks drawn from all non-empty subsets of n bits (plus masks with bits beyond n for n<=3): 1..=3 workers for n<=3, 1..=2 for n=4 (a structured subset of the pairs at quick); thorough: 1..=3 workers for every n<=5 and 1..=2 workers for n=6; every ring started and enabled with a distinct size, every queue kicked once, barrier on every worker; custom listener ids {0..5, 255, 256, 65535, 65536, 65537, 65538, 2^32+1, 2^32+5, 2^64-1} on two configurations, registered for readability and (valid ids) for one-shot writability; for n<=3 (thorough: 4) and every configuration with a queue in more than one mask: after each of 2 message histories at quick (none, enabling message repeated) and 4 at thorough (also: repeated twice, ring sizes set again) the owner of such a queue is held inside its handler, the queue kicked again, and no other worker may handle it before the owner is released (deterministic 'owner busy' schedule, barrier on the other workers). Non-trivial = kicks whose (thread id, event id, vrings[event id] identity) were verified, listeners delivered with their exact id or refused".into();
    rep.assumptions.push("rings are distinguished by their configured size (2 << q)".into());
}

pub fn replay(case: &Value, rep: &mut Report) {
    let n = case["queues"].as_u64().unwrap_or(2) as usize;
    let masks: Vec<u64> = case["masks"].as_array().map(|a| a.iter().filter_map(|x| x.as_u64()).collect()).unwrap_or_else(|| vec![0b11]);
    println!("replay C17: queues={n} masks={:x?}", masks);
    if case["part"] == "listener" {
        listeners(rep, n, &masks, &[case["id"].as_u64().unwrap_or(0)]);
    } else {
        routing(rep, n, &masks);
    }
}
