//! C05: no frontend input can crash the backend or reach the handler unvalidated.
//! Part (i): deviation-bounded (0,1,2) mutation of every well-formed request fed to the real
//! `BackendReqHandler` by a raw peer; part (ii): adversarial well-typed sequences against a real
//! `VhostUserDaemon` (see `daemon_part`).

use crate::feops::Resources;
use crate::model::validators as refv;
use crate::recorder::{Call, Recorder};
use crate::report::{Acc, Report};
use crate::spec::*;
use crate::sysshim::coop;
use crate::wirereq::*;
use serde_json::{json, Value};
use std::os::unix::io::{AsRawFd, RawFd};
use std::panic::{catch_unwind, AssertUnwindSafe};

#[derive(Clone, Debug)]
pub enum Dev {
    Code(u32),
    FlipFlag(u32),
    Size(u32),
    SizeDelta(i32),
    Body64(usize, u64),
    Body32(usize, u32),
    Trunc(usize),
    Extend(usize),
    /// number of descriptors attached (to the first byte)
    Fds(usize),
    /// descriptors attached to the body segment instead of the header
    FdsOnBody(usize),
}

impl Dev {
    fn dim(&self) -> u32 {
        match self {
            Dev::Code(_) => 0,
            Dev::FlipFlag(_) => 1,
            Dev::Size(_) | Dev::SizeDelta(_) => 2,
            Dev::Trunc(_) | Dev::Extend(_) => 3,
            Dev::Fds(_) | Dev::FdsOnBody(_) => 4,
            Dev::Body64(o, _) => 100 + *o as u32,
            Dev::Body32(o, _) => 1000 + *o as u32,
        }
    }
}

#[derive(Clone, Debug)]
pub struct Case {
    pub req: usize,
    pub devs: Vec<Dev>,
    /// 0 = nothing negotiated, 1 = everything negotiated, 2 = everything + a preceding state-changing message
    pub state: u8,
    pub prefix: usize,
}

struct Built {
    code: u32,
    flags: u32,
    size: u32,
    body: Vec<u8>,
    nfds: usize,
    fds_on_body: bool,
}

fn build(req: &WireReq, devs: &[Dev]) -> Built {
    let mut b = Built { code: req.code, flags: F_VERSION | F_NEED_REPLY, size: req.payload.len() as u32, body: req.payload.clone(), nfds: req.fds.len(), fds_on_body: false };
    for d in devs {
        match d {
            Dev::Code(c) => b.code = *c,
            Dev::FlipFlag(k) => b.flags ^= 1 << k,
            Dev::Size(s) => b.size = *s,
            Dev::SizeDelta(x) => b.size = (b.size as i64 + *x as i64).max(0) as u32,
            Dev::Body64(o, v) => {
                if b.body.len() >= o + 8 {
                    b.body[*o..o + 8].copy_from_slice(&v.to_ne_bytes());
                }
            }
            Dev::Body32(o, v) => {
                if b.body.len() >= o + 4 {
                    b.body[*o..o + 4].copy_from_slice(&v.to_ne_bytes());
                }
            }
            Dev::Trunc(n) => {
                let l = b.body.len().saturating_sub(*n);
                b.body.truncate(l);
                b.size = b.size.min(l as u32).max(if *n == usize::MAX { 0 } else { b.size.min(l as u32) });
            }
            Dev::Extend(n) => b.body.extend(std::iter::repeat(0xa5).take(*n)),
            Dev::Fds(n) => b.nfds = *n,
            Dev::FdsOnBody(n) => {
                b.nfds = *n;
                b.fds_on_body = true;
            }
        }
    }
    b
}

/// Independent validity predicate for what the handler may be shown (property statement).
pub fn call_valid(c: &Call) -> Result<(), String> {
    let a = &c.a;
    let need_files = |n: usize| if c.files.len() == n { Ok(()) } else { Err(format!("{} file(s) delivered, {n} prescribed", c.files.len())) };
    match c.op {
        "set_mem_table" => {
            let n = a[0] as usize;
            if !(1..=32).contains(&n) {
                return Err(format!("{n} regions"));
            }
            for i in 0..n {
                let r = &a[1 + 4 * i..5 + 4 * i];
                if !refv::region_valid(r[0], r[1], r[2], r[3]) {
                    return Err(format!("region {i} invalid: {:x?}", r));
                }
            }
            need_files(n)
        }
        "add_mem_region" => {
            if !refv::region_valid(a[0], a[1], a[2], a[3]) {
                return Err(format!("region invalid: {:x?}", a));
            }
            need_files(1)
        }
        "remove_mem_region" => {
            if !refv::region_valid(a[0], a[1], a[2], a[3]) {
                return Err(format!("region invalid: {:x?}", a));
            }
            need_files(0)
        }
        "set_vring_addr" => {
            if !refv::vring_addr_valid(a[1] as u32, a[2], a[3], a[4]) {
                return Err(format!("ring addresses/flags invalid: {:x?}", a));
            }
            need_files(0)
        }
        "get_config" => {
            if !refv::config_valid(a[0] as u32, a[1] as u32, a[2] as u32) {
                return Err(format!("config window invalid: {:x?}", a));
            }
            need_files(0)
        }
        "set_config" => {
            if !refv::config_valid(a[0] as u32, c.bytes.len() as u32, a[1] as u32) {
                return Err(format!("config window invalid: offset {:#x} len {} flags {:#x}", a[0], c.bytes.len(), a[1]));
            }
            need_files(0)
        }
        "set_vring_enable" => {
            if a[1] > 1 {
                return Err("enable not in {0,1}".into());
            }
            need_files(0)
        }
        "set_vring_kick" | "set_vring_call" | "set_vring_err" => {
            if c.files.len() > 1 {
                Err("more than one file".into())
            } else {
                Ok(())
            }
        }
        "set_log_base" => {
            if !refv::log_valid(a[0], a[1]) {
                return Err(format!("log window invalid: {:x?}", a));
            }
            need_files(1)
        }
        "set_inflight_fd" => {
            if a[2] == 0 || a[3] == 0 {
                return Err("zero queue count/size".into());
            }
            need_files(1)
        }
        "get_inflight_fd" => {
            if a[2] == 0 || a[3] == 0 {
                return Err("zero queue count/size".into());
            }
            need_files(0)
        }
        "get_shared_object" => {
            if !refv::uuid_bytes_valid(&c.bytes) {
                return Err("nil/max uuid".into());
            }
            need_files(0)
        }
        "set_device_state_fd" => {
            if a[0] > 1 || a[1] != 0 {
                return Err("direction/phase".into());
            }
            need_files(1)
        }
        _ => need_files(0),
    }
}

fn lattice64(level: u8) -> Vec<u64> {
    let mut v = vec![0u64, 1, 0xfff, 0x1000, 0x1001, 1 << 31, u32::MAX as u64, 1 << 32, 1 << 63, u64::MAX - 0xfff, u64::MAX - 0x7ff, u64::MAX - 1, u64::MAX, 3, 0x100, 0x101];
    if level > 0 {
        v.extend([2, 4, 7, 8, 15, 16, 17, (1 << 63) - 1, (1 << 63) + 1, u64::MAX - 0x1000, 0x8000, 0x8001, 33, 32]);
    }
    v
}

fn deviations(req: &WireReq, level: u8) -> Vec<Dev> {
    let n = req.payload.len();
    let mut v = Vec::new();
    let mut codes: Vec<u32> = (0..=64).collect();
    for k in 7..32 {
        codes.extend([(1u32 << k) - 1, 1 << k, (1 << k) + 1]);
    }
    codes.push(u32::MAX);
    if level == 0 {
        codes.retain(|c| *c <= 46 || *c == 64 || *c == 255 || *c == 256 || *c == u32::MAX || *c == 1 << 31);
    }
    for c in codes {
        v.push(Dev::Code(c));
    }
    for k in [0u32, 1, 2, 3, 4, 5, 31] {
        v.push(Dev::FlipFlag(k));
    }
    v.extend([Dev::Size(0), Dev::SizeDelta(-1), Dev::SizeDelta(1), Dev::Size(4095), Dev::Size(4096), Dev::Size(4097), Dev::Size(1 << 31), Dev::Size(u32::MAX)]);
    let l64 = lattice64(level);
    let mut o = 0;
    while o + 8 <= n && o < 48 {
        for x in &l64 {
            v.push(Dev::Body64(o, *x));
        }
        o += 8;
    }
    let mut o = 0;
    while o + 4 <= n && o < 16 {
        for x in [0u32, 1, 2, 32, 33, 0xff, 0x100, 0x101, 0xfff, 0x1000, 0x1001, u32::MAX] {
            v.push(Dev::Body32(o, x));
        }
        o += 4;
    }
    if n > 0 {
        v.extend([Dev::Trunc(1), Dev::Trunc(8), Dev::Trunc(n)]);
    }
    v.extend([Dev::Extend(1), Dev::Extend(16)]);
    let nf = req.fds.len();
    for k in [0usize, 1, 2, nf.saturating_sub(1), nf + 1, 32, 33, 40] {
        if k != nf {
            v.push(Dev::Fds(k));
        }
    }
    for k in [1usize, 2, 33] {
        v.push(Dev::FdsOnBody(k));
    }
    v
}

fn run_case(reqs: &[WireReq], prefixes: &[WireReq], c: &Case, res: &Resources, extra_fds: &[RawFd], acc: &mut Acc, idx: usize) {
    let req = &reqs[c.req];
    if idx % 16 == 0 || true {
        crate::crash::set_case(&format!("{{\"property\":\"C05\",\"signature\":\"C05:process-killed-by-signal\",\"what\":\"the process died while the backend server handled this message\",\"case\":{{\"check\":\"C05\",\"req\":\"{}\",\"devs\":\"{:?}\",\"state\":{}}}}}", req.name(), c.devs, c.state).replace('\n', " "));
    }
    let b = build(req, &c.devs);
    let mut rec = Recorder::new();
    rec.script.features = VIRTIO_F_PROTOCOL_FEATURES | 3;
    rec.script.proto = PF_ALL_DEFINED;
    rec.ret_file = Some(res.ret.try_clone().unwrap());
    let s = RawSession::new(rec);
    if c.state >= 1 {
        s.negotiate(VIRTIO_F_PROTOCOL_FEATURES | 3, PF_ALL_DEFINED);
    }
    if c.state == 2 {
        let p = &prefixes[c.prefix];
        let _ = s.roundtrip(&p.bytes(F_VERSION), &p.raw_fds(res));
        s.server.rec.lock().unwrap().log.clear();
    }
    let mut fds: Vec<RawFd> = req.raw_fds(res);
    fds.truncate(b.nfds);
    let mut i = 0;
    while fds.len() < b.nfds {
        fds.push(extra_fds[i % extra_fds.len()]);
        i += 1;
    }
    let hdr = header(b.code, b.flags, b.size);
    if b.fds_on_body && !b.body.is_empty() {
        s.queue_segments(&hdr, &[], &[]);
        s.queue_segments(&b.body, &fds, &[]);
    } else {
        let mut all = hdr.to_vec();
        all.extend_from_slice(&b.body);
        s.queue_segments(&all, &fds, &[]);
    }
    s.eof_when_empty.set(true);
    let h = s.server.h.clone();
    let r = catch_unwind(AssertUnwindSafe(|| h.borrow_mut().handle_request()));
    let _ = coop::take_hangs();
    acc.evaluations += 1;
    acc.transitions += 1;
    let case = || json!({"check":"C05","part":"bytes","req":req.name(),"devs":format!("{:?}", c.devs),"state":c.state,"prefix": if c.state == 2 { prefixes[c.prefix].name() } else { String::new() }});
    let log = s.server.rec.lock().unwrap().log.clone();
    match r {
        Err(p) => {
            let msg = p.downcast_ref::<String>().cloned().or_else(|| p.downcast_ref::<&str>().map(|s| s.to_string())).unwrap_or_default();
            acc.outcome("panic");
            acc.violation(&format!("C05:server:panic:{}", frontend_req_name(b.code)), &format!("handle_request panicked ({msg}) on {} with {:?}", req.name(), c.devs), case());
        }
        Ok(res) => {
            acc.outcome(match (&res, log.is_empty()) {
                (Ok(()), true) => "ok-no-handler",
                (Ok(()), false) => "ok-dispatched",
                (Err(_), true) => "rejected",
                (Err(_), false) => "dispatched-then-error",
            });
            if log.len() > 1 {
                acc.violation("C05:server:multiple-handler-calls", &format!("{} handler calls for one message", log.len()), case());
            }
            // "exactly the number of files the request prescribes": the descriptors attached to the
            // message (all on its first byte, at most what one receive can take) against what the
            // accepted request prescribes - a message accepted while some of its descriptors were
            // silently dropped carried a number of files other than the prescribed one
            let single_segment = !(b.fds_on_body && !b.body.is_empty());
            if single_segment && b.nfds <= 32 && log.len() == 1 {
                let call = &log[0];
                let prescribed = match call.op {
                    "set_backend_req_fd" | "set_gpu_socket" => 1,
                    _ => call.files.len(),
                };
                if b.nfds != prescribed {
                    acc.outcome("accepted-with-wrong-file-count");
                    acc.violation(&format!("C05:server:file-count:{}", call.op), &format!("handler {} invoked for a message carrying {} descriptor(s) where the accepted request prescribes {prescribed}; message {} mutated by {:?}", call.op, b.nfds, req.name(), c.devs), case());
                }
            }
            for call in &log {
                match call_valid(call) {
                    Ok(()) => {
                        if !c.devs.is_empty() {
                            acc.nontrivial += 1;
                        }
                    }
                    Err(why) => {
                        acc.outcome("handler-saw-invalid-arguments");
                        acc.violation(&format!("C05:server:unvalidated:{}", call.op), &format!("handler {} invoked with arguments violating the protocol's validity rules ({why}); message {} mutated by {:?}", call.op, req.name(), c.devs), case());
                    }
                }
            }
            if log.is_empty() && !c.devs.is_empty() {
                acc.nontrivial += 1;
            }
        }
    }
}

pub fn cases(reqs: &[WireReq], n_prefix: usize, level: u8) -> Vec<Case> {
    let mut v = Vec::new();
    for (ri, req) in reqs.iter().enumerate() {
        let devs = deviations(req, level);
        for state in [0u8, 1] {
            v.push(Case { req: ri, devs: vec![], state, prefix: 0 });
            for d in &devs {
                v.push(Case { req: ri, devs: vec![d.clone()], state, prefix: 0 });
            }
        }
        // pairs of deviations on different dimensions, everything negotiated
        let pool: Vec<&Dev> = if level > 0 { devs.iter().collect() } else { devs.iter().filter(|d| !matches!(d, Dev::Code(c) if *c > 2 && *c != 44 && *c != 45)).collect() };
        for i in 0..pool.len() {
            for j in i + 1..pool.len() {
                if pool[i].dim() == pool[j].dim() {
                    continue;
                }
                if level == 0 && (i + j) % 3 != 0 && !matches!((pool[i], pool[j]), (Dev::Size(_) | Dev::SizeDelta(_), _) | (_, Dev::Fds(_) | Dev::FdsOnBody(_))) {
                    continue;
                }
                v.push(Case { req: ri, devs: vec![pool[i].clone(), pool[j].clone()], state: 1, prefix: 0 });
            }
        }
        // as the second message after each state-changing message (single deviations on body/size/fds)
        for p in 0..n_prefix {
            for d in devs.iter().filter(|d| !matches!(d, Dev::Code(_))) {
                if level == 0 && !matches!(d, Dev::Size(_) | Dev::SizeDelta(_) | Dev::Fds(_) | Dev::Trunc(_) | Dev::Body64(0 | 8, _)) {
                    continue;
                }
                v.push(Case { req: ri, devs: vec![d.clone()], state: 2, prefix: p });
            }
        }
    }
    v
}

fn prefixes() -> Vec<WireReq> {
    wellformed().into_iter().filter(|r| matches!(r.code, SET_MEM_TABLE | SET_FEATURES | SET_PROTOCOL_FEATURES | SET_VRING_KICK | ADD_MEM_REG | SET_BACKEND_REQ_FD | RESET_OWNER)).collect()
}

pub fn run(rep: &mut Report) {
    let level = if rep.is_thorough() { 1 } else { 0 };
    crate::crash::install("C05");
    let reqs = wellformed();
    let pre = prefixes();
    let all = cases(&reqs, pre.len(), level);
    let threads = 16usize;
    let chunk = all.len().div_ceil(threads);
    let accs: Vec<Acc> = std::thread::scope(|sc| {
        let mut hs = Vec::new();
        for (t, part) in all.chunks(chunk).enumerate() {
            let reqs = &reqs;
            let pre = &pre;
            hs.push(sc.spawn(move || {
                coop::enable();
                let res = Resources::new();
                let extra: Vec<std::os::unix::io::OwnedFd> = (0..4).map(|i| crate::rawpeer::memfd(&format!("x{i}"), 0x1000)).collect();
                let extra_fds: Vec<RawFd> = extra.iter().map(|f| f.as_raw_fd()).collect();
                let mut acc = Acc::default();
                for (i, c) in part.iter().enumerate() {
                    run_case(reqs, pre, c, &res, &extra_fds, &mut acc, t * chunk + i);
                }
                coop::disable();
                acc
            }));
        }
        hs.into_iter().map(|h| h.join().expect("worker thread")).collect()
    });
    for a in accs {
        a.merge_into(rep);
    }
    daemon_part::run(rep, level > 0);
    rep.states = rep.outcomes.len() as u64;
    rep.traces = rep.evaluations;
    rep.exhaustive = rep.caps.is_empty();
    rep.extra.insert("request_types".into(), json!(reqs.len()));
    rep.extra.insert("cases".into(), json!(all.len()));
    for k in [10usize, all.len() / 3, all.len() / 2, all.len() - 7] {
        let c = &all[k];
        rep.sample(json!({"req": reqs[c.req].name(), "deviations": format!("{:?}", c.devs), "state": c.state}));
    }
    rep.rule = "part (i): for a well-formed instance of every request code 1..=44: the message itself, every single deviation from {request code 0..=64 and 2^k neighbours, each flag bit, size field in {0,n-1,n+1,4095,4096,4097,2^31,2^32-1}, every 64-/32-bit body field over the boundary lattice, truncated/extended body, descriptor count in {0,1,2,n-1,n+1,32,33,40}, descriptors attached to the body segment}, pairs of deviations on different dimensions, in two negotiation states (nothing / everything) and as the second message after each state-changing message. Part (ii): every sequence of length 1 and 2, and the length-3 sequences (memory-table message, ring-address / log / kick message, third message) over ~110 well-typed control messages with adversarial 64-bit fields (user / guest ranges ending just below 2^64, huge sizes and offsets, ring addresses at region edges +-16, ring indexes 0,1,2,255,2^32-1, sizes and bases up to 2^32-1, log windows of 1 byte / 2^62 bytes / unaligned / beyond the file) plus 'guest kick + add_used in the backend', against a running daemon with the dirty-log bitmap; no thread may panic or die. Non-trivial = deviating messages that were rejected without a handler call or dispatched with arguments satisfying the independent validity predicate, and daemon sequences that were survived".into();
    rep.assumptions.push("harness built with overflow-checks and debug-assertions so arithmetic overflow in library code panics; fatal signals are caught by a handler that reports the current case".into());
    rep.assumptions.push("part (i): streams longer than two messages and more than two simultaneous deviations are outside the bound; part (ii): sequences longer than 3 messages".into());
}

pub fn replay(case: &Value, rep: &mut Report) {
    println!("replay C05 by re-running the quick enumeration; case: {case}");
    run(rep);
}

// ------------------------------------------------------------------------------------------------
// part (ii): adversarial well-typed sequences against a running daemon

mod daemon_part {
    use crate::daemonh::*;
    use crate::rawpeer::{eventfd, memfd};
    use crate::report::Report;
    use crate::spec::*;
    use serde_json::json;
    use std::os::unix::io::{AsRawFd, OwnedFd};
    use vhost_user_backend::bitmap::BitmapMmapRegion;
    use vhost_user_backend::VringRwLock;

    type H = DaemonH<VringRwLock<GM<BitmapMmapRegion>>, BitmapMmapRegion>;
    const PROTO: u64 = PF_REPLY_ACK | PF_LOG_SHMFD | PF_CONFIGURE_MEM_SLOTS | PF_MQ | PF_RESET_DEVICE;
    const VIRTIO: u64 = VIRTIO_F_PROTOCOL_FEATURES | VIRTIO_F_LOG_ALL | 0x3;

    #[derive(Clone, Debug)]
    pub enum M {
        /// code, payload, descriptor kind (0 none, 1 memfd, 2 eventfd)
        Msg(&'static str, u32, Vec<u8>, u8),
        /// guest kick on ring 0's descriptor followed by a ring operation in the backend
        KickAndUse,
    }

    const UA: u64 = 0x7f00_0000_0000;
    const UZ: u64 = u64::MAX - 0x1fff; // user range ending at 2^64 - 0x1000

    pub fn alphabet() -> Vec<M> {
        let ra = Region { gpa: 0, size: 0x4000, user: UA, offset: 0 };
        let rz = Region { gpa: 0x10_0000, size: 0x1000, user: UZ, offset: 0x4000 };
        let rg = Region { gpa: u64::MAX - 0x1fff, size: 0x1000, user: 0x7f10_0000_0000, offset: 0x5000 };
        let rbig = Region { gpa: 0x20_0000, size: 0x7fff_ffff_f000, user: 0x10_0000, offset: 0 };
        let roff = Region { gpa: 0x30_0000, size: 0x1000, user: 0x7f20_0000_0000, offset: u64::MAX - 0x1fff };
        let mut v = vec![
            M::Msg("SET_MEM_TABLE[A]", SET_MEM_TABLE, p_mem_table(&[ra]), 1),
            M::Msg("SET_MEM_TABLE[A,user-near-2^64]", SET_MEM_TABLE, p_mem_table(&[ra, rz]), 1),
            M::Msg("SET_MEM_TABLE[gpa-near-2^64]", SET_MEM_TABLE, p_mem_table(&[rg]), 1),
            M::Msg("SET_MEM_TABLE[huge-size]", SET_MEM_TABLE, p_mem_table(&[rbig]), 1),
            M::Msg("SET_MEM_TABLE[huge-offset]", SET_MEM_TABLE, p_mem_table(&[roff]), 1),
            M::Msg("ADD_MEM_REG[user-near-2^64]", ADD_MEM_REG, p_single_region(&rz), 1),
            M::Msg("ADD_MEM_REG[gpa-near-2^64]", ADD_MEM_REG, p_single_region(&rg), 1),
            M::Msg("ADD_MEM_REG[eventfd]", ADD_MEM_REG, p_single_region(&Region { gpa: 0x40_0000, size: 0x1000, user: 0x7f30_0000_0000, offset: 0 }), 2),
            M::Msg("REM_MEM_REG[A]", REM_MEM_REG, p_single_region(&ra), 0),
            M::Msg("REM_MEM_REG[absent]", REM_MEM_REG, p_single_region(&rz), 0),
            M::Msg("SET_FEATURES[0]", SET_FEATURES, p_u64(0), 0),
            M::Msg("SET_FEATURES[all]", SET_FEATURES, p_u64(VIRTIO | (1 << 29)), 0),
            M::Msg("SET_FEATURES[!0]", SET_FEATURES, p_u64(u64::MAX), 0),
            M::Msg("SET_LOG_BASE[1 byte]", SET_LOG_BASE, p_log(1, 0), 1),
            M::Msg("SET_LOG_BASE[page]", SET_LOG_BASE, p_log(0x1000, 0x1000), 1),
            M::Msg("SET_LOG_BASE[huge]", SET_LOG_BASE, p_log(1 << 62, 0), 1),
            M::Msg("SET_LOG_BASE[unaligned-offset]", SET_LOG_BASE, p_log(0x1000, 0x801), 1),
            M::Msg("SET_LOG_BASE[offset-beyond-file]", SET_LOG_BASE, p_log(0x1000, 1 << 40), 1),
            M::Msg("RESET_DEVICE", RESET_DEVICE, vec![], 0),
            M::KickAndUse,
        ];
        for idx in [0u32, 1, 2, 255, u32::MAX] {
            for num in [0u32, 1, 256, 257, 65535, u32::MAX] {
                if idx > 1 && ![0, 256].contains(&num) {
                    continue;
                }
                v.push(M::Msg("SET_VRING_NUM", SET_VRING_NUM, p_vring_state(idx, num), 0));
                v.push(M::Msg("SET_VRING_BASE", SET_VRING_BASE, p_vring_state(idx, num), 0));
            }
            v.push(M::Msg("GET_VRING_BASE", GET_VRING_BASE, p_vring_state(idx, 0), 0));
            for en in [0u32, 1, 2] {
                v.push(M::Msg("SET_VRING_ENABLE", SET_VRING_ENABLE, p_vring_state(idx, en), 0));
            }
        }
        for idx in [0u64, 1, 2, 255] {
            v.push(M::Msg("SET_VRING_KICK", SET_VRING_KICK, p_u64(idx), 2));
            v.push(M::Msg("SET_VRING_KICK[nofd]", SET_VRING_KICK, p_u64(idx | 0x100), 0));
            v.push(M::Msg("SET_VRING_CALL", SET_VRING_CALL, p_u64(idx), 2));
            v.push(M::Msg("SET_VRING_ERR", SET_VRING_ERR, p_u64(idx), 2));
        }
        // ring addresses at region edges (+-16) of A and of the region near 2^64, and far away
        let edges: Vec<u64> = vec![UA, UA + 0x4000 - 16, UA + 0x4000, UA - 16, UZ, UZ + 0x1000 - 16, UZ + 0x1000, 0, u64::MAX & !0xf];
        for &d in &edges {
            for &a in &[UA + 0x100, UZ + 0x100] {
                v.push(M::Msg("SET_VRING_ADDR", SET_VRING_ADDR, p_vring_addr(0, 0, d, a, a, 0), 0));
                v.push(M::Msg("SET_VRING_ADDR", SET_VRING_ADDR, p_vring_addr(0, 1, a, d & !0x3, a, d), 0));
                v.push(M::Msg("SET_VRING_ADDR", SET_VRING_ADDR, p_vring_addr(1, 0, a, a, d & !0x1, 0), 0));
            }
        }
        v
    }

    struct Files {
        mem: OwnedFd,
        ev: OwnedFd,
    }

    fn apply(h: &mut H, m: &M, f: &Files, kick0: &mut Option<OwnedFd>) -> Result<bool, String> {
        match m {
            M::Msg(_, code, payload, fdk) => {
                let mut keep = None;
                let fds: Vec<i32> = match fdk {
                    1 => vec![f.mem.as_raw_fd(); if *code == SET_MEM_TABLE { rd32(payload, 0) as usize } else { 1 }],
                    2 => {
                        let e = eventfd(0, true);
                        let r = e.as_raw_fd();
                        keep = Some(e);
                        vec![r]
                    }
                    _ => vec![],
                };
                let out = h.req(*code, payload, &fds);
                if *code == SET_VRING_KICK && payload[0] == 0 && payload[1] == 0 {
                    *kick0 = keep;
                }
                match out {
                    ReqOut::Dead(e) => Err(e),
                    ReqOut::Closed => {
                        let _ = h.reconnect();
                        h.negotiate(VIRTIO, PROTO).map_err(|e| format!("renegotiation after a rejected request failed: {e}"))?;
                        Ok(false)
                    }
                    ReqOut::Msg(d, _) => {
                        // a failing acknowledged request also ends the session
                        if reply_kind(d.code) == ReplyKind::AckOnly && d.code != SET_LOG_BASE && d.size == 8 && rd64(&d.payload, 0) != 0 {
                            let _ = h.reconnect();
                            h.negotiate(VIRTIO, PROTO).map_err(|e| format!("renegotiation failed: {e}"))?;
                            return Ok(false);
                        }
                        Ok(true)
                    }
                }
            }
            M::KickAndUse => {
                if let Some(k) = kick0 {
                    h.be.sh.0.lock().unwrap().actions.push_back(Action::AddUsedSignal(0, 8));
                    let one: u64 = 1;
                    // SAFETY: write to our own eventfd.
                    unsafe { libc::write(k.as_raw_fd(), &one as *const u64 as *const libc::c_void, 8) };
                }
                h.probe(0).map(|_| ()).map_err(|e| format!("worker: {e}"))?;
                h.be.sh.0.lock().unwrap().actions.clear();
                Ok(kick0.is_some())
            }
        }
    }

    pub fn run(rep: &mut Report, thorough: bool) {
        install_panic_watch();
        let ops = alphabet();
        let n = ops.len();
        let mut seqs: Vec<Vec<usize>> = Vec::new();
        for a in 0..n {
            seqs.push(vec![a]);
            for b in 0..n {
                seqs.push(vec![a, b]);
            }
        }
        // length 3: memory-table message, then a ring-address / log / ring-use message, then anything
        let firsts: Vec<usize> = (0..n).filter(|i| matches!(&ops[*i], M::Msg(l, ..) if l.starts_with("SET_MEM_TABLE") || l.starts_with("ADD_MEM_REG"))).collect();
        let seconds: Vec<usize> = (0..n).filter(|i| matches!(&ops[*i], M::Msg(l, ..) if l.starts_with("SET_VRING_ADDR") || l.starts_with("SET_LOG_BASE") || *l == "SET_VRING_KICK")).collect();
        let thirds: Vec<usize> = if thorough { (0..n).collect() } else { (0..n).filter(|i| matches!(&ops[*i], M::KickAndUse) || matches!(&ops[*i], M::Msg(l, ..) if l.starts_with("REM_MEM_REG") || l.starts_with("SET_MEM_TABLE") || *l == "GET_VRING_BASE")).collect() };
        for a in &firsts {
            for b in &seconds {
                for c in &thirds {
                    seqs.push(vec![*a, *b, *c]);
                }
            }
        }
        let start = std::time::Instant::now();
        let budget = if thorough { 3000.0 } else { 240.0 }; // safety net only: the enumeration is meant to complete
        let mut done = 0u64;
        let mut accepted = vec![0u64; n];
        let mut rejected = vec![0u64; n];
        for seq in &seqs {
            if start.elapsed().as_secs_f64() > budget {
                rep.caps.push(format!("daemon part: wall budget {budget}s hit after {done} of {} sequences", seqs.len()));
                break;
            }
            let labels: Vec<String> = seq.iter().map(|i| match &ops[*i] { M::Msg(l, _, p, _) => format!("{l}{:02x?}", &p[..p.len().min(24)]), M::KickAndUse => "KICK+add_used".into() }).collect();
            crate::crash::set_case(&format!("{{\"property\":\"C05\",\"signature\":\"C05:process-killed-by-signal\",\"case\":{{\"check\":\"C05\",\"part\":\"daemon\",\"sequence\":{:?}}}}}", labels));
            let cfg = Cfg { features: VIRTIO | (1 << 29), ..Default::default() };
            let mut h = H::new(cfg);
            if let Err(e) = h.negotiate(VIRTIO, PROTO) {
                rep.violation("C05:daemon:negotiation", &e, json!({"check":"C05","part":"daemon"}));
                continue;
            }
            let f = Files { mem: memfd("c05", 0x8000), ev: eventfd(0, true) };
            let _ = &f.ev;
            let mut kick0 = None;
            let mut bad: Option<String> = None;
            let mut pat = String::new();
            for i in seq {
                match apply(&mut h, &ops[*i], &f, &mut kick0) {
                    Ok(true) => {
                        pat.push('a');
                        accepted[*i] += 1;
                    }
                    Ok(false) => {
                        pat.push('r');
                        rejected[*i] += 1;
                    }
                    Err(e) => {
                        bad = Some(e);
                        break;
                    }
                }
            }
            let panics = take_panics();
            rep.evaluations += 1;
            rep.transitions += seq.len() as u64;
            done += 1;
            if !panics.is_empty() || bad.is_some() {
                rep.outcome("daemon:panic-or-dead");
                let what = panics.first().cloned().or(bad).unwrap_or_default();
                let site = what.split(" at ").nth(1).map(|s| s.split(':').take(2).collect::<Vec<_>>().join(":")).unwrap_or_else(|| "no-panic-recorded".into());
                rep.violation(&format!("C05:daemon:thread-died:{site}"), &format!("sequence {:?}: {what}", labels), json!({"check":"C05","part":"daemon","sequence":labels}));
            } else {
                rep.outcome(&format!("daemon:survived:{pat}"));
                rep.nontrivial += 1;
            }
        }
        rep.extra.insert("daemon_sequences".into(), json!(done));
        rep.extra.insert("daemon_alphabet".into(), json!(n));
        rep.extra.insert("daemon_messages_always_rejected".into(), json!((0..n).filter(|i| accepted[*i] == 0).count()));
        rep.extra.insert("daemon_messages_always_accepted".into(), json!((0..n).filter(|i| rejected[*i] == 0).count()));
        let lab = |i: usize| match &ops[i] { M::Msg(l, _, p, _) => format!("{l} {:x?}", &p[..p.len().min(16)]), M::KickAndUse => "KICK".into() };
        rep.extra.insert("daemon_always_rejected_labels".into(), json!((0..n).filter(|i| accepted[*i] == 0).map(lab).collect::<Vec<_>>()));
        rep.extra.insert("daemon_messages_both".into(), json!((0..n).filter(|i| rejected[*i] > 0 && accepted[*i] > 0).count()));
    }
}
