//! C05: no frontend input can crash the backend or reach the handler unvalidated.
//! Part (i): deviation-bounded (0,1,2) mutation of every well-formed request fed to the real
//! `BackendReqHandler` by a raw peer; part (ii): adversarial well-typed sequences against a real
//! `VhostUserDaemon` (see `daemon_part`).

use crate::feops::Resources;
use crate::model::validators as refv;
use crate::recorder::{Call, Recorder};
use crate::report::{Acc, Report};
use crate::spec::*;
use crate::sysshim::coop;
use crate::wirereq::*;
use serde_json::{json, Value};
use std::os::unix::io::{AsRawFd, RawFd};
use std::panic::{catch_unwind, AssertUnwindSafe};

#[derive(Clone, Debug)]
pub enum Dev {
    Code(u32),
    FlipFlag(u32),
    Size(u32),
    SizeDelta(i32),
    Body64(usize, u64),
    Body32(usize, u32),
    Trunc(usize),
    Extend(usize),
    /// number of descriptors attached (to the first byte)
    Fds(usize),
    /// descriptors attached to the body segment instead of the header
    FdsOnBody(usize),
}

impl Dev {
    fn dim(&self) -> u32 {
        match self {
            Dev::Code(_) => 0,
            Dev::FlipFlag(_) => 1,
            Dev::Size(_) | Dev::SizeDelta(_) => 2,
            Dev::Trunc(_) | Dev::Extend(_) => 3,
            Dev::Fds(_) | Dev::FdsOnBody(_) => 4,
            Dev::Body64(o, _) => 100 + *o as u32,
            Dev::Body32(o, _) => 1000 + *o as u32,
        }
    }
}

#[derive(Clone, Debug)]
pub struct Case {
    pub req: usize,
    pub devs: Vec<Dev>,
    /// 0 = nothing negotiated, 1 = everything negotiated, 2 = everything + a preceding state-changing message
    pub state: u8,
    pub prefix: usize,
}

struct Built {
    code: u32,
    flags: u32,
    size: u32,
    body: Vec<u8>,
    nfds: usize,
    fds_on_body: bool,
}

fn build(req: &WireReq, devs: &[Dev]) -> Built {
    let mut b = Built { code: req.code, flags: F_VERSION | F_NEED_REPLY, size: req.payload.len() as u32, body: req.payload.clone(), nfds: req.fds.len(), fds_on_body: false };
    for d in devs {
        match d {
            Dev::Code(c) => b.code = *c,
            Dev::FlipFlag(k) => b.flags ^= 1 << k,
            Dev::Size(s) => b.size = *s,
            Dev::SizeDelta(x) => b.size = (b.size as i64 + *x as i64).max(0) as u32,
            Dev::Body64(o, v) => {
                if b.body.len() >= o + 8 {
                    b.body[*o..o + 8].copy_from_slice(&v.to_ne_bytes());
                }
            }
            Dev::Body32(o, v) => {
                if b.body.len() >= o + 4 {
                    b.body[*o..o + 4].copy_from_slice(&v.to_ne_bytes());
                }
            }
            Dev::Trunc(n) => {
                let l = b.body.len().saturating_sub(*n);
                b.body.truncate(l);
                b.size = b.size.min(l as u32).max(if *n == usize::MAX { 0 } else { b.size.min(l as u32) });
            }
            Dev::Extend(n) => b.body.extend(std::iter::repeat(0xa5).take(*n)),
            Dev::Fds(n) => b.nfds = *n,
            Dev::FdsOnBody(n) => {
                b.nfds = *n;
                b.fds_on_body = true;
            }
        }
    }
    b
}

/// Independent validity predicate for what the handler may be shown (property statement).
pub fn call_valid(c: &Call) -> Result<(), String> {
    let a = &c.a;
    let need_files = |n: usize| if c.files.len() == n { Ok(()) } else { Err(format!("{} file(s) delivered, {n} prescribed", c.files.len())) };
    match c.op {
        "set_mem_table" => {
            let n = a[0] as usize;
            if !(1..=32).contains(&n) {
                return Err(format!("{n} regions"));
            }
            for i in 0..n {
                let r = &a[1 + 4 * i..5 + 4 * i];
                if !refv::region_valid(r[0], r[1], r[2], r[3]) {
                    return Err(format!("region {i} invalid: {:x?}", r));
                }
            }
            need_files(n)
        }
        "add_mem_region" => {
            if !refv::region_valid(a[0], a[1], a[2], a[3]) {
                return Err(format!("region invalid: {:x?}", a));
            }
            need_files(1)
        }
        "remove_mem_region" => {
            if !refv::region_valid(a[0], a[1], a[2], a[3]) {
                return Err(format!("region invalid: {:x?}", a));
            }
            need_files(0)
        }
        "set_vring_addr" => {
            if !refv::vring_addr_valid(a[1] as u32, a[2], a[3], a[4]) {
                return Err(format!("ring addresses/flags invalid: {:x?}", a));
            }
            need_files(0)
        }
        "get_config" => {
            if !refv::config_valid(a[0] as u32, a[1] as u32, a[2] as u32) {
                return Err(format!("config window invalid: {:x?}", a));
            }
            need_files(0)
        }
        "set_config" => {
            if !refv::config_valid(a[0] as u32, c.bytes.len() as u32, a[1] as u32) {
                return Err(format!("config window invalid: offset {:#x} len {} flags {:#x}", a[0], c.bytes.len(), a[1]));
            }
            need_files(0)
        }
        "set_vring_enable" => {
            if a[1] > 1 {
                return Err("enable not in {0,1}".into());
            }
            need_files(0)
        }
        "set_vring_kick" | "set_vring_call" | "set_vring_err" => {
            if c.files.len() > 1 {
                Err("more than one file".into())
            } else {
                Ok(())
            }
        }
        "set_log_base" => {
            if !refv::log_valid(a[0], a[1]) {
                return Err(format!("log window invalid: {:x?}", a));
            }
            need_files(1)
        }
        "set_inflight_fd" => {
            if a[2] == 0 || a[3] == 0 {
                return Err("zero queue count/size".into());
            }
            need_files(1)
        }
        "get_inflight_fd" => {
            if a[2] == 0 || a[3] == 0 {
                return Err("zero queue count/size".into());
            }
            need_files(0)
        }
        "get_shared_object" => {
            if !refv::uuid_bytes_valid(&c.bytes) {
                return Err("nil/max uuid".into());
            }
            need_files(0)
        }
        "set_device_state_fd" => {
            if a[0] > 1 || a[1] != 0 {
                return Err("direction/phase".into());
            }
            need_files(1)
        }
        _ => need_files(0),
    }
}

fn lattice64(level: u8) -> Vec<u64> {
    let mut v = vec![0u64, 1, 0xfff, 0x1000, 0x1001, 1 << 31, u32::MAX as u64, 1 << 32, 1 << 63, u64::MAX - 0xfff, u64::MAX - 0x7ff, u64::MAX - 1, u64::MAX, 3, 0x100, 0x101];
    if level > 0 {
        v.extend([2, 4, 7, 8, 15, 16, 17, (1 << 63) - 1, (1 << 63) + 1, u64::MAX - 0x1000, 0x8000, 0x8001, 33, 32]);
    }
    v
}

fn deviations(req: &WireReq, level: u8) -> Vec<Dev> {
    let n = req.payload.len();
    let mut v = Vec::new();
    let mut codes: Vec<u32> = (0..=64).collect();
    for k in 7..32 {
        codes.extend([(1u32 << k) - 1, 1 << k, (1 << k) + 1]);
    }
    codes.push(u32::MAX);
    if level == 0 {
        codes.retain(|c| *c <= 46 || *c == 64 || *c == 255 || *c == 256 || *c == u32::MAX || *c == 1 << 31);
    }
    for c in codes {
        v.push(Dev::Code(c));
    }
    for k in [0u32, 1, 2, 3, 4, 5, 31] {
        v.push(Dev::FlipFlag(k));
    }
    v.extend([Dev::Size(0), Dev::SizeDelta(-1), Dev::SizeDelta(1), Dev::Size(4095), Dev::Size(4096), Dev::Size(4097), Dev::Size(1 << 31), Dev::Size(u32::MAX)]);
    let l64 = lattice64(level);
    let mut o = 0;
    while o + 8 <= n && o < 48 {
        for x in &l64 {
            v.push(Dev::Body64(o, *x));
        }
        o += 8;
    }
    let mut o = 0;
    while o + 4 <= n && o < 16 {
        for x in [0u32, 1, 2, 32, 33, 0xff, 0x100, 0x101, 0xfff, 0x1000, 0x1001, u32::MAX] {
            v.push(Dev::Body32(o, x));
        }
        o += 4;
    }
    if n > 0 {
        v.extend([Dev::Trunc(1), Dev::Trunc(8), Dev::Trunc(n)]);
    }
    v.extend([Dev::Extend(1), Dev::Extend(16)]);
    let nf = req.fds.len();
    for k in [0usize, 1, 2, nf.saturating_sub(1), nf + 1, 32, 33, 40] {
        if k != nf {
            v.push(Dev::Fds(k));
        }
    }
    for k in [1usize, 2, 33] {
        v.push(Dev::FdsOnBody(k));
    }
    v
}

fn run_case(reqs: &[WireReq], prefixes: &[WireReq], c: &Case, res: &Resources, extra_fds: &[RawFd], acc: &mut Acc, idx: usize) {
    let req = &reqs[c.req];
    if idx % 16 == 0 || true {
        crate::crash::set_case(&format!("{{\"property\":\"C05\",\"signature\":\"C05:process-killed-by-signal\",\"what\":\"the process died while the backend server handled this message\",\"case\":{{\"check\":\"C05\",\"req\":\"{}\",\"devs\":\"{:?}\",\"state\":{}}}}}", req.name(), c.devs, c.state).replace('\n', " "));
    }
    let b = build(req, &c.devs);
    let mut rec = Recorder::new();
    rec.script.features = VIRTIO_F_PROTOCOL_FEATURES | 3;
    rec.script.proto = PF_ALL_DEFINED;
    rec.ret_file = Some(res.ret.try_clone().unwrap());
    let s = RawSession::new(rec);
    if c.state >= 1 {
        s.negotiate(VIRTIO_F_PROTOCOL_FEATURES | 3, PF_ALL_DEFINED);
    }
    if c.state == 2 {
        let p = &prefixes[c.prefix];
        let _ = s.roundtrip(&p.bytes(F_VERSION), &p.raw_fds(res));
        s.server.rec.lock().unwrap().log.clear();
    }
    let mut fds: Vec<RawFd> = req.raw_fds(res);
    fds.truncate(b.nfds);
    let mut i = 0;
    while fds.len() < b.nfds {
        fds.push(extra_fds[i % extra_fds.len()]);
        i += 1;
    }
    let hdr = header(b.code, b.flags, b.size);
    if b.fds_on_body && !b.body.is_empty() {
        s.queue_segments(&hdr, &[], &[]);
        s.queue_segments(&b.body, &fds, &[]);
    } else {
        let mut all = hdr.to_vec();
        all.extend_from_slice(&b.body);
        s.queue_segments(&all, &fds, &[]);
    }
    s.eof_when_empty.set(true);
    let h = s.server.h.clone();
    let r = catch_unwind(AssertUnwindSafe(|| h.borrow_mut().handle_request()));
    let _ = coop::take_hangs();
    acc.evaluations += 1;
    acc.transitions += 1;
    let case = || json!({"check":"C05","part":"bytes","req":req.name(),"devs":format!("{:?}", c.devs),"state":c.state,"prefix": if c.state == 2 { prefixes[c.prefix].name() } else { String::new() }});
    let log = s.server.rec.lock().unwrap().log.clone();
    match r {
        Err(p) => {
            let msg = p.downcast_ref::<String>().cloned().or_else(|| p.downcast_ref::<&str>().map(|s| s.to_string())).unwrap_or_default();
            acc.outcome("panic");
            acc.violation(&format!("C05:server:panic:{}", frontend_req_name(b.code)), &format!("handle_request panicked ({msg}) on {} with {:?}", req.name(), c.devs), case());
        }
        Ok(res) => {
            acc.outcome(match (&res, log.is_empty()) {
                (Ok(()), true) => "ok-no-handler",
                (Ok(()), false) => "ok-dispatched",
                (Err(_), true) => "rejected",
                (Err(_), false) => "dispatched-then-error",
            });
            if log.len() > 1 {
                acc.violation("C05:server:multiple-handler-calls", &format!("{} handler calls for one message", log.len()), case());
            }
            for call in &log {
                match call_valid(call) {
                    Ok(()) => {
                        if !c.devs.is_empty() {
                            acc.nontrivial += 1;
                        }
                    }
                    Err(why) => {
                        acc.outcome("handler-saw-invalid-arguments");
                        acc.violation(&format!("C05:server:unvalidated:{}", call.op), &format!("handler {} invoked with arguments violating the protocol's validity rules ({why}); message {} mutated by {:?}", call.op, req.name(), c.devs), case());
                    }
                }
            }
            if log.is_empty() && !c.devs.is_empty() {
                acc.nontrivial += 1;
            }
        }
    }
}

pub fn cases(reqs: &[WireReq], n_prefix: usize, level: u8) -> Vec<Case> {
    let mut v = Vec::new();
    for (ri, req) in reqs.iter().enumerate() {
        let devs = deviations(req, level);
        for state in [0u8, 1] {
            v.push(Case { req: ri, devs: vec![], state, prefix: 0 });
            for d in &devs {
                v.push(Case { req: ri, devs: vec![d.clone()], state, prefix: 0 });
            }
        }
        // pairs of deviations on different dimensions, everything negotiated
        let pool: Vec<&Dev> = if level > 0 { devs.iter().collect() } else { devs.iter().filter(|d| !matches!(d, Dev::Code(c) if *c > 2 && *c != 44 && *c != 45)).collect() };
        for i in 0..pool.len() {
            for j in i + 1..pool.len() {
                if pool[i].dim() == pool[j].dim() {
                    continue;
                }
                if level == 0 && (i + j) % 3 != 0 && !matches!((pool[i], pool[j]), (Dev::Size(_) | Dev::SizeDelta(_), _) | (_, Dev::Fds(_) | Dev::FdsOnBody(_))) {
                    continue;
                }
                v.push(Case { req: ri, devs: vec![pool[i].clone(), pool[j].clone()], state: 1, prefix: 0 });
            }
        }
        // as the second message after each state-changing message (single deviations on body/size/fds)
        for p in 0..n_prefix {
            for d in devs.iter().filter(|d| !matches!(d, Dev::Code(_))) {
                if level == 0 && !matches!(d, Dev::Size(_) | Dev::SizeDelta(_) | Dev::Fds(_) | Dev::Trunc(_) | Dev::Body64(0 | 8, _)) {
                    continue;
                }
                v.push(Case { req: ri, devs: vec![d.clone()], state: 2, prefix: p });
            }
        }
    }
    v
}

fn prefixes() -> Vec<WireReq> {
    wellformed().into_iter().filter(|r| matches!(r.code, SET_MEM_TABLE | SET_FEATURES | SET_PROTOCOL_FEATURES | SET_VRING_KICK | ADD_MEM_REG | SET_BACKEND_REQ_FD | RESET_OWNER)).collect()
}

pub fn run(rep: &mut Report) {
    let level = if rep.is_thorough() { 1 } else { 0 };
    crate::crash::install("C05");
    let reqs = wellformed();
    let pre = prefixes();
    let all = cases(&reqs, pre.len(), level);
    let threads = 16usize;
    let chunk = all.len().div_ceil(threads);
    let accs: Vec<Acc> = std::thread::scope(|sc| {
        let mut hs = Vec::new();
        for (t, part) in all.chunks(chunk).enumerate() {
            let reqs = &reqs;
            let pre = &pre;
            hs.push(sc.spawn(move || {
                coop::enable();
                let res = Resources::new();
                let extra: Vec<std::os::unix::io::OwnedFd> = (0..4).map(|i| crate::rawpeer::memfd(&format!("x{i}"), 0x1000)).collect();
                let extra_fds: Vec<RawFd> = extra.iter().map(|f| f.as_raw_fd()).collect();
                let mut acc = Acc::default();
                for (i, c) in part.iter().enumerate() {
                    run_case(reqs, pre, c, &res, &extra_fds, &mut acc, t * chunk + i);
                }
                coop::disable();
                acc
            }));
        }
        hs.into_iter().map(|h| h.join().expect("worker thread")).collect()
    });
    for a in accs {
        a.merge_into(rep);
    }
    rep.states = rep.outcomes.len() as u64;
    rep.traces = rep.evaluations;
    rep.exhaustive = true;
    rep.extra.insert("request_types".into(), json!(reqs.len()));
    rep.extra.insert("cases".into(), json!(all.len()));
    for k in [10usize, all.len() / 3, all.len() / 2, all.len() - 7] {
        let c = &all[k];
        rep.sample(json!({"req": reqs[c.req].name(), "deviations": format!("{:?}", c.devs), "state": c.state}));
    }
    rep.rule = "part (i): for a well-formed instance of every request code 1..=44: the message itself, every single deviation from {request code 0..=64 and 2^k neighbours, each flag bit, size field in {0,n-1,n+1,4095,4096,4097,2^31,2^32-1}, every 64-/32-bit body field over the boundary lattice, truncated/extended body, descriptor count in {0,1,2,n-1,n+1,32,33,40}, descriptors attached to the body segment}, pairs of deviations on different dimensions, in two negotiation states (nothing / everything) and as the second message after each state-changing message. Non-trivial = deviating messages that were rejected without a handler call, or dispatched with arguments satisfying the independent validity predicate".into();
    rep.assumptions.push("harness built with overflow-checks and debug-assertions so arithmetic overflow in library code panics; fatal signals are caught by a handler that reports the current case".into());
    rep.assumptions.push("streams longer than two messages and more than two simultaneous deviations are outside the bound; part (ii) (daemon sequences) is reported under extra.daemon_part when built".into());
}

pub fn replay(case: &Value, rep: &mut Report) {
    println!("replay C05 by re-running the quick enumeration; case: {case}");
    run(rep);
}
