//! C12: no lost or post-stop kick dispatch under any thread interleaving.
//! Engine E2: the real worker thread and daemon thread of a `VhostUserDaemon`, the frontend and
//! the guest as environment actors; scheduling points = recvmsg / sendmsg / epoll_wait (before
//! and after) / epoll_ctl of the library threads plus the entry of the backend's handle_event.

use crate::daemonh::*;
use crate::rawpeer::{eventfd, eventfd_count};
use crate::report::Report;
use crate::sched::*;
use crate::spec::*;
use crate::sysshim::Point;
use serde_json::{json, Value};
use std::os::unix::io::{AsRawFd, OwnedFd};
use vhost_user_backend::bitmap::BitmapReplace;
use vhost_user_backend::{VringMutex, VringRwLock, VringT};
use vm_memory::bitmap::Bitmap;
use vm_memory::mmap::NewBitmap;

#[derive(Clone, Debug, PartialEq)]
pub enum Effect {
    None,
    /// the reply to this message confirms that the ring is disabled / stopped
    Deactivate,
    /// sending this message (re)activates the ring as far as the frontend is concerned
    Activate,
}

#[derive(Clone, Debug)]
pub enum EStep {
    Send(u32, Vec<u8>, bool, Effect, &'static str),
    Recv,
}

#[derive(Clone, Debug)]
pub struct Sc12 {
    pub kind: &'static str,
    pub kicks: usize,
    pub mutex: bool,
}

pub struct St<V, B>
where
    V: VringT<GM<B>> + Clone + Send + Sync + 'static,
    B: Bitmap + BitmapReplace + NewBitmap + Clone + Send + Sync + 'static,
{
    h: DaemonH<V, B>,
    kick: OwnedFd,
    /// two-ring scenarios: ring 0's descriptor, kicked once by actor K0 (not the observed ring)
    kick_other: Option<OwnedFd>,
    k0_done: bool,
    /// event id of the observed ring and the name of its handler-entry point
    ring: u16,
    site: &'static str,
    seen_dispatches: usize,
    /// restart with a different descriptor: the descriptor to switch to, and whether the frontend has switched
    kick_new: Option<OwnedFd>,
    switched: bool,
    /// the worker has consumed a kick of the observed ring that it has not dispatched yet
    w_consumed: bool,
    last_counter: u64,
    script: Vec<EStep>,
    e_pos: usize,
    k_pos: usize,
    kicks: usize,
    // oracle state
    sent: Vec<Effect>,
    replies_sent: usize,
    confirmed_inactive: bool,
    worker_had_decided: bool,
    dispatches_before: usize,
    dispatches_valid_after_last_kick: usize,
    last_kick_seen: bool,
    post_stop: usize,
    post_stop_after_last_kick: usize,
}

fn script(kind: &str) -> Vec<EStep> {
    // the "2r-" scenarios run on two rings of one worker and act on ring 1
    let r: u32 = if kind.starts_with("2r-") { 1 } else { 0 };
    match kind.trim_start_matches("2r-") {
        "disable-enable" => vec![
            EStep::Send(SET_VRING_ENABLE, p_vring_state(r, 0), false, Effect::Deactivate, "ENABLE(0)"),
            EStep::Recv,
            EStep::Send(SET_VRING_ENABLE, p_vring_state(r, 1), false, Effect::Activate, "ENABLE(1)"),
            EStep::Recv,
        ],
        "stop-restart" => vec![
            EStep::Send(GET_VRING_BASE, p_vring_state(r, 0), false, Effect::Deactivate, "GET_VRING_BASE"),
            EStep::Recv,
            EStep::Send(SET_VRING_KICK, p_u64(r as u64), true, Effect::Activate, "SET_VRING_KICK"),
            EStep::Recv,
        ],
        "replace-newfd" => vec![
            // the kick descriptor of a started, enabled ring is replaced without a stop
            EStep::Send(SET_VRING_KICK, p_u64(r as u64), true, Effect::None, "SET_VRING_KICK(new descriptor)"),
            EStep::Recv,
        ],
        "stop-restart-newfd" => vec![
            EStep::Send(GET_VRING_BASE, p_vring_state(r, 0), false, Effect::Deactivate, "GET_VRING_BASE"),
            EStep::Recv,
            EStep::Send(SET_VRING_KICK, p_u64(r as u64), true, Effect::Activate, "SET_VRING_KICK(new descriptor)"),
            EStep::Recv,
        ],
        "reset-enable" => vec![
            EStep::Send(RESET_DEVICE, vec![], false, Effect::Deactivate, "RESET_DEVICE"),
            EStep::Recv,
            EStep::Send(SET_FEATURES, p_u64(VIRTIO_F_PROTOCOL_FEATURES | 0x3), false, Effect::None, "SET_FEATURES"),
            EStep::Recv,
            EStep::Send(SET_VRING_ENABLE, p_vring_state(r, 1), false, Effect::Activate, "ENABLE(1)"),
            EStep::Recv,
        ],
        "disable-only" => vec![EStep::Send(SET_VRING_ENABLE, p_vring_state(r, 0), false, Effect::Deactivate, "ENABLE(0)"), EStep::Recv],
        _ => vec![],
    }
}

struct Gen<V, B>(Sc12, std::marker::PhantomData<(V, B)>);

impl<V, B> Scenario for Gen<V, B>
where
    V: VringT<GM<B>> + Clone + Send + Sync + 'static,
    B: Bitmap + BitmapReplace + NewBitmap + Clone + Send + Sync + 'static,
{
    type S = St<V, B>;

    fn name(&self) -> String {
        format!("{}-{}kick-{}", self.0.kind, self.0.kicks, if self.0.mutex { "mutex" } else { "rwlock" })
    }

    fn expected_threads(&self) -> usize {
        2
    }

    fn setup(&self, x: &mut Exec) -> Result<Self::S, String> {
        let two = self.0.kind.starts_with("2r-");
        let cfg = if two { Cfg { num_queues: 2, masks: vec![0b11], ..Default::default() } } else { Cfg { num_queues: 1, masks: vec![0b1], ..Default::default() } };
        let mut h = DaemonH::<V, B>::new(cfg);
        let kick = eventfd(0, true);
        let kick_other = if two { Some(eventfd(0, true)) } else { None };
        let sync = |h: &mut DaemonH<V, B>, code: u32, payload: Vec<u8>, fds: Vec<i32>, x: &mut Exec| -> Result<(), String> {
            h.send(code, F_VERSION | F_NEED_REPLY, &payload, &fds);
            x.run_quiet()?;
            match h.try_recv_msg() {
                Some(ReqOut::Msg(..)) => Ok(()),
                o => Err(format!("set-up message {} not answered: {o:?}", frontend_req_name(code))),
            }
        };
        x.run_quiet()?;
        sync(&mut h, GET_FEATURES, vec![], vec![], x)?;
        sync(&mut h, GET_PROTOCOL_FEATURES, vec![], vec![], x)?;
        sync(&mut h, SET_PROTOCOL_FEATURES, p_u64(PF_REPLY_ACK | PF_RESET_DEVICE | PF_MQ), vec![], x)?;
        h.reply_ack = true;
        sync(&mut h, SET_FEATURES, p_u64(VIRTIO_F_PROTOCOL_FEATURES | 0x3), vec![], x)?;
        let ring: u16 = if two { 1 } else { 0 };
        if let Some(k0) = &kick_other {
            sync(&mut h, SET_VRING_KICK, p_u64(0), vec![k0.as_raw_fd()], x)?;
            sync(&mut h, SET_VRING_ENABLE, p_vring_state(0, 1), vec![], x)?;
        }
        sync(&mut h, SET_VRING_KICK, p_u64(ring as u64), vec![kick.as_raw_fd()], x)?;
        sync(&mut h, SET_VRING_ENABLE, p_vring_state(ring as u32, 1), vec![], x)?;
        h.be.take_dispatches();
        let site = if two { "handle_event#1" } else { "handle_event" };
        let kick_new = if self.0.kind.ends_with("newfd") { Some(eventfd(0, true)) } else { None };
        install_ring_lock_hook();
        Ok(St { h, kick, kick_other, k0_done: false, ring, site, seen_dispatches: 0, kick_new, switched: false, w_consumed: false, last_counter: 0, script: script(self.0.kind), e_pos: 0, k_pos: 0, kicks: self.0.kicks, sent: vec![], replies_sent: 0, confirmed_inactive: false, worker_had_decided: false, dispatches_before: 0, dispatches_valid_after_last_kick: 0, last_kick_seen: false, post_stop: 0, post_stop_after_last_kick: 0 })
    }

    fn env_names(&self) -> Vec<String> {
        vec!["E".into(), "K".into()]
    }

    fn env_enabled(&self, s: &Self::S, i: usize) -> bool {
        match i {
            0 => match s.script.get(s.e_pos) {
                Some(EStep::Send(..)) => true,
                Some(EStep::Recv) => s.h.msg_ready(),
                None => false,
            },
            _ => {
                if s.kick_new.is_some() || s.switched {
                    // restart with a new descriptor: at most kicks-1 early kicks on the old descriptor,
                    // the last kick(s) on the new one once the frontend's script is complete
                    (!s.switched && s.k_pos + 1 < s.kicks) || (s.e_pos == s.script.len() && s.k_pos < s.kicks)
                } else {
                    s.k_pos < s.kicks
                }
            }
        }
    }

    fn env_step(&self, s: &mut Self::S, i: usize, x: &mut Exec) -> String {
        if i == 0 {
            let step = s.script[s.e_pos].clone();
            s.e_pos += 1;
            match step {
                EStep::Send(code, payload, with_fd, eff, label) => {
                    if with_fd {
                        if let Some(n) = s.kick_new.take() {
                            // from now on the guest kicks the new descriptor
                            s.kick = n;
                            s.switched = true;
                            s.last_counter = 0;
                        }
                    }
                    let fds = if with_fd { vec![s.kick.as_raw_fd()] } else { vec![] };
                    s.h.send(code, F_VERSION | F_NEED_REPLY, &payload, &fds);
                    if eff == Effect::Activate {
                        s.confirmed_inactive = false;
                    }
                    s.sent.push(eff);
                    format!("send({label})")
                }
                EStep::Recv => match s.h.try_recv_msg() {
                    Some(ReqOut::Msg(d, _)) => {
                        let failed = reply_kind(d.code) == ReplyKind::AckOnly && d.size == 8 && rd64(&d.payload, 0) != 0;
                        if failed {
                            x.violation("C12:control-message-failed", &format!("{} was answered with a failure", frontend_req_name(d.code)));
                        }
                        format!("recv({})", frontend_req_name(d.code))
                    }
                    o => {
                        x.violation("C12:connection-lost", &format!("frontend did not get its reply: {o:?}"));
                        "recv(?)".into()
                    }
                },
            }
        } else {
            s.k_pos += 1;
            let one: u64 = 1;
            // two-ring scenarios: the guest kicks the other ring first, in the same step, so that the
            // worker finds both events in one epoll batch and handles the observed ring's second
            if let (Some(k0), false) = (&s.kick_other, s.k0_done) {
                s.k0_done = true;
                // SAFETY: write to our own eventfd.
                unsafe { libc::write(k0.as_raw_fd(), &one as *const u64 as *const libc::c_void, 8) };
            }
            // SAFETY: write to our own eventfd.
            unsafe { libc::write(s.kick.as_raw_fd(), &one as *const u64 as *const libc::c_void, 8) };
            if s.k_pos == s.kicks {
                s.last_kick_seen = true;
                s.dispatches_valid_after_last_kick = 0;
            }
            "kick".into()
        }
    }

    fn after_step(&self, s: &mut Self::S, info: &StepInfo, x: &mut Exec) {
        // did somebody consume the observed ring's kick in this step? (only the worker reads it)
        let now = eventfd_count(s.kick.as_raw_fd()).unwrap_or(0);
        if now < s.last_counter {
            s.w_consumed = true;
        }
        s.last_counter = now;
        if let Actor::Thread(name) = &info.actor {
            if name.starts_with("vmc-daemon") {
                if let Some(Point::Send(_)) = info.point {
                    // the daemon thread has just written reply number `replies_sent`
                    let eff = s.sent.get(s.replies_sent).cloned().unwrap_or(Effect::None);
                    s.replies_sent += 1;
                    // a later activating message already sent cancels the confirmation
                    let later_activate = s.sent.iter().skip(s.replies_sent).any(|e| *e == Effect::Activate);
                    if eff == Effect::Deactivate && !later_activate {
                        s.confirmed_inactive = true;
                        // was the worker already past the library's enabled-check at that time?
                        let snap = x.ctl.snapshot();
                        // ... i.e. parked at the handler's entry, or it has already consumed the kick under
                        // the ring lock (the library consumes only what it has decided to dispatch)
                        s.worker_had_decided = s.w_consumed || snap.iter().any(|p| !p.0.starts_with("vmc-daemon") && p.2 == Some(Point::User(s.site)));
                    }
                }
            }
            // (the worker is whichever library thread is not the daemon thread; its name is the library's business)
            if !name.starts_with("vmc-daemon") {
                if info.point == Some(Point::User(s.site)) {
                    // the backend's handler is entered now for the observed ring
                    s.w_consumed = false;
                    if s.confirmed_inactive {
                        s.post_stop += 1;
                        if s.last_kick_seen {
                            s.post_stop_after_last_kick += 1;
                        }
                        let class = if s.worker_had_decided { "worker-had-decided-before-the-change" } else { "worker-checked-after-the-change" };
                        // the already-decided class is one design-level defect (the dispatch is not
                        // atomic with the enabled-check), whatever message closed the window
                        let sig = if s.worker_had_decided { format!("C12:post-stop-dispatch:{class}") } else { format!("C12:{}:post-stop-dispatch:{class}", self.0.kind) };
                        x.violation(&sig, &format!("the backend's event handler was entered for the ring after the reply to the disabling/stopping message had been sent ({class})"));
                    } else if s.last_kick_seen {
                        s.dispatches_valid_after_last_kick += 1;
                    }
                }
            }
        }
    }

    fn finish(&self, s: &mut Self::S, x: &mut Exec) {
        let snap = x.ctl.snapshot();
        for p in &snap {
            if !p.0.starts_with("vmc-daemon") && p.1 == PState::Exited {
                x.violation("C12:worker-exited", "the vring worker thread terminated");
            }
            if p.0.starts_with("vmc-daemon") && p.1 == PState::Exited {
                x.violation("C12:daemon-thread-exited", "the daemon thread terminated");
            }
        }
        let panics = take_panics();
        if !panics.is_empty() {
            x.violation("C12:panic", &format!("{panics:?}"));
        }
        if !x.spinners.is_empty() {
            // a worker that only goes round its epoll loop (e.g. on a descriptor left registered for an
            // inactive ring) wastes time but loses and misdelivers nothing: recorded, not reported
            x.trace.push("note:worker-busy-loops-at-quiescence".into());
        }
        // script complete?
        if s.e_pos < s.script.len() {
            x.violation(&format!("C12:{}:frontend-stuck", self.0.kind), &format!("no actor is enabled but the frontend is still waiting at step {} of its script (a reply never arrived)", s.e_pos));
            return;
        }
        // every kick is eventually followed by a handler invocation while the ring is active
        let ends_active = s.sent.iter().rev().find(|e| **e != Effect::None).map(|e| *e == Effect::Activate).unwrap_or(true);
        // (a kick that was dispatched inside the inactive window has already been reported as a
        // post-stop dispatch; it was processed, not lost)
        if s.kicks > 0 && s.last_kick_seen && s.dispatches_valid_after_last_kick == 0 && s.post_stop_after_last_kick == 0 {
            let counter = eventfd_count(s.kick.as_raw_fd());
            if ends_active {
                let kind = if counter == Some(0) { "kick-consumed-without-dispatch" } else { "kick-pending-but-never-delivered" };
                x.violation(&format!("C12:{}:lost-kick:{kind}", self.0.kind), &format!("the last kick was never followed by a handler invocation although the ring ends started and enabled (eventfd counter {counter:?})"));
            } else if counter == Some(0) {
                x.violation(&format!("C12:{}:lost-kick:kick-consumed-while-inactive", self.0.kind), "the ring ends inactive, the last kick was not dispatched and is no longer pending in its descriptor");
            }
        }
    }

    fn teardown(&self, s: Self::S) {
        drop(s);
    }
}

fn outcome(r: &RunResult) -> String {
    let d = r.trace.iter().filter(|t| t.contains(":handle_event")).count();
    format!("dispatches={d},violations={}", r.violations.len())
}

fn run_one(rep: &mut Report, sc: Sc12, bound: usize, budget: f64) {
    let name;
    let st = if sc.mutex {
        let g = Gen::<VringMutex, ()>(sc.clone(), std::marker::PhantomData);
        name = g.name();
        explore(&g, bound, 400, budget, rep, "C12", &outcome)
    } else {
        let g = Gen::<VringRwLock, ()>(sc.clone(), std::marker::PhantomData);
        name = g.name();
        explore(&g, bound, 400, budget, rep, "C12", &outcome)
    };
    rep.states += st.states;
    rep.traces += st.schedules;
    rep.extra.insert(format!("scenario_{name}"), json!({"schedules": st.schedules, "by_preemptions": st.by_preemptions, "bound_completed": st.bound_completed, "capped": st.capped, "steps": st.steps, "states": st.states, "horizon_hits": st.horizon_hits, "outcomes": st.outcomes.iter().collect::<Vec<_>>()}));
    if st.capped || st.horizon_hits > 0 {
        rep.exhaustive = false;
    }
}

pub fn run(rep: &mut Report) {
    let thorough = rep.is_thorough();
    rep.exhaustive = false;
    // thorough: single-ring scenarios up to 6 preemptions (the per-bound counts in the evidence show
    // where the space is exhausted: a bound with 0 new schedules means every schedule was run)
    let bound = if thorough { 6 } else { 2 };
    let per = if thorough { 400.0 } else { 60.0 }; // safety net: the bounds below are chosen so that it is not needed
    for kind in ["disable-enable", "stop-restart", "reset-enable"] {
        run_one(rep, Sc12 { kind, kicks: 1, mutex: false }, bound, per);
    }
    run_one(rep, Sc12 { kind: "disable-enable", kicks: 1, mutex: true }, if thorough { 4 } else { 1 }, per);
    // restart with a different descriptor, an early kick on the old one and a final kick on the new one
    run_one(rep, Sc12 { kind: "stop-restart-newfd", kicks: 2, mutex: false }, if thorough { 3 } else { 1 }, per);
    run_one(rep, Sc12 { kind: "replace-newfd", kicks: 2, mutex: false }, if thorough { 4 } else { 2 }, per);
    // two rings on one worker: the observed ring's event can sit unread in an epoll batch while the
    // worker is inside the other ring's handler
    for kind in ["2r-disable-enable", "2r-stop-restart", "2r-reset-enable"] {
        run_one(rep, Sc12 { kind, kicks: 1, mutex: false }, if thorough { 3 } else { 2 }, per);
    }
    if thorough {
        run_one(rep, Sc12 { kind: "disable-enable", kicks: 2, mutex: false }, 2, per);
        run_one(rep, Sc12 { kind: "stop-restart", kicks: 2, mutex: false }, 2, per);
        run_one(rep, Sc12 { kind: "disable-only", kicks: 1, mutex: false }, 3, per);
    }
    rep.rule = "per scenario (disable/enable, stop(GET_VRING_BASE)/restart, reset/enable; the same on two rings of one worker; restart with a new kick descriptor; replacement of the kick descriptor of a started ring; RwLock and Mutex rings; 1-2 kicks): depth-first enumeration of all schedules of {worker thread, daemon thread, frontend script, guest} with at most b preemptions, b = 0,1,2 (thorough: up to 6 for single-ring scenarios, 3-4 otherwise), after a deterministic set-up prefix. Scheduling points: recvmsg, sendmsg, epoll_wait (before / after return), epoll_ctl of the library threads, the worker's acquisitions of the ring state lock (hook) and the entry of the backend's handle_event. Oracle per state: handle_event is not entered after the reply to a disabling/stopping message was written unless a later enabling message was already sent; at the end: the last kick was followed by a dispatch while active, the worker is alive, the frontend's script completed. Non-trivial = schedules that preempt a runnable thread at least once (all schedules are distinct)".into();
    rep.assumptions.push("data-race freedom between scheduling points (lock-protected or kernel state); sequentially consistent scheduler".into());
    rep.assumptions.push("'states' = distinct (per-thread step counters, trace length) fingerprints over all executions".into());
}

pub fn replay(case: &Value, rep: &mut Report) {
    let name = case["scenario"].as_str().unwrap_or("");
    let sched: Vec<usize> = case["schedule"].as_array().map(|a| a.iter().map(|x| x.as_u64().unwrap_or(0) as usize).collect()).unwrap_or_default();
    let parts: Vec<&str> = name.rsplitn(3, '-').collect();
    let mutex = parts.first() == Some(&"mutex");
    let kicks = parts.get(1).and_then(|k| k.trim_end_matches("kick").parse::<usize>().ok()).unwrap_or(1);
    let kind: &'static str = match parts.get(2) {
        Some(&"stop-restart") => "stop-restart",
        Some(&"reset-enable") => "reset-enable",
        Some(&"disable-only") => "disable-only",
        Some(&"stop-restart-newfd") => "stop-restart-newfd",
        Some(&"replace-newfd") => "replace-newfd",
        Some(&"2r-disable-enable") => "2r-disable-enable",
        Some(&"2r-stop-restart") => "2r-stop-restart",
        Some(&"2r-reset-enable") => "2r-reset-enable",
        _ => "disable-enable",
    };
    let sc = Sc12 { kind, kicks, mutex };
    let r = if mutex { run_schedule(&Gen::<VringMutex, ()>(sc, std::marker::PhantomData), &sched, 400) } else { run_schedule(&Gen::<VringRwLock, ()>(sc, std::marker::PhantomData), &sched, 400) };
    match r {
        Ok(r) => {
            println!("trace: {:?}", r.trace);
            for (s, w) in &r.violations {
                println!("violation {s}: {w}");
                rep.violation(s, w, case.clone());
            }
            rep.evaluations += 1;
        }
        Err(e) => {
            eprintln!("MACHINERY FAILURE: {e}");
            std::process::exit(2);
        }
    }
}
