//! C18: backend-initiated requests reach the frontend handler faithfully, with status.
//! Real `Backend` proxy <-> real `FrontendReqHandler<Mutex<FrRecorder>>` in coop mode: request
//! kinds x argument lattice x handler results x REPLY_ACK on/off x all histories of length <= 3;
//! the acknowledgement bytes are decoded independently with a raw peer in place of the proxy.

use crate::feops::Resources;
use crate::feraw::RawScript;
use crate::pair::BackPair;
use crate::pxops::*;
use crate::rawpeer::ident;
use crate::recorder::{Call, FrRecorder, FrRes};
use crate::report::Report;
use crate::spec::*;
use crate::sysshim::{coop, pending_bytes};
use serde_json::{json, Value};
use std::os::unix::io::{AsRawFd, FromRawFd};
use std::os::unix::net::UnixStream;
use std::sync::{Arc, Mutex};
use vhost::vhost_user::FrontendReqHandler;

fn results() -> Vec<FrRes> {
    let mut v = vec![FrRes::Ok(0), FrRes::Ok(1), FrRes::Ok(1 << 32), FrRes::Ok(u64::MAX), FrRes::ErrNoErrno];
    for e in [1, 2, 11, 22, 38, i32::MAX] {
        v.push(FrRes::Errno(e));
    }
    v
}

fn want_call(op: &BpOp, res: &Resources) -> Call {
    let mut c = Call::new(op.name(), vec![]);
    match op {
        BpOp::SharedAdd(u) | BpOp::SharedRemove(u) | BpOp::SharedLookup(u) => c.bytes = u.to_vec(),
        BpOp::ShmemMap(id, a, b, d, e) | BpOp::ShmemUnmap(id, a, b, d, e) => c.a = vec![*id as u64, *a, *b, *d, *e],
    }
    if op.has_fd() {
        c.files.push(ident(res.mem[0].as_raw_fd()));
    }
    c
}

fn ack_value(r: &FrRes) -> u64 {
    match r {
        FrRes::Ok(v) => *v,
        FrRes::Errno(e) => (-(*e as i64)) as u64,
        FrRes::ErrNoErrno => (-(libc::EINVAL as i64)) as u64,
    }
}

/// Run a history of (op, scripted handler result) pairs on a fresh pair.
fn run_history(hist: &[(BpOp, FrRes)], reply_ack: bool, res: &Resources, rep: &mut Report) {
    let bp = BackPair::new();
    bp.proxy.set_reply_ack_flag(reply_ack);
    bp.proxy.set_shared_object_flag(true);
    bp.proxy.set_shmem_flag(true);
    bp.h.borrow_mut().set_reply_ack_flag(reply_ack);
    let ctx = |i: usize| json!({"check":"C18","reply_ack":reply_ack,"history": hist.iter().map(|(o, r)| format!("{o:?} -> {r:?}")).collect::<Vec<_>>(), "step": i});
    for (i, (op, hres)) in hist.iter().enumerate() {
        // a case = (REPLY_ACK, the history up to and including this step): shared prefixes of
        // different histories are the same case
        let case_key = format!("{reply_ack}|{:?}", &hist[..=i]);
        {
            let mut r = bp.rec.lock().unwrap();
            r.log.clear();
            r.results.clear();
            r.results.push_back(hres.clone());
        }
        let _ = coop::take_hangs();
        let out = invoke_bp(&bp.proxy, op, res);
        let hang = coop::take_hangs().contains(&bp.proxy_fd);
        let log_at_return = bp.rec.lock().unwrap().log.clone();
        bp.drain();
        let log = bp.rec.lock().unwrap().log.clone();
        rep.evaluations += 1;
        rep.transitions += 1;
        let sig = |k: &str| format!("C18:{}:{k}", op.name());
        if bp.panicked.get() {
            rep.violation(&sig("panic"), "frontend request server panicked", ctx(i));
            return;
        }
        if hang {
            rep.violation(&sig("indefinite-wait"), &format!("{:?}: proxy call waits forever (reply_ack={reply_ack})", op), ctx(i));
            return;
        }
        let want = want_call(op, res);
        if log.len() != 1 || log[0] != want {
            rep.outcome("handler-call-differs");
            rep.violation(&sig("handler-call"), &format!("{:?}: handler saw {:?}, expected exactly {:?}", op, log.iter().map(|c| c.json()).collect::<Vec<_>>(), want.json()), ctx(i));
            return;
        }
        if reply_ack {
            if log_at_return.len() != 1 {
                rep.violation(&sig("returned-before-handler"), "acknowledged call returned before the handler ran", ctx(i));
            }
            let should_succeed = matches!(hres, FrRes::Ok(0));
            match (&out, should_succeed) {
                (Ok(0), true) => {
                    rep.outcome("acked:success");
                    rep.nontrivial_key(&case_key);
                }
                (Err(_), false) => {
                    rep.outcome("acked:failure-reported");
                    rep.nontrivial_key(&case_key);
                }
                (Ok(v), _) => {
                    rep.outcome("acked:wrong-status");
                    rep.violation(&sig(if should_succeed { "wrong-success-value" } else { "fabricated-success" }), &format!("{:?}: handler result {:?}, proxy returned Ok({v})", op, hres), ctx(i));
                }
                (Err(e), true) => {
                    rep.violation(&sig("error-on-success"), &format!("{:?}: handler returned Ok(0), proxy returned Err({e})", op), ctx(i));
                }
            }
        } else {
            // no acknowledgement is written or awaited
            if out != Ok(0) {
                rep.violation(&sig("unacked-call-failed"), &format!("{:?}: without REPLY_ACK the proxy returned {:?}", op, out), ctx(i));
            } else {
                rep.outcome("unacked:sent");
                rep.nontrivial_key(&case_key);
            }
        }
    }
    // nothing may be left over on the proxy's socket (an extra or unawaited acknowledgement)
    let left = pending_bytes(bp.proxy_fd);
    if left != 0 {
        rep.violation("C18:stray-acknowledgement", &format!("{left} byte(s) left unread on the proxy's socket after the history (reply_ack={reply_ack})"), ctx(hist.len()));
    }
}

/// Raw peer in place of the proxy: the acknowledgement bytes for each handler result.
fn ack_bytes(rep: &mut Report, res: &Resources) {
    for op in bp_ops_basic() {
        for reply_ack in [false, true] {
            for need_reply in [false, true] {
                for hres in results() {
                    let rec = Arc::new(Mutex::new(FrRecorder::default()));
                    rec.lock().unwrap().results.push_back(hres.clone());
                    let mut h = FrontendReqHandler::new(rec.clone()).unwrap();
                    h.set_reply_ack_flag(reply_ack);
                    // SAFETY: dup of tx; we own the copy.
                    let tx = unsafe { libc::fcntl(h.get_tx_raw_fd(), libc::F_DUPFD_CLOEXEC, 3) };
                    let peer = unsafe { UnixStream::from_raw_fd(tx) };
                    let raw = RawScript::attach(h.as_raw_fd(), peer);
                    let flags = F_VERSION | if need_reply { F_NEED_REPLY } else { 0 };
                    let (rb, rfds) = op.request(flags, res);
                    raw.queue(&rb, &rfds, &[]);
                    let hr = h.handle_request();
                    let got = raw.take_written();
                    rep.evaluations += 1;
                    rep.transitions += 1;
                    let ctx = json!({"check":"C18","part":"ack_bytes","op":format!("{op:?}"),"reply_ack":reply_ack,"need_reply":need_reply,"handler":format!("{hres:?}")});
                    let want = if reply_ack && need_reply { op.ack(ack_value(&hres)) } else { vec![] };
                    if got.bytes != want || got.nfds() != 0 {
                        rep.outcome("ack:differs");
                        rep.violation(&format!("C18:{}:ack-bytes", op.name()), &format!("handler {:?} (reply_ack={reply_ack}, need_reply={need_reply}): wrote {:02x?}, protocol prescribes {:02x?}", hres, got.bytes, want), ctx);
                    } else {
                        rep.outcome(if want.is_empty() { "ack:none" } else { "ack:value" });
                        rep.nontrivial += 1;
                    }
                    let _ = hr;
                }
            }
        }
    }
}

pub fn run(rep: &mut Report) {
    let thorough = rep.is_thorough();
    coop::enable();
    let res = Resources::new();
    // (1) argument lattice, single calls
    for op in bp_variants(if thorough { 1 } else { 0 }, rep.seed) {
        for reply_ack in [false, true] {
            for hres in [FrRes::Ok(0), FrRes::Errno(22)] {
                run_history(&[(op.clone(), hres)], reply_ack, &res, rep);
            }
        }
    }
    // (2) histories of length <= 3 over 5 kinds x handler results
    let ops = bp_ops_basic();
    let rs = results();
    let small: Vec<FrRes> = vec![FrRes::Ok(0), FrRes::Ok(1), FrRes::Errno(11), FrRes::ErrNoErrno];
    let mut alpha: Vec<(BpOp, FrRes)> = Vec::new();
    for o in &ops {
        for r in &rs {
            alpha.push((o.clone(), r.clone()));
        }
    }
    for reply_ack in [false, true] {
        for a in &alpha {
            run_history(&[a.clone()], reply_ack, &res, rep);
        }
        // length 2: full alphabet x reduced second step; length 3 on the reduced alphabet
        let red: Vec<(BpOp, FrRes)> = ops.iter().flat_map(|o| small.iter().map(move |r| (o.clone(), r.clone()))).collect();
        for a in if thorough { &alpha } else { &red } {
            for b in &red {
                run_history(&[a.clone(), b.clone()], reply_ack, &res, rep);
            }
        }
        let red3: Vec<(BpOp, FrRes)> = if thorough { red.clone() } else { ops.iter().take(3).flat_map(|o| [FrRes::Ok(0), FrRes::Errno(11)].into_iter().map(move |r| (o.clone(), r))).chain([(ops[3].clone(), FrRes::Ok(1)), (ops[4].clone(), FrRes::ErrNoErrno)]).collect() };
        for a in &red3 {
            for b in &red3 {
                for c in &red3 {
                    run_history(&[a.clone(), b.clone(), c.clone()], reply_ack, &res, rep);
                }
            }
        }
    }
    if thorough {
        // deeper: every (kind, result) first, then two reduced steps; all histories of length 4 over
        // the reduced alphabet
        let red: Vec<(BpOp, FrRes)> = ops.iter().flat_map(|o| small.iter().map(move |r| (o.clone(), r.clone()))).collect();
        for reply_ack in [false, true] {
            for a in &alpha {
                for b in &red {
                    for c in &red {
                        run_history(&[a.clone(), b.clone(), c.clone()], reply_ack, &res, rep);
                    }
                }
            }
            for a in &red {
                for b in &red {
                    for c in &red {
                        for d in &red {
                            run_history(&[a.clone(), b.clone(), c.clone(), d.clone()], reply_ack, &res, rep);
                        }
                    }
                }
            }
        }
    }
    ack_bytes(rep, &res);
    coop::disable();
    rep.states = rep.outcomes.len() as u64;
    rep.traces = rep.evaluations;
    rep.exhaustive = true;
    rep.sample(json!({"history":["ShmemMap(..) -> Errno(11)","SharedAdd(..) -> Ok(0)"],"reply_ack":true,"expect":"first call Err, second call Ok(0)"}));
    rep.sample(json!({"part":"ack_bytes","op":"SharedLookup","handler":"Errno(22)","expect_ack_value":"0xffffffffffffffea"}));
    rep.rule = "5 request kinds x UUID / mapping-descriptor lattice x handler results {Ok(0), Ok(1), Ok(2^32), Ok(2^64-1), Err(errno in {1,2,11,22,38,2^31-1}), Err(no errno)} x REPLY_ACK on/off; all histories of length 1 and 2 and of length 3 over a reduced alphabet (thorough: length 3 with every (kind, result) first, and all histories of length 4 over 5 kinds x 4 results); with a raw peer in place of the proxy the acknowledgement bytes for every (kind, result, REPLY_ACK, NEED_REPLY). Non-trivial = distinct (REPLY_ACK, history prefix) cases whose handler call and proxy status (or absence of an acknowledgement) were verified; a prefix shared by several histories counts once".into();
}

pub fn replay(case: &Value, rep: &mut Report) {
    println!("replay C18 by re-running the quick enumeration; case: {case}");
    run(rep);
}
