//! C14: ring configuration and negotiated features reach queues and backend unchanged.
//! Engine E3 sweeps (ring indexes 0..=255, sizes/bases/used-indexes 0..=65535, feature masks,
//! EVENT_IDX, backend-request channel flags) + short exhaustive histories (memory table / ring
//! address / call descriptor / add_used+signal) on a real daemon.

use crate::daemonh::*;
use crate::rawpeer::{eventfd, eventfd_count, memfd};
use crate::report::Report;
use crate::spec::*;
use serde_json::{json, Value};
use std::os::unix::io::{AsRawFd, OwnedFd};
use std::os::unix::net::UnixStream;
use vhost::vhost_user::VhostUserFrontendReqHandler;
use vhost_user_backend::VringRwLock;

type H = DaemonH<VringRwLock, ()>;

const USER: u64 = 0x7f00_0000_0000;
const VIRTIO_ALL: u64 = VIRTIO_F_PROTOCOL_FEATURES | (1 << 29) | (1 << 32) | 0x3;

fn daemon(cfg: Cfg, proto: u64, virtio: u64) -> Result<H, String> {
    let mut h = H::new(cfg);
    h.negotiate(virtio, proto)?;
    Ok(h)
}

fn renegotiate(h: &mut H, proto: u64, virtio: u64) -> Result<(), String> {
    let _ = h.reconnect();
    h.negotiate(virtio, proto)
}

fn set_table(h: &mut H, mem: &OwnedFd, gpa: u64, size: u64, user: u64) -> Result<bool, String> {
    h.ack(SET_MEM_TABLE, &p_mem_table(&[Region { gpa, size, user, offset: 0 }]), &[mem.as_raw_fd()])
}

fn q0(h: &H) -> Result<QSnap, String> {
    h.probe(0).map(|s| s.first().cloned().unwrap_or_default())
}

const PROTO: u64 = PF_REPLY_ACK | PF_MQ | PF_BACKEND_REQ | PF_SHARED_OBJECT | PF_SHMEM | PF_RESET_DEVICE;

fn index_sweep(rep: &mut Report) {
    let mut h = match daemon(Cfg::default(), PROTO, VIRTIO_ALL) {
        Ok(h) => h,
        Err(e) => return rep.violation("C14:setup", &e, json!({})),
    };
    let mem = memfd("c14", 0x10000);
    let _ = set_table(&mut h, &mem, 0, 0x10000, USER);
    let nq = 2u32;
    let msgs: Vec<(&str, u32)> = vec![("SET_VRING_NUM", SET_VRING_NUM), ("SET_VRING_BASE", SET_VRING_BASE), ("GET_VRING_BASE", GET_VRING_BASE), ("SET_VRING_ADDR", SET_VRING_ADDR), ("SET_VRING_ENABLE", SET_VRING_ENABLE), ("SET_VRING_KICK", SET_VRING_KICK), ("SET_VRING_CALL", SET_VRING_CALL), ("SET_VRING_ERR", SET_VRING_ERR)];
    for idx in 0..=255u32 {
        for (name, code) in &msgs {
            let ev = eventfd(0, true);
            let (payload, fds): (Vec<u8>, Vec<i32>) = match *code {
                SET_VRING_NUM => (p_vring_state(idx, 64), vec![]),
                SET_VRING_BASE => (p_vring_state(idx, 7), vec![]),
                GET_VRING_BASE => (p_vring_state(idx, 0), vec![]),
                SET_VRING_ADDR => (p_vring_addr(idx, 0, USER + 0x1000, USER + 0x3000, USER + 0x2000, 0), vec![]),
                SET_VRING_ENABLE => (p_vring_state(idx, 1), vec![]),
                _ => (p_u64(idx as u64), vec![ev.as_raw_fd()]),
            };
            let out = h.req(*code, &payload, &fds);
            rep.evaluations += 1;
            rep.transitions += 1;
            let accepted = match &out {
                ReqOut::Msg(d, _) => {
                    if *code == GET_VRING_BASE {
                        d.code == GET_VRING_BASE
                    } else {
                        d.size == 8 && rd64(&d.payload, 0) == 0
                    }
                }
                _ => false,
            };
            let in_range = idx < nq;
            let case = json!({"check":"C14","part":"index_sweep","msg":name,"index":idx});
            if in_range != accepted {
                rep.outcome("index-check-differs");
                rep.violation(&format!("C14:index:{name}:{}", if in_range { "valid-index-rejected" } else { "out-of-range-index-accepted" }), &format!("{name} with ring index {idx} (device has {nq} rings): {:?}", out), case);
            } else {
                rep.outcome(if in_range { "index-accepted" } else { "index-rejected" });
                rep.nontrivial += 1;
            }
            if !matches!(out, ReqOut::Msg(..)) || !accepted {
                if let ReqOut::Dead(e) = &out {
                    rep.violation("C14:daemon-thread-died", &format!("{name} index {idx}: {e}; {:?}", take_panics()), json!({"check":"C14","msg":name,"index":idx}));
                }
                if renegotiate(&mut h, PROTO, VIRTIO_ALL).is_err() {
                    return;
                }
            }
        }
    }
}

fn size_base_used_sweeps(rep: &mut Report, thorough: bool) {
    let mut h = match daemon(Cfg::default(), PROTO, VIRTIO_ALL) {
        Ok(h) => h,
        Err(e) => return rep.violation("C14:setup", &e, json!({})),
    };
    let mem = memfd("c14", 0x10000);
    let _ = set_table(&mut h, &mem, 0, 0x10000, USER);
    let max = 256u32;
    // ---- SET_VRING_NUM ----
    let nums: Vec<u32> = if thorough {
        (0..=65535).chain([65536, 65537, 1 << 31, u32::MAX]).collect()
    } else {
        let mut v: Vec<u32> = (0..=300).collect();
        v.extend([511, 512, 513, 1023, 1024, 4096, 32768, 65535, 65536, 65537, 1 << 31, u32::MAX]);
        v
    };
    for n in nums {
        let out = h.ack(SET_VRING_NUM, &p_vring_state(0, n), &[]);
        rep.evaluations += 1;
        rep.transitions += 1;
        let case = json!({"check":"C14","part":"set_vring_num","num":n});
        let valid = n != 0 && n <= max && n.is_power_of_two();
        match out {
            Ok(true) => {
                let s = q0(&h).unwrap_or_default();
                if !valid {
                    rep.outcome("invalid-size-acknowledged");
                    rep.violation(
                        &format!("C14:set_vring_num:{}", if n == 0 || n > max { "zero-or-too-large-accepted" } else { "non-power-of-two-acknowledged" }),
                        &format!("SET_VRING_NUM {n} was acknowledged as success; the ring the backend processes has size {} (max {max})", s.size),
                        case,
                    );
                } else if s.size as u32 != n {
                    rep.violation("C14:set_vring_num:size-not-applied", &format!("SET_VRING_NUM {n} acknowledged but the ring has size {}", s.size), case);
                } else {
                    rep.outcome("size-applied");
                    rep.nontrivial += 1;
                }
            }
            Ok(false) | Err(_) => {
                if valid {
                    rep.violation("C14:set_vring_num:valid-size-rejected", &format!("SET_VRING_NUM {n} rejected"), case);
                } else {
                    rep.outcome("size-rejected");
                    rep.nontrivial += 1;
                }
                if renegotiate(&mut h, PROTO, VIRTIO_ALL).is_err() {
                    return;
                }
            }
        }
    }
    // ---- SET_VRING_BASE followed by GET_VRING_BASE ----
    let bases: Vec<u32> = if thorough { (0..=65535).collect() } else { (0..=260).chain([32767, 32768, 32769, 65534, 65535]).collect() };
    for b in bases {
        let r1 = h.ack(SET_VRING_BASE, &p_vring_state(1, b), &[]);
        let s = h.probe(0).map(|s| s.get(1).cloned().unwrap_or_default()).unwrap_or_default();
        let out = h.req(GET_VRING_BASE, &p_vring_state(1, 0), &[]);
        rep.evaluations += 1;
        rep.transitions += 2;
        let got = match &out {
            ReqOut::Msg(d, _) if d.size == 8 && d.code == GET_VRING_BASE => Some((rd32(&d.payload, 0), rd32(&d.payload, 4))),
            _ => None,
        };
        if r1 != Ok(true) || s.next_avail as u32 != b || got != Some((1, b)) {
            rep.outcome("base-differs");
            rep.violation("C14:vring_base", &format!("SET_VRING_BASE {b}: ack {:?}, ring next-available {}, GET_VRING_BASE returned {:?}", r1, s.next_avail, got), json!({"check":"C14","part":"vring_base","base":b}));
            if got.is_none() && renegotiate(&mut h, PROTO, VIRTIO_ALL).is_err() {
                return;
            }
        } else {
            rep.outcome("base-roundtrip");
            rep.nontrivial += 1;
        }
    }
    // ---- used index in guest memory picked up by SET_VRING_ADDR ----
    // "in arbitrary message orders": on a ring that is not started yet, and again after the ring
    // was started (kick descriptor installed) - the frontend re-sends the addresses of a running ring
    let kick0 = crate::rawpeer::eventfd(0, true);
    let used_all: Vec<u16> = if thorough { (0..=65535).collect() } else { (0..=260).chain([32767, 32768, 65534, 65535]).collect() };
    let used_started: Vec<u16> = if thorough { (0..=65535).step_by(7).chain([65535]).collect() } else { (3..=40).chain([299, 32768, 65535, 0]).collect() };
    let mut used_vals: Vec<(u16, bool)> = used_all.into_iter().map(|u| (u, false)).collect();
    used_vals.extend(used_started.into_iter().map(|u| (u, true)));
    let mut started0 = false;
    for (u, on_started) in used_vals {
        if on_started && !started0 {
            started0 = true;
            if h.ack(SET_VRING_KICK, &p_u64(0), &[std::os::unix::io::AsRawFd::as_raw_fd(&kick0)]) != Ok(true) {
                rep.violation("C14:set_vring_kick-failed", "SET_VRING_KICK for ring 0 failed", json!({"check":"C14","part":"used_idx"}));
                return;
            }
        }
        // used ring at gpa 0x3000: flags u16, idx u16
        // SAFETY: pwrite on our memfd.
        unsafe { libc::pwrite(mem.as_raw_fd(), &u as *const u16 as *const libc::c_void, 2, 0x3002) };
        // with and without the log flag (and a log address): the flag must not change what the ring gets
        let (fl, logaddr) = if u % 2 == 1 { (1u32, USER + 0x8000) } else { (0u32, 0u64) };
        let r = h.ack(SET_VRING_ADDR, &p_vring_addr(0, fl, USER + 0x1000, USER + 0x3000, USER + 0x2000, logaddr), &[]);
        let s = q0(&h).unwrap_or_default();
        rep.evaluations += 1;
        rep.transitions += 1;
        let ok = r == Ok(true) && s.next_used == u && s.desc == 0x1000 && s.used == 0x3000 && s.avail == 0x2000;
        if !ok {
            rep.outcome("ring-addr-differs");
            rep.violation(if on_started { "C14:set_vring_addr:queue-state:started-ring" } else { "C14:set_vring_addr:queue-state" }, &format!("used index {u} in guest memory; after SET_VRING_ADDR with flags {fl:#x} ({r:?}) on a ring that is {} the ring has next_used {} desc {:#x} avail {:#x} used {:#x}", if on_started { "started" } else { "not started" }, s.next_used, s.desc, s.avail, s.used), json!({"check":"C14","part":"used_idx","used":u,"flags":fl,"started":on_started}));
            if r != Ok(true) && renegotiate(&mut h, PROTO, VIRTIO_ALL).is_err() {
                return;
            }
        } else {
            rep.outcome("ring-addr-applied");
            rep.nontrivial += 1;
        }
    }
    // ---- address triples at the edges of the region ----
    let edges: Vec<u64> = vec![0, 0x10, 0xff0, 0x1000, 0x8000, 0xfff0, 0x10000 - 16];
    for &d in &edges {
        for &a in &edges {
            for &u in &edges {
                let r = h.ack(SET_VRING_ADDR, &p_vring_addr(1, 0, USER + d, USER + u, USER + a, 0), &[]);
                rep.evaluations += 1;
                rep.transitions += 1;
                match r {
                    Ok(true) => {
                        let s = h.probe(0).map(|s| s.get(1).cloned().unwrap_or_default()).unwrap_or_default();
                        if s.desc != d || s.avail != a || s.used != u {
                            rep.violation("C14:set_vring_addr:translated-addresses", &format!("offsets desc {d:#x} avail {a:#x} used {u:#x} installed as {:#x}/{:#x}/{:#x}", s.desc, s.avail, s.used), json!({"check":"C14","part":"addr_triples","d":d,"a":a,"u":u}));
                        } else {
                            rep.outcome("triple-applied");
                            rep.nontrivial += 1;
                        }
                    }
                    _ => {
                        // a ring that does not fit may be refused; nothing else to compare
                        rep.outcome("triple-refused");
                        if renegotiate(&mut h, PROTO, VIRTIO_ALL).is_err() {
                            return;
                        }
                    }
                }
            }
        }
    }
}

fn feature_sweeps(rep: &mut Report, thorough: bool) {
    let offered_set: Vec<u64> = vec![VIRTIO_ALL, VIRTIO_F_PROTOCOL_FEATURES, VIRTIO_F_PROTOCOL_FEATURES | (1 << 29), 0x3 | (1 << 29), u64::MAX, VIRTIO_F_PROTOCOL_FEATURES | 0x5555_5555_0000_0000, 0];
    for (oi, &offered) in offered_set.iter().enumerate() {
        for nq in [1usize, 2, 3] {
            if nq != 2 && oi > 2 {
                continue;
            }
            let masks = if nq == 3 { vec![0b101, 0b010] } else { vec![(1u64 << nq) - 1] };
            let cfg = Cfg { num_queues: nq, features: offered, masks, ..Default::default() };
            let mut h = H::new(cfg);
            // protocol features only (REPLY_ACK) so SET_FEATURES is acknowledged
            let setup = (|| -> Result<(), String> {
                match h.req(GET_FEATURES, &[], &[]) {
                    ReqOut::Msg(d, _) => {
                        if rd64(&d.payload, 0) != offered {
                            return Err(format!("GET_FEATURES returned {:#x}, backend offers {offered:#x}", rd64(&d.payload, 0)));
                        }
                    }
                    o => return Err(format!("{o:?}")),
                }
                Ok(())
            })();
            if let Err(e) = setup {
                rep.violation("C14:get_features", &e, json!({"check":"C14","offered":offered}));
                continue;
            }
            let mut reqs: Vec<u64> = vec![0, offered, !offered, offered & 0xffff_ffff, offered | 1 << 63, 1 << 29, (1 << 29) | VIRTIO_F_PROTOCOL_FEATURES];
            for b in 0..64 {
                if thorough || b % 3 == 0 || b == 29 || b == 30 || b == 32 {
                    reqs.push(1 << b);
                    reqs.push(offered & !(1 << b));
                    reqs.push(offered | (1 << b));
                }
            }
            reqs.dedup();
            // without REPLY_ACK offered (bit 30 absent) there are no acks: use a reply-bearing barrier
            let pf = offered & VIRTIO_F_PROTOCOL_FEATURES != 0;
            if pf {
                match h.req(SET_PROTOCOL_FEATURES, &p_u64(PF_REPLY_ACK), &[]) {
                    ReqOut::Msg(..) => h.reply_ack = true,
                    _ => continue,
                }
            }
            for rq in reqs {
                let n_before = h.be.sh.0.lock().unwrap().acked_features.len();
                let e_before = h.be.sh.0.lock().unwrap().event_idx.len();
                let accepted = if pf {
                    matches!(h.ack(SET_FEATURES, &p_u64(rq), &[]), Ok(true))
                } else {
                    h.send(SET_FEATURES, F_VERSION, &p_u64(rq), &[]);
                    matches!(h.req(GET_FEATURES, &[], &[]), ReqOut::Msg(..))
                };
                rep.evaluations += 1;
                rep.transitions += 1;
                let subset = rq & !offered == 0;
                let case = json!({"check":"C14","part":"set_features","offered":format!("{offered:#x}"),"requested":format!("{rq:#x}"),"queues":nq});
                let (acked, evs) = {
                    let s = h.be.sh.0.lock().unwrap();
                    (s.acked_features[n_before..].to_vec(), s.event_idx[e_before..].to_vec())
                };
                if accepted != subset {
                    rep.outcome("feature-subset-check-differs");
                    rep.violation(&format!("C14:set_features:{}", if subset { "subset-rejected" } else { "non-subset-accepted" }), &format!("offered {offered:#x}, requested {rq:#x}: accepted={accepted}"), case);
                } else if accepted {
                    let want_ev = rq & (1 << 29) != 0;
                    let snaps = h.probe_all().unwrap_or_default();
                    let all_q: Vec<bool> = snaps.iter().flat_map(|s| s.iter().map(|q| q.event_idx)).collect();
                    // (delivered at least once, and every delivery carries the right value: the statement
                    // does not say "exactly one callback")
                    if acked.is_empty() || acked.iter().any(|a| *a != rq) || evs.is_empty() || evs.iter().any(|e| *e != want_ev) || all_q.len() != nq || all_q.iter().any(|e| *e != want_ev) {
                        rep.outcome("features-not-delivered");
                        rep.violation("C14:set_features:delivery", &format!("requested {rq:#x}: backend.acked_features got {:x?}, set_event_idx got {:?}, queues' event_idx {:?} (expected {want_ev} on {nq} queues)", acked, evs, all_q), case);
                    } else {
                        rep.outcome("features-delivered");
                        rep.nontrivial += 1;
                    }
                } else {
                    if !acked.is_empty() {
                        rep.violation("C14:set_features:rejected-but-delivered", &format!("rejected mask {rq:#x} still reached the backend: {:x?}", acked), case);
                    } else {
                        rep.outcome("features-rejected");
                        rep.nontrivial += 1;
                    }
                }
                if !accepted {
                    let _ = h.reconnect();
                    let _ = h.req(GET_FEATURES, &[], &[]);
                    if pf {
                        match h.req(SET_PROTOCOL_FEATURES, &p_u64(PF_REPLY_ACK), &[]) {
                            ReqOut::Msg(..) => h.reply_ack = true,
                            _ => break,
                        }
                    }
                }
            }
        }
    }
}


/// Ring addresses with two regions that are adjacent in the frontend's address space but far
/// apart in guest address space: every (desc, avail, used) triple over the edges of both regions
/// must be installed as the guest address of *its own* region.
fn two_region_addresses(rep: &mut Report) {
    let mut h = match daemon(Cfg::default(), PROTO, VIRTIO_ALL) {
        Ok(h) => h,
        Err(e) => return rep.violation("C14:setup", &e, json!({})),
    };
    let mem = memfd("c14-2r", 0x10000);
    let r1 = Region { gpa: 0x0, size: 0x8000, user: USER, offset: 0 };
    let r2 = Region { gpa: 0x10_0000, size: 0x8000, user: USER + 0x8000, offset: 0x8000 };
    if h.ack(SET_MEM_TABLE, &p_mem_table(&[r1, r2]), &[mem.as_raw_fd(), mem.as_raw_fd()]) != Ok(true) {
        return rep.violation("C14:setup", "two-region table refused", json!({"check":"C14","part":"two_region_addresses"}));
    }
    let tr = |off: u64| -> u64 { if off < 0x8000 { off } else { 0x10_0000 + (off - 0x8000) } };
    let edges: Vec<u64> = vec![0, 0x10, 0x4000, 0x7ff0, 0x8000, 0x8010, 0xc000, 0xfff0];
    for &d in &edges {
        for &a in &edges {
            for &u in &edges {
                let r = h.ack(SET_VRING_ADDR, &p_vring_addr(1, 0, USER + d, USER + u, USER + a, 0), &[]);
                rep.evaluations += 1;
                rep.transitions += 1;
                match r {
                    Ok(true) => {
                        let s = h.probe(0).map(|s| s.get(1).cloned().unwrap_or_default()).unwrap_or_default();
                        if s.desc != tr(d) || s.avail != tr(a) || s.used != tr(u) {
                            rep.outcome("two-region-triple-differs");
                            rep.violation("C14:set_vring_addr:translated-addresses", &format!("two regions adjacent in user space (guest 0x0 and 0x100000): user offsets desc {d:#x} avail {a:#x} used {u:#x} installed as {:#x}/{:#x}/{:#x}, expected {:#x}/{:#x}/{:#x}", s.desc, s.avail, s.used, tr(d), tr(a), tr(u)), json!({"check":"C14","part":"two_region_addresses","d":d,"a":a,"u":u}));
                        } else {
                            rep.outcome("two-region-triple-applied");
                            rep.nontrivial += 1;
                        }
                    }
                    _ => {
                        rep.outcome("two-region-triple-refused");
                        if renegotiate(&mut h, PROTO, VIRTIO_ALL).is_err() {
                            return;
                        }
                    }
                }
            }
        }
    }
}

/// Negotiation histories: SET_FEATURES with / without EVENT_IDX interleaved with RESET_OWNER and
/// RESET_DEVICE. After every accepted SET_FEATURES the backend and every queue must hold the
/// *latest* set, whatever was negotiated or reset before.
fn feature_histories(rep: &mut Report, depth: usize) {
    #[derive(Clone, Copy, Debug, PartialEq)]
    enum F {
        Plain,
        EventIdx,
        EventIdxOnly,
        ResetOwner,
        ResetDevice,
    }
    let ops = [F::Plain, F::EventIdx, F::EventIdxOnly, F::ResetOwner, F::ResetDevice];
    let mut seqs: Vec<Vec<F>> = vec![vec![]];
    let mut all: Vec<Vec<F>> = Vec::new();
    for _ in 0..depth {
        let mut next = Vec::new();
        for s in &seqs {
            for o in ops {
                let mut t = s.clone();
                t.push(o);
                next.push(t);
            }
        }
        all.extend(next.iter().filter(|s| !matches!(s.last(), Some(F::ResetOwner | F::ResetDevice))).cloned());
        seqs = next;
    }
    for seq in all {
        let cfg = Cfg { num_queues: 2, features: VIRTIO_ALL, masks: vec![0b11], ..Default::default() };
        let mut h = match daemon(cfg, PROTO, VIRTIO_ALL) {
            Ok(h) => h,
            Err(e) => return rep.violation("C14:setup", &e, json!({})),
        };
        let case = json!({"check":"C14","part":"feature_histories","seq":format!("{seq:?}")});
        for (k, o) in seq.iter().enumerate() {
            let n_before = h.be.sh.0.lock().unwrap().acked_features.len();
            let e_before = h.be.sh.0.lock().unwrap().event_idx.len();
            let (code, payload, set): (u32, Vec<u8>, Option<u64>) = match o {
                F::Plain => (SET_FEATURES, p_u64(VIRTIO_F_PROTOCOL_FEATURES | 0x3), Some(VIRTIO_F_PROTOCOL_FEATURES | 0x3)),
                F::EventIdx => (SET_FEATURES, p_u64(VIRTIO_F_PROTOCOL_FEATURES | 0x3 | 1 << 29), Some(VIRTIO_F_PROTOCOL_FEATURES | 0x3 | 1 << 29)),
                F::EventIdxOnly => (SET_FEATURES, p_u64(VIRTIO_F_PROTOCOL_FEATURES | 1 << 29), Some(VIRTIO_F_PROTOCOL_FEATURES | 1 << 29)),
                F::ResetOwner => (RESET_OWNER, vec![], None),
                F::ResetDevice => (RESET_DEVICE, vec![], None),
            };
            let r = h.ack(code, &payload, &[]);
            rep.evaluations += 1;
            rep.transitions += 1;
            if r != Ok(true) {
                rep.outcome("feature-history-step-failed");
                rep.violation("C14:feature_histories:step-failed", &format!("step {k} ({o:?}) of {seq:?} answered {r:?}"), case.clone());
                break;
            }
            if let Some(f) = set {
                let want_ev = f & (1 << 29) != 0;
                let (acked, evs) = {
                    let s = h.be.sh.0.lock().unwrap();
                    (s.acked_features[n_before..].to_vec(), s.event_idx[e_before..].to_vec())
                };
                let snaps = h.probe_all().unwrap_or_default();
                let all_q: Vec<bool> = snaps.iter().flat_map(|s| s.iter().map(|q| q.event_idx)).collect();
                if acked.is_empty() || acked.iter().any(|a| *a != f) || evs.last() != Some(&want_ev) || all_q.len() != 2 || all_q.iter().any(|e| *e != want_ev) {
                    rep.outcome("feature-history-differs");
                    rep.violation("C14:feature_histories:delivery", &format!("after {:?}: SET_FEATURES({f:#x}) gave backend.acked_features {:x?}, set_event_idx {:?}, queues' event_idx {:?} (expected {want_ev})", &seq[..=k], acked, evs, all_q), case.clone());
                    break;
                }
                rep.outcome("feature-history-delivered");
                rep.nontrivial += 1;
            }
        }
    }
}

fn backend_channel(rep: &mut Report) {
    // each subset once on a fresh session and once after a RESET_DEVICE (which does not renegotiate
    // protocol features: the channel attached afterwards must carry the same flags)
    for mask in 0..16u64 {
        let after_reset = mask & 8 != 0;
        let proto = PF_BACKEND_REQ | PF_MQ | PF_RESET_DEVICE | if mask & 1 != 0 { PF_REPLY_ACK } else { 0 } | if mask & 2 != 0 { PF_SHARED_OBJECT } else { 0 } | if mask & 4 != 0 { PF_SHMEM } else { 0 };
        let mut h = match daemon(Cfg::default(), proto, VIRTIO_ALL) {
            Ok(h) => h,
            Err(e) => {
                rep.violation("C14:setup", &e, json!({"mask":mask}));
                continue;
            }
        };
        let (mine, theirs) = UnixStream::pair().unwrap();
        if after_reset {
            h.send(RESET_DEVICE, F_VERSION, &[], &[]);
        }
        h.send(SET_BACKEND_REQ_FD, F_VERSION, &[], &[theirs.as_raw_fd()]);
        let _ = h.req(GET_FEATURES, &[], &[]); // barrier
        drop(theirs);
        let proxy = h.be.sh.0.lock().unwrap().backend_req.clone();
        rep.evaluations += 1;
        let case = json!({"check":"C14","part":"backend_channel","reply_ack":mask&1!=0,"shared_object":mask&2!=0,"shmem":mask&4!=0,"after_reset_device":after_reset});
        let Some(proxy) = proxy else {
            rep.violation("C14:backend_channel:not-delivered", "SET_BACKEND_REQ_FD did not reach the backend", case);
            continue;
        };
        // pre-queue acknowledgements so that an acknowledged call does not wait
        let u = crate::feops::UUID_A;
        let mut mu = vhost::vhost_user::message::VhostUserSharedMsg::default();
        use vm_memory::ByteValued;
        mu.as_mut_slice().copy_from_slice(&u);
        crate::rawpeer::send_with_fds(mine.as_raw_fd(), &message(B_SHARED_OBJECT_ADD, F_REPLY | F_VERSION, &p_u64(0)), &[]);
        let r1 = proxy.shared_object_add(&mu);
        let w1 = crate::rawpeer::drain(mine.as_raw_fd(), 4096);
        let so_ok = mask & 2 != 0;
        let ra = mask & 1 != 0;
        let mut bad = Vec::new();
        if so_ok {
            let flags_ok = w1.bytes.len() >= 12 && (rd32(&w1.bytes, 4) & F_NEED_REPLY != 0) == ra;
            if w1.bytes.is_empty() || !flags_ok {
                bad.push(format!("shared-object request: {} bytes on the channel, NEED_REPLY={:?}, expected NEED_REPLY={ra}", w1.bytes.len(), w1.bytes.get(4)));
            }
            if r1.is_err() {
                bad.push(format!("shared-object request failed: {:?}", r1.err()));
            }
        } else if r1.is_ok() || !w1.bytes.is_empty() {
            bad.push("shared-object request not refused although SHARED_OBJECT was not negotiated".into());
        }
        // drain a possibly unread pre-queued ack on their side is not possible; use a fresh ack for shmem
        let mm = vhost::vhost_user::message::VhostUserMMap { shmid: 0, padding: [0; 7], fd_offset: 0, shm_offset: 0, len: 0x1000, flags: 0 };
        if !(so_ok && ra) {
            // the first pre-queued ack was not consumed (no ack awaited or request refused): reuse it
        } else {
            crate::rawpeer::send_with_fds(mine.as_raw_fd(), &message(B_SHMEM_UNMAP, F_REPLY | F_VERSION, &p_u64(0)), &[]);
        }
        let shm_ok = mask & 4 != 0;
        let r2 = if shm_ok && ra && !(so_ok && ra) {
            // the queued ack carries the wrong code for this request: replace expectation - skip the awaited variant
            None
        } else {
            Some(proxy.shmem_unmap(&mm))
        };
        let w2 = crate::rawpeer::drain(mine.as_raw_fd(), 4096);
        if let Some(r2) = r2 {
            if shm_ok {
                if w2.bytes.is_empty() || (rd32(&w2.bytes, 4) & F_NEED_REPLY != 0) != ra {
                    bad.push(format!("shmem request: {} bytes, expected NEED_REPLY={ra}", w2.bytes.len()));
                }
                if r2.is_err() {
                    bad.push(format!("shmem request failed: {:?}", r2.err()));
                }
            } else if r2.is_ok() || !w2.bytes.is_empty() {
                bad.push("shmem request not refused although SHMEM was not negotiated".into());
            }
        }
        if bad.is_empty() {
            rep.outcome("backend-channel-inherits-settings");
            rep.nontrivial += 1;
        } else {
            rep.outcome("backend-channel-settings-differ");
            rep.violation("C14:backend_channel:inherited-settings", &bad.join("; "), case);
        }
    }
}

// ---- histories: latest table / latest call descriptor -------------------------------------------

#[derive(Clone, Debug, PartialEq)]
enum HOp {
    TableA,
    TableB,
    Addr,
    Call1,
    Call2,
    CallNone,
    /// GET_VRING_BASE (drops the kick and call descriptors), a signal from the backend, restart
    StopSignalRestart,
    /// SET_MEM_TABLE (table B) that the backend rejects: the table in force stays in force
    TableBRejected,
    UseRing,
}

fn histories(rep: &mut Report, depth: usize) {
    let ops = [HOp::TableA, HOp::TableB, HOp::Addr, HOp::Call1, HOp::Call2, HOp::CallNone, HOp::StopSignalRestart, HOp::TableBRejected, HOp::UseRing];
    let mut seqs: Vec<Vec<usize>> = vec![vec![]];
    let mut all: Vec<Vec<usize>> = Vec::new();
    for _ in 0..depth {
        let mut next = Vec::new();
        for s in &seqs {
            for i in 0..ops.len() {
                let mut t = s.clone();
                t.push(i);
                next.push(t);
            }
        }
        all.extend(next.iter().filter(|s| ops[*s.last().unwrap()] == HOp::UseRing).cloned());
        seqs = next;
    }
    for seq in all {
        let mut h = match daemon(Cfg::default(), PROTO, 0x3 | VIRTIO_F_PROTOCOL_FEATURES) {
            Ok(h) => h,
            Err(e) => return rep.violation("C14:setup", &e, json!({})),
        };
        let mems = [memfd("tblA", 0x10000), memfd("tblB", 0x10000)];
        let calls = [eventfd(0, true), eventfd(0, true)];
        let kick = eventfd(0, true);
        let _ = h.ack(SET_VRING_NUM, &p_vring_state(0, 16), &[]);
        let _ = h.ack(SET_VRING_KICK, &p_u64(0), &[kick.as_raw_fd()]);
        let _ = h.ack(SET_VRING_ENABLE, &p_vring_state(0, 1), &[]);
        // model
        let mut table: Option<usize> = None;
        let mut addr_set = false;
        let mut call: Option<usize> = None;
        let mut counts = [0u64; 2];
        let mut used_idx = [0u16; 2];
        let case = json!({"check":"C14","part":"histories","seq": seq.iter().map(|i| format!("{:?}", ops[*i])).collect::<Vec<_>>()});
        let mut broken = false;
        for (k, i) in seq.iter().enumerate() {
            match ops[*i] {
                HOp::TableA | HOp::TableB => {
                    let t = if ops[*i] == HOp::TableA { 0 } else { 1 };
                    if set_table(&mut h, &mems[t], 0, 0x10000, USER) == Ok(true) {
                        table = Some(t);
                    } else {
                        broken = true;
                    }
                }
                HOp::TableBRejected => {
                    // table B maps the same frontend addresses to guest addresses 0x8000 higher
                    h.be.sh.0.lock().unwrap().fail_update_memory = true;
                    let r = h.ack(SET_MEM_TABLE, &p_mem_table(&[Region { gpa: 0x8000, size: 0x8000, user: USER, offset: 0 }]), &[mems[1].as_raw_fd()]);
                    h.be.sh.0.lock().unwrap().fail_update_memory = false;
                    if r == Ok(true) {
                        rep.violation("C14:rejected-table-acknowledged", "the backend refused the memory table but SET_MEM_TABLE was acknowledged as success", case.clone());
                        broken = true;
                    } else {
                        // a failed request ends the session; the handler's state stays
                        if renegotiate(&mut h, PROTO, 0x3 | VIRTIO_F_PROTOCOL_FEATURES).is_err() {
                            broken = true;
                        }
                    }
                }
                HOp::Addr => {
                    if table.is_none() {
                        continue; // SET_VRING_ADDR without a table is refused and ends the session
                    }
                    if h.ack(SET_VRING_ADDR, &p_vring_addr(0, 0, USER + 0x1000, USER + 0x3000, USER + 0x2000, 0), &[]) == Ok(true) {
                        addr_set = true;
                        // next_used is taken from the used index in the table current at that time
                        let t = table.unwrap();
                        let mut v = 0u16;
                        // SAFETY: pread on our memfd.
                        unsafe { libc::pread(mems[t].as_raw_fd(), &mut v as *mut u16 as *mut libc::c_void, 2, 0x3002) };
                        used_idx = [v, v];
                    } else {
                        broken = true;
                    }
                }
                HOp::Call1 | HOp::Call2 => {
                    let c = if ops[*i] == HOp::Call1 { 0 } else { 1 };
                    if h.ack(SET_VRING_CALL, &p_u64(0), &[calls[c].as_raw_fd()]) == Ok(true) {
                        call = Some(c);
                    } else {
                        broken = true;
                    }
                }
                HOp::CallNone => {
                    if h.ack(SET_VRING_CALL, &p_u64(0x100), &[]) == Ok(true) {
                        call = None;
                    } else {
                        broken = true;
                    }
                }
                HOp::StopSignalRestart => {
                    let _ = h.probe(0); // makes the worker's ring handles available to the harness
                    match h.req(GET_VRING_BASE, &p_vring_state(0, 0), &[]) {
                        ReqOut::Msg(..) => {}
                        _ => {
                            broken = true;
                            continue;
                        }
                    }
                    call = None; // the stop removes the call descriptor
                    let ring = h.be.vrings.lock().unwrap().first().and_then(|v| v.first().cloned());
                    if let Some(r) = ring {
                        use vhost_user_backend::VringT;
                        let _ = r.signal_used_queue();
                    }
                    rep.evaluations += 1;
                    rep.transitions += 1;
                    let got = [eventfd_count(calls[0].as_raw_fd()).unwrap_or(0), eventfd_count(calls[1].as_raw_fd()).unwrap_or(0)];
                    if got != counts {
                        rep.outcome("signal-after-stop-delivered");
                        rep.violation("C14:ring-operation:signal-on-removed-call-descriptor", &format!("after GET_VRING_BASE a signal from the backend raised a call descriptor: counters {:?}, expected {:?}", got, counts), case.clone());
                        broken = true;
                    } else {
                        rep.outcome("signal-after-stop-ignored");
                        rep.nontrivial += 1;
                    }
                    if h.ack(SET_VRING_KICK, &p_u64(0), &[kick.as_raw_fd()]) != Ok(true) {
                        broken = true;
                    }
                }
                HOp::UseRing => {
                    if !addr_set || table.is_none() {
                        continue;
                    }
                    let head = (k as u16) & 0xf;
                    let len = 0x100 + k as u32;
                    h.be.sh.0.lock().unwrap().actions.push_back(Action::AddUsedSignal(head, len));
                    let one: u64 = 1;
                    // SAFETY: write to our own eventfd.
                    unsafe { libc::write(kick.as_raw_fd(), &one as *const u64 as *const libc::c_void, 8) };
                    let _ = h.probe(0);
                    let res = h.be.sh.0.lock().unwrap().action_results.pop();
                    rep.evaluations += 1;
                    rep.transitions += 1;
                    let t = table.unwrap();
                    // expected: used element written into the latest table's file, idx incremented there
                    let slot = (used_idx[0] % 16) as i64;
                    let mut elem = [0u8; 8];
                    let mut idx = 0u16;
                    // SAFETY: pread on our memfds.
                    unsafe {
                        libc::pread(mems[t].as_raw_fd(), elem.as_mut_ptr() as *mut libc::c_void, 8, 0x3004 + slot * 8);
                        libc::pread(mems[t].as_raw_fd(), &mut idx as *mut u16 as *mut libc::c_void, 2, 0x3002);
                    }
                    let want_idx = used_idx[0].wrapping_add(1);
                    let mem_ok = rd32(&elem, 0) == head as u32 && rd32(&elem, 4) == len && idx == want_idx;
                    used_idx[0] = want_idx;
                    if let Some(c) = call {
                        counts[c] += 1;
                    }
                    let got = [eventfd_count(calls[0].as_raw_fd()).unwrap_or(0), eventfd_count(calls[1].as_raw_fd()).unwrap_or(0)];
                    if res.is_none() || !mem_ok || got != counts {
                        rep.outcome("ring-operation-misdirected");
                        rep.violation(
                            if !mem_ok { "C14:ring-operation:not-in-latest-table" } else { "C14:ring-operation:wrong-call-descriptor" },
                            &format!("add_used({head},{len})+signal ({res:?}): latest table {t} has used elem {:?}/idx {idx} (expected ({head},{len})/{want_idx}); call counters {:?}, expected {:?} (latest call descriptor {:?})", (rd32(&elem, 0), rd32(&elem, 4)), got, counts, call),
                            case.clone(),
                        );
                        broken = true;
                    } else {
                        rep.outcome("ring-operation-on-latest");
                        rep.nontrivial += 1;
                    }
                }
            }
            if broken {
                break;
            }
        }
    }
}

pub fn run(rep: &mut Report) {
    let thorough = rep.is_thorough();
    index_sweep(rep);
    size_base_used_sweeps(rep, thorough);
    feature_sweeps(rep, thorough);
    two_region_addresses(rep);
    feature_histories(rep, if thorough { 5 } else { 3 });
    backend_channel(rep);
    histories(rep, if thorough { 5 } else { 4 });
    let p = take_panics();
    if !p.is_empty() {
        rep.violation("C14:panic", &format!("library thread panicked: {:?}", p), json!({"check":"C14","panics":p}));
    }
    rep.states = rep.outcomes.len() as u64;
    rep.traces = rep.evaluations;
    rep.exhaustive = true;
    rep.sample(json!({"part":"set_vring_num","num":3,"expect":"rejected, or the ring really has size 3"}));
    rep.sample(json!({"part":"histories","seq":["TableA","Addr","Call1","TableB","Call2","UseRing"],"expect":"used element in table B's file, only call descriptor 2 signalled"}));
    rep.sample(json!({"part":"set_features","offered":"0x160000003","requested":"0x20000000","expect":"accepted, backend gets exactly 0x20000000, event_idx=true on every queue"}));
    rep.rule = "ring index 0..=255 for each of the 8 per-ring messages; SET_VRING_NUM over 0..=300 and boundaries (0..=65535 and beyond at thorough) with the resulting queue size read back; SET_VRING_BASE then GET_VRING_BASE and used-index contents over 0..=260 and boundaries (0..=65535 at thorough), SET_VRING_ADDR alternately without and with the log flag, on a ring that is not started and again after it was started; 343 address triples at region edges, 512 triples over two regions adjacent in the frontend's address space but not in guest address space; all histories of length <= 3 (5 at thorough) over {SET_FEATURES plain / with EVENT_IDX / EVENT_IDX only, RESET_OWNER, RESET_DEVICE} ending in a SET_FEATURES (backend and queues must hold the latest set); SET_FEATURES for 7 offered masks x (single bits, offered minus/plus one bit, patterns) on 1-3 queues incl. EVENT_IDX; the backend-request channel after each of the 8 subsets of {REPLY_ACK, SHARED_OBJECT, SHMEM}, attached on a fresh session and after a RESET_DEVICE; all histories of length <= 4 (5 at thorough) over {table A, table B, SET_VRING_ADDR, call fd1/fd2/none, GET_VRING_BASE + signal + restart, a table the backend rejects, add_used+signal} ending in a ring operation. Queue state is read by a probe listener inside the worker. Non-trivial = evaluations whose queue state / callback / memory / counter was compared".into();
}

pub fn replay(case: &Value, rep: &mut Report) {
    println!("replay C14 by re-running the quick enumeration; case: {case}");
    run(rep);
}
