//! C06: frontend-side parsers accept only the matching reply and survive hostile peers.
//! Engine E3 by deviations: the correct reply, then every single and every pair of mutations,
//! pre-queued by a raw peer that closes when the endpoint keeps waiting.

use crate::feops::*;
use crate::feraw::*;
use crate::model::validators as refv;
use crate::pxops::*;
use crate::rawpeer::ident;
use crate::recorder::{FrRecorder, Script};
use crate::report::Report;
use crate::spec::*;
use crate::sysshim::coop;
use serde_json::{json, Value};
use std::os::unix::io::{AsRawFd, FromRawFd, RawFd};
use std::os::unix::net::UnixStream;
use std::panic::{catch_unwind, AssertUnwindSafe};
use std::sync::{Arc, Mutex};
use vhost::vhost_user::message::VhostUserHeaderFlag;
use vhost::vhost_user::{Backend, FrontendReqHandler, GpuBackend};

#[derive(Clone, Debug)]
struct Reply {
    code: u32,
    flags: u32,
    size: u32,
    body: Vec<u8>,
    nfds: usize,
}

impl Reply {
    fn from_bytes(b: &[u8], nfds: usize) -> Reply {
        Reply { code: rd32(b, 0), flags: rd32(b, 4), size: rd32(b, 8), body: b[12..].to_vec(), nfds }
    }
    fn bytes(&self) -> Vec<u8> {
        let mut v = header(self.code, self.flags, self.size).to_vec();
        v.extend_from_slice(&self.body);
        v
    }
}

#[derive(Clone, Debug)]
enum Mut {
    Code(u32),
    FlipFlag(u32),
    Version(u32),
    Size(u32),
    SizeDelta(i32),
    TruncBody(usize),
    ExtendBody(usize),
    /// write a u64 at a body offset
    Body64(usize, u64),
    Body32(usize, u32),
    Body8(usize, u8),
    Fds(usize),
}

impl Mut {
    fn dim(&self) -> u32 {
        match self {
            Mut::Code(_) => 0,
            Mut::FlipFlag(_) | Mut::Version(_) => 1,
            Mut::Size(_) | Mut::SizeDelta(_) => 2,
            Mut::TruncBody(_) | Mut::ExtendBody(_) => 3,
            Mut::Body64(o, _) | Mut::Body32(o, _) | Mut::Body8(o, _) => 10 + *o as u32,
            Mut::Fds(_) => 4,
        }
    }
    fn apply(&self, r: &mut Reply) {
        match self {
            Mut::Code(c) => r.code = *c,
            Mut::FlipFlag(b) => r.flags ^= 1 << b,
            Mut::Version(v) => r.flags = (r.flags & !3) | v,
            Mut::Size(s) => r.size = *s,
            Mut::SizeDelta(d) => r.size = (r.size as i64 + *d as i64).max(0) as u32,
            Mut::TruncBody(n) => {
                let l = r.body.len().saturating_sub(*n);
                r.body.truncate(l);
            }
            Mut::ExtendBody(n) => r.body.extend(std::iter::repeat(0xee).take(*n)),
            Mut::Body64(o, v) => {
                if r.body.len() >= o + 8 {
                    r.body[*o..o + 8].copy_from_slice(&v.to_ne_bytes());
                }
            }
            Mut::Body32(o, v) => {
                if r.body.len() >= o + 4 {
                    r.body[*o..o + 4].copy_from_slice(&v.to_ne_bytes());
                }
            }
            Mut::Body8(o, v) => {
                if r.body.len() > *o {
                    r.body[*o] = *v;
                }
            }
            Mut::Fds(n) => r.nfds = *n,
        }
    }
}

fn header_muts(code: u32, max_code: u32) -> Vec<Mut> {
    let mut v = vec![Mut::Code(0), Mut::Code(1), Mut::Code(2), Mut::Code(code.wrapping_sub(1)), Mut::Code(code + 1), Mut::Code(max_code), Mut::Code(max_code + 1), Mut::Code(u32::MAX)];
    for b in [0u32, 1, 2, 3, 4, 31] {
        v.push(Mut::FlipFlag(b));
    }
    for ver in [0u32, 2, 3] {
        v.push(Mut::Version(ver));
    }
    v.extend([Mut::Size(0), Mut::SizeDelta(-1), Mut::SizeDelta(1), Mut::Size(4096), Mut::Size(4097), Mut::Size(u32::MAX)]);
    v.extend([Mut::TruncBody(1), Mut::ExtendBody(1), Mut::TruncBody(8)]);
    v.extend([Mut::Fds(0), Mut::Fds(1), Mut::Fds(2), Mut::Fds(3)]);
    v
}

fn body_muts(body_len: usize, thorough: bool) -> Vec<Mut> {
    let mut v = Vec::new();
    let vals64: &[u64] = if thorough { &[0, 1, 0x100, 0x101, u64::MAX, 1 << 63, 0xffff_ffff, 1 << 32, u64::MAX - 0xfff] } else { &[0, 1, 0x100, 0x101, u64::MAX] };
    let mut o = 0;
    while o + 8 <= body_len && o < 64 {
        for x in vals64 {
            v.push(Mut::Body64(o, *x));
        }
        o += 8;
    }
    let mut o = 0;
    while o + 4 <= body_len && o < 32 {
        for x in [0u32, 1, 2, 4, 0xfff, 0x1000, u32::MAX] {
            v.push(Mut::Body32(o, x));
        }
        o += 4;
    }
    for o in [0usize, 16, 17, 18, 19] {
        if o < body_len {
            v.push(Mut::Body8(o, 0));
            v.push(Mut::Body8(o, 0xff));
        }
    }
    v
}

/// Enumerate 0, 1 and 2 deviations; with `triples` also every 3 deviations on pairwise different
/// dimensions of which at least two are header deviations (the first `nheader` entries).
fn plans(muts: &[Mut], pairs: bool) -> Vec<Vec<Mut>> {
    plans3(muts, pairs, false, 0)
}

fn plans3(muts: &[Mut], pairs: bool, triples: bool, nheader: usize) -> Vec<Vec<Mut>> {
    let mut p: Vec<Vec<Mut>> = vec![vec![]];
    for m in muts {
        p.push(vec![m.clone()]);
    }
    if pairs {
        for i in 0..muts.len() {
            for j in i + 1..muts.len() {
                if muts[i].dim() != muts[j].dim() {
                    p.push(vec![muts[i].clone(), muts[j].clone()]);
                }
            }
        }
    }
    if triples {
        for i in 0..nheader.min(muts.len()) {
            for j in i + 1..nheader.min(muts.len()) {
                if muts[i].dim() == muts[j].dim() {
                    continue;
                }
                for k in j + 1..muts.len() {
                    if muts[k].dim() != muts[i].dim() && muts[k].dim() != muts[j].dim() {
                        p.push(vec![muts[i].clone(), muts[j].clone(), muts[k].clone()]);
                    }
                }
            }
        }
    }
    p
}

/// The statement's acceptance predicate, evaluated on the bytes: REPLY flag, same code, the
/// body the endpoint consumes is present and valid, descriptors exactly when defined.
/// Returns the value the bytes encode.
fn acceptable(op: &FeOp, r: &Reply, body_len: usize, res: &Resources, awaited_ack: bool) -> Option<FeRet> {
    if r.flags & F_REPLY == 0 || r.code != op.code() {
        return None;
    }
    if r.body.len() < body_len {
        return None;
    }
    let b = &r.body[..];
    let rid = ident(res.ret.as_raw_fd());
    let nofd = r.nfds == 0;
    Some(match op {
        FeOp::GetFeatures | FeOp::GetQueueNum | FeOp::GetMaxMemSlots if nofd => FeRet::U64(rd64(b, 0)),
        FeOp::GetProtocolFeatures if nofd => FeRet::U64(rd64(b, 0) & PF_ALL_DEFINED),
        FeOp::GetVringBase(_) if nofd => FeRet::U32(rd32(b, 4)),
        FeOp::GetConfig(o, s, f) if nofd => {
            // valid config body echoing the request's window, payload of exactly `size` bytes
            if !refv::config_bytes_valid(b) || rd32(b, 0) != *o || rd32(b, 4) != *s || r.body.len() < 12 + *s as usize {
                return None;
            }
            let _ = f;
            FeRet::Config(rd32(b, 0), rd32(b, 4), rd32(b, 8), b[12..12 + *s as usize].to_vec())
        }
        FeOp::GetInflightFd(..) if r.nfds == 1 => {
            if !refv::inflight_bytes_valid(b) {
                return None;
            }
            FeRet::Inflight(rd64(b, 0), rd64(b, 8), rd16(b, 16), rd16(b, 18), rid)
        }
        FeOp::GetSharedObject(_) if r.nfds == 1 => FeRet::File(rid),
        FeOp::SetDeviceStateFd(_) => {
            let v = rd64(b, 0);
            // bits 0-7 zero = success; bit 8 = no descriptor
            if v & 0xff != 0 {
                return None;
            }
            if v & 0x100 != 0 && r.nfds == 0 {
                FeRet::OptFile(None)
            } else if v & 0x100 == 0 && r.nfds == 1 {
                FeRet::OptFile(Some(rid))
            } else {
                return None;
            }
        }
        FeOp::CheckDeviceState if nofd => {
            if rd64(b, 0) != 0 {
                return None;
            }
            FeRet::Unit
        }
        FeOp::GetShmemConfig if nofd => FeRet::Shmem(rd32(b, 0), (0..256).map(|i| rd64(b, 8 + i * 8)).collect()),
        FeOp::SetLogBase(_, Some(_)) if nofd => {
            if !refv::log_bytes_valid(b) {
                return None;
            }
            FeRet::Unit
        }
        _ if awaited_ack && nofd && !op.has_reply() => {
            if rd64(b, 0) != 0 {
                return None;
            }
            FeRet::Unit
        }
        _ => return None,
    })
}

fn frontend_replies(rep: &mut Report, res: &Resources, thorough: bool) {
    let script = Script { shmem: (2, vec![0x1000, 0x2000]), ..Default::default() };
    let mut ops = all_ops_basic();
    ops.push(FeOp::SetProtocolFeatures(PF_ALL_DEFINED));
    ops.push(FeOp::SetDeviceStateFd(1));
    for (k, op) in ops.iter().enumerate() {
        let sc = Script { state_returns_file: k % 2 == 1, ..script.clone() };
        let (cb, cf) = correct_reply(op, &sc, res);
        let base = Reply::from_bytes(&cb, cf.len());
        let body_len = base.body.len();
        let mut muts = header_muts(op.code(), 44);
        let nheader = muts.len();
        muts.extend(body_muts(body_len, thorough));
        for plan in plans3(&muts, true, thorough, nheader) {
            let mut r = base.clone();
            for m in &plan {
                m.apply(&mut r);
            }
            let mut f = FeRaw::new(2);
            f.negotiate(VIRTIO_F_PROTOCOL_FEATURES | 0x3, PF_ALL_DEFINED, PF_ALL_DEFINED).unwrap();
            f.fe.set_hdr_flags(VhostUserHeaderFlag::NEED_REPLY);
            let fds: Vec<RawFd> = (0..r.nfds).map(|_| res.ret.as_raw_fd()).collect();
            let bytes = r.bytes();
            f.raw.queue(&bytes, &fds, &[]);
            f.raw.eof_when_empty.set(true);
            let _ = coop::take_hangs();
            let out = catch_unwind(AssertUnwindSafe(|| invoke(&mut f.fe, op, res)));
            let hang = coop::take_hangs().contains(&f.raw.ep_fd);
            rep.evaluations += 1;
            rep.transitions += 1;
            let case = json!({"check":"C06","part":"frontend","op":format!("{op:?}"),"mutations":format!("{plan:?}")});
            let out = match out {
                Ok(o) => o,
                Err(_) => {
                    rep.violation(&format!("C06:frontend:{}:panic", op.name()), &format!("{:?} panicked on reply mutated by {:?}", op, plan), case);
                    continue;
                }
            };
            if hang {
                rep.violation(&format!("C06:frontend:{}:hang", op.name()), "call waits forever after the peer closed", case.clone());
            }
            let acc = acceptable(op, &r, body_len, res, true);
            match (&out, &acc) {
                (Ok(v), Some(w)) if v == w => {
                    rep.outcome(if plan.is_empty() { "fe:correct-reply-accepted" } else { "fe:equivalent-reply-accepted" });
                    rep.nontrivial += 1;
                }
                (Ok(v), Some(w)) => {
                    rep.outcome("fe:wrong-value");
                    rep.violation(&format!("C06:frontend:{}:fabricated-value", op.name()), &format!("{:?}: returned {v:?}, the reply bytes encode {w:?} (mutations {:?})", op, plan), case);
                }
                (Ok(v), None) => {
                    rep.outcome("fe:accepted-non-reply");
                    rep.violation(&format!("C06:frontend:{}:accepted-non-matching-reply", op.name()), &format!("{:?}: returned Ok({v:?}) for bytes that are not a reply to this request (mutations {:?})", op, plan), case);
                }
                (Err(_), _) => {
                    rep.outcome("fe:rejected");
                    if plan.is_empty() {
                        rep.violation(&format!("C06:frontend:{}:correct-reply-rejected", op.name()), &format!("{:?}: {:?}", op, out), case);
                    } else {
                        rep.nontrivial += 1;
                    }
                }
            }
        }
    }
}

fn proxy_replies(rep: &mut Report, res: &Resources, thorough: bool) {
    for op in bp_ops_basic() {
        let base = Reply::from_bytes(&op.ack(0), 0);
        let mut muts = header_muts(op.code(), 10);
        let nheader = muts.len();
        muts.extend(body_muts(8, thorough));
        for plan in plans3(&muts, true, thorough, nheader) {
            let mut r = base.clone();
            for m in &plan {
                m.apply(&mut r);
            }
            let (a, b) = UnixStream::pair().unwrap();
            let fd = a.as_raw_fd();
            let p = Backend::from_stream(a);
            p.set_reply_ack_flag(true);
            p.set_shared_object_flag(true);
            p.set_shmem_flag(true);
            let raw = RawScript::attach(fd, b);
            let fds: Vec<RawFd> = (0..r.nfds).map(|_| res.ret.as_raw_fd()).collect();
            raw.queue(&r.bytes(), &fds, &[]);
            raw.eof_when_empty.set(true);
            let out = catch_unwind(AssertUnwindSafe(|| invoke_bp(&p, &op, res)));
            let hang = coop::take_hangs().contains(&raw.ep_fd);
            rep.evaluations += 1;
            rep.transitions += 1;
            let case = json!({"check":"C06","part":"backend_proxy","op":format!("{op:?}"),"mutations":format!("{plan:?}")});
            let Ok(out) = out else {
                rep.violation("C06:backend_proxy:panic", &format!("{} panicked on {:?}", op.name(), plan), case);
                continue;
            };
            let acceptable = r.flags & F_REPLY != 0 && r.code == op.code() && r.body.len() >= 8 && r.nfds == 0 && rd64(&r.body, 0) == 0;
            if hang {
                rep.violation("C06:backend_proxy:hang", "waits forever after the peer closed", case.clone());
            }
            match (out.is_ok(), acceptable) {
                (true, true) => {
                    rep.outcome("proxy:ack-accepted");
                    rep.nontrivial += 1;
                }
                (true, false) => rep.violation(&format!("C06:backend_proxy:{}:accepted-non-matching-ack", op.name()), &format!("Ok for mutations {:?}", plan), case),
                (false, _) => {
                    rep.outcome("proxy:rejected");
                    if plan.is_empty() {
                        rep.violation("C06:backend_proxy:correct-ack-rejected", &format!("{:?}", out), case);
                    } else {
                        rep.nontrivial += 1;
                    }
                }
            }
        }
    }
    for op in gpu_ops_basic().into_iter().filter(|o| o.awaits_reply()) {
        let good = op.reply(0x0123_4567_89ab_cdef).unwrap();
        let base = Reply::from_bytes(&good, 0);
        let mut muts = header_muts(op.code(), 12);
        let nheader = muts.len();
        // GPU flags: only bit 2 is defined; version bits are not used on this channel
        muts.extend(body_muts(base.body.len().min(16), thorough));
        for plan in plans3(&muts, base.body.len() <= 16 || thorough, thorough && base.body.len() <= 16, nheader) {
            let mut r = base.clone();
            for m in &plan {
                m.apply(&mut r);
            }
            let (a, b) = UnixStream::pair().unwrap();
            let fd = a.as_raw_fd();
            let g = GpuBackend::from_stream(a);
            let raw = RawScript::attach(fd, b);
            let fds: Vec<RawFd> = (0..r.nfds).map(|_| res.ret.as_raw_fd()).collect();
            raw.queue(&r.bytes(), &fds, &[]);
            raw.eof_when_empty.set(true);
            let out = catch_unwind(AssertUnwindSafe(|| invoke_gpu(&g, &op, res)));
            let hang = coop::take_hangs().contains(&raw.ep_fd);
            rep.evaluations += 1;
            rep.transitions += 1;
            let case = json!({"check":"C06","part":"gpu_proxy","op":op.name(),"mutations":format!("{plan:?}")});
            let Ok(out) = out else {
                rep.violation("C06:gpu_proxy:panic", &format!("{} panicked on {:?}", op.name(), plan), case);
                continue;
            };
            if hang {
                rep.violation("C06:gpu_proxy:hang", "waits forever after the peer closed", case.clone());
            }
            let acceptable = r.flags & F_REPLY != 0 && r.code == op.code() && r.body.len() >= base.body.len() && r.nfds == 0;
            match (&out, acceptable) {
                (Ok(v), true) => {
                    let want = match &op {
                        GpuOp::GetProtocolFeatures => GpuRet::U64(rd64(&r.body, 0)),
                        GpuOp::DmabufUpdate(_) => GpuRet::Unit,
                        _ => GpuRet::Bytes(r.body[..base.body.len()].to_vec()),
                    };
                    if *v == want {
                        rep.outcome("gpu:reply-accepted");
                        rep.nontrivial += 1;
                    } else {
                        rep.violation(&format!("C06:gpu_proxy:{}:fabricated-value", op.name()), &format!("mutations {:?}", plan), case);
                    }
                }
                (Ok(_), false) => rep.violation(&format!("C06:gpu_proxy:{}:accepted-non-matching-reply", op.name()), &format!("Ok for mutations {:?}", plan), case),
                (Err(_), _) => {
                    rep.outcome("gpu:rejected");
                    if plan.is_empty() {
                        rep.violation("C06:gpu_proxy:correct-reply-rejected", &format!("{}", op.name()), case);
                    } else {
                        rep.nontrivial += 1;
                    }
                }
            }
        }
    }
}

/// The frontend's server for backend-initiated requests fed hostile bytes and descriptors.
fn request_server(rep: &mut Report, res: &Resources, thorough: bool) {
    let u = crate::feops::UUID_A;
    let mut bodies: Vec<Vec<u8>> = vec![vec![], p_uuid(&u), p_uuid(&[0; 16]), p_uuid(&[0xff; 16]), p_mmap(1, 0x1000, 0x2000, 0x3000, 1), p_mmap(1, 0, 0, 0, 0), p_mmap(0, u64::MAX, 0, 1, 0), p_mmap(0, 0, u64::MAX, 2, 1), p_mmap(3, 1, 1, 1, 2), p_mmap(3, 1, 1, 1, u64::MAX), vec![0u8; 8], vec![0xffu8; 40], vec![0u8; 15], vec![0u8; 17], vec![0u8; 39], vec![0u8; 41]];
    if thorough {
        bodies.push(vec![0x55; 4096]);
        bodies.push(vec![0x55; 4095]);
    }
    let codes: Vec<u32> = (0..=16).chain([17, 255, 256, 0x7fff_ffff, u32::MAX]).collect();
    let flagsv: Vec<u32> = vec![F_VERSION, F_VERSION | F_NEED_REPLY, F_VERSION | F_REPLY, 0, 2, 3, F_VERSION | 0x10, F_VERSION | 0x8000_0000, F_VERSION | F_REPLY | F_NEED_REPLY];
    for &code in &codes {
        for &flags in &flagsv {
            for body in &bodies {
                for size_delta in [0i64, -1, 1, 4096, 4097] {
                    if !thorough && size_delta.abs() > 1 && flags != F_VERSION {
                        continue;
                    }
                    for nfds in 0..=3usize {
                        for reply_ack in [false, true] {
                            if !reply_ack && (nfds > 1 || size_delta != 0) && !thorough {
                                continue;
                            }
                            let size = (body.len() as i64 + size_delta).clamp(0, u32::MAX as i64) as u32;
                            let size = if size_delta >= 4096 { size_delta as u32 } else { size };
                            let rec = Arc::new(Mutex::new(FrRecorder::default()));
                            let mut h = FrontendReqHandler::new(rec.clone()).unwrap();
                            h.set_reply_ack_flag(reply_ack);
                            // SAFETY: dup of tx; we own the copy.
                            let tx = unsafe { libc::fcntl(h.get_tx_raw_fd(), libc::F_DUPFD_CLOEXEC, 3) };
                            let peer = unsafe { UnixStream::from_raw_fd(tx) };
                            let raw = RawScript::attach(h.as_raw_fd(), peer);
                            let mut bytes = header(code, flags, size).to_vec();
                            bytes.extend_from_slice(body);
                            let fds: Vec<RawFd> = (0..nfds).map(|i| res.mem[i].as_raw_fd()).collect();
                            raw.queue(&bytes, &fds, &[]);
                            raw.eof_when_empty.set(true);
                            let out = catch_unwind(AssertUnwindSafe(|| h.handle_request()));
                            let _ = coop::take_hangs();
                            rep.evaluations += 1;
                            rep.transitions += 1;
                            let case = json!({"check":"C06","part":"request_server","code":code,"flags":flags,"size":size,"body_len":body.len(),"nfds":nfds,"reply_ack":reply_ack});
                            if out.is_err() {
                                rep.outcome("frs:panic");
                                rep.violation("C06:frontend_req_server:panic", &format!("handle_request panicked: code {code} flags {flags:#x} size {size} body {} fds {nfds}", body.len()), case);
                                continue;
                            }
                            let log = rec.lock().unwrap().log.clone();
                            if log.is_empty() {
                                rep.outcome("frs:not-dispatched");
                                continue;
                            }
                            // dispatched: the request must have been well-formed
                            let (want_len, want_fds, valid) = match code {
                                B_CONFIG_CHANGE_MSG => (0usize, 0usize, true),
                                B_SHARED_OBJECT_ADD | B_SHARED_OBJECT_REMOVE => (16, 0, body.len() >= 16 && refv::uuid_bytes_valid(body)),
                                B_SHARED_OBJECT_LOOKUP => (16, 1, body.len() >= 16 && refv::uuid_bytes_valid(body)),
                                B_SHMEM_MAP => (40, 1, body.len() >= 40 && refv::mmap_bytes_valid(body)),
                                B_SHMEM_UNMAP => (40, 0, body.len() >= 40 && refv::mmap_bytes_valid(body)),
                                _ => (usize::MAX, 0, false),
                            };
                            let hdr_ok = flags & 3 == 1 && flags & F_REPLY == 0 && flags & !0xf == 0;
                            let well_formed = hdr_ok && size as usize == want_len && body.len() >= want_len && valid && nfds == want_fds;
                            if well_formed && log.len() == 1 {
                                rep.outcome("frs:dispatched-well-formed");
                                rep.nontrivial += 1;
                            } else {
                                rep.outcome("frs:dispatched-malformed");
                                rep.violation(&format!("C06:frontend_req_server:dispatched-malformed:{}", log[0].op), &format!("handler {} invoked {}x for code {code} flags {flags:#x} size {size} body {} fds {nfds} (prescribed: size {want_len}, fds {want_fds}, valid body {valid})", log[0].op, log.len(), body.len()), case);
                            }
                        }
                    }
                }
            }
        }
    }
}

pub fn run(rep: &mut Report) {
    let thorough = rep.is_thorough();
    coop::enable();
    let res = Resources::new();
    frontend_replies(rep, &res, thorough);
    proxy_replies(rep, &res, thorough);
    request_server(rep, &res, thorough);
    coop::disable();
    rep.states = rep.outcomes.len() as u64;
    rep.traces = rep.evaluations;
    rep.exhaustive = true;
    rep.sample(json!({"part":"frontend","op":"GetFeatures","mutations":["FlipFlag(2)"],"expect":"Err (REPLY flag missing)"}));
    rep.sample(json!({"part":"frontend","op":"SetVringNum(0,128)","mutations":["Body64(0,1)"],"expect":"Err (non-zero acknowledgement)"}));
    rep.sample(json!({"part":"request_server","code":9,"flags":1,"size":40,"nfds":2,"expect":"handler not invoked"}));
    rep.rule = "for each of the reply-bearing and acknowledged frontend operations, 5 proxy calls (ack mode) and 4 reply-awaiting GPU calls: the correct reply, then every single mutation, every pair of mutations on different dimensions (and at thorough every triple with at least two header deviations) from {other/invalid code, each flag bit, version 0/2/3, size field 0/-1/+1/4096/4097/max, body truncated/extended, each body field to each lattice value, 0..=3 descriptors}; replies are pre-queued and the peer closes when the endpoint keeps waiting. For the frontend request server: codes 0..=16 and outliers x flag words x 16 bodies x size deltas x 0..=3 descriptors. Non-trivial = a deviating reply that was rejected, or an accepted one whose bytes satisfy the acceptance predicate and decode to the returned value".into();
    rep.assumptions.push("acceptance predicate = the statement's (REPLY flag, same code, valid body, descriptors exactly when defined); the crate may reject more".into());
}

pub fn replay(case: &Value, rep: &mut Report) {
    println!("replay C06 by re-running the quick enumeration; case: {case}");
    run(rep);
}
