//! C19: kernel vhost / vDPA operations issue exactly the UAPI ioctls with UAPI layouts.
//! Engine E3 with `ioctl`/`open64` interposition; oracle = numbers and offsets computed by gcc
//! from <linux/vhost.h> (build.rs -> uapi_ref.rs).

use crate::lattice::*;
use crate::report::Report;
use crate::sysshim::{ioctl_capture, IoctlAnswer, IoctlRec};
use serde_json::{json, Value};
use std::os::unix::io::AsRawFd;
use vhost::net::VhostNet;
use vhost::vdpa::VhostVdpa;
use vhost::vhost_kern::net::Net;
use vhost::vhost_kern::vdpa::VhostKernVdpa;
use vhost::vhost_kern::vhost_binding::{vhost_msg, vhost_msg_v2};
use vhost::vhost_kern::vsock::Vsock;
use vhost::vhost_kern::{VhostKernBackend, VhostKernFeatures};
use vhost::vsock::VhostVsock;
use vhost::{
    VhostAccess, VhostBackend, VhostIotlbBackend, VhostIotlbMsg, VhostIotlbMsgParser, VhostIotlbType,
    VhostUserDirtyLogRegion, VhostUserMemoryRegionInfo, VringConfigData,
};
use vm_memory::{GuestAddress, GuestMemory, GuestMemoryMmap};
use vmm_sys_util::eventfd::EventFd;

include!(concat!(env!("OUT_DIR"), "/uapi_ref.rs"));

fn req(name: &str) -> u64 {
    UAPI_REQ.iter().find(|(n, _)| *n == name).unwrap_or_else(|| panic!("no UAPI request {name}")).1
}
fn lay(name: &str) -> usize {
    UAPI_LAYOUT.iter().find(|(n, _)| *n == name).unwrap_or_else(|| panic!("no UAPI layout {name}")).1
}

struct Arg(Vec<u8>);
impl Arg {
    fn new(sz: usize) -> Self {
        Arg(vec![0u8; sz])
    }
    fn u8(mut self, off: usize, v: u8) -> Self {
        self.0[off] = v;
        self
    }
    fn u16(mut self, off: usize, v: u16) -> Self {
        self.0[off..off + 2].copy_from_slice(&v.to_ne_bytes());
        self
    }
    fn u32(mut self, off: usize, v: u32) -> Self {
        self.0[off..off + 4].copy_from_slice(&v.to_ne_bytes());
        self
    }
    fn u64(mut self, off: usize, v: u64) -> Self {
        self.0[off..off + 8].copy_from_slice(&v.to_ne_bytes());
        self
    }
    fn bytes(mut self, off: usize, v: &[u8]) -> Self {
        self.0[off..off + v.len()].copy_from_slice(v);
        self
    }
}

fn vring_state(index: u32, num: u32) -> Vec<u8> {
    Arg::new(lay("sizeof struct vhost_vring_state"))
        .u32(lay("struct vhost_vring_state.index"), index)
        .u32(lay("struct vhost_vring_state.num"), num)
        .0
}
fn vring_file(index: u32, fd: i32) -> Vec<u8> {
    Arg::new(lay("sizeof struct vhost_vring_file"))
        .u32(lay("struct vhost_vring_file.index"), index)
        .u32(lay("struct vhost_vring_file.fd"), fd as u32)
        .0
}
fn vring_addr(index: u32, flags: u32, desc: u64, used: u64, avail: u64, log: u64) -> Vec<u8> {
    Arg::new(lay("sizeof struct vhost_vring_addr"))
        .u32(lay("struct vhost_vring_addr.index"), index)
        .u32(lay("struct vhost_vring_addr.flags"), flags)
        .u64(lay("struct vhost_vring_addr.desc_user_addr"), desc)
        .u64(lay("struct vhost_vring_addr.used_user_addr"), used)
        .u64(lay("struct vhost_vring_addr.avail_user_addr"), avail)
        .u64(lay("struct vhost_vring_addr.log_guest_addr"), log)
        .0
}

struct Ctx<'a> {
    rep: &'a mut Report,
    backend: &'static str,
    ops: std::collections::BTreeSet<String>,
}

impl Ctx<'_> {
    /// Compare the captured ioctls of one operation with the expectation.
    /// `expect`: None = no ioctl may be issued; Some((request name, argument bytes or None for
    /// "no argument / read-only argument")).
    fn check(&mut self, op: &str, args: Value, recs: Vec<IoctlRec>, expect: Option<(&str, Option<Vec<u8>>)>) {
        self.rep.evaluations += 1;
        self.rep.transitions += 1;
        self.ops.insert(format!("{}:{op}", self.backend));
        let case = json!({"check": "C19", "backend": self.backend, "op": op, "args": args});
        match expect {
            None => {
                self.rep.outcome("refused-before-ioctl");
                if !recs.is_empty() {
                    self.rep.violation(
                        &format!("C19:{}:{op}:ioctl-issued-for-invalid-config", self.backend),
                        &format!("{op}: {} ioctl(s) issued although the configuration must be refused first: {:#x}", recs.len(), recs[0].req),
                        case,
                    );
                }
            }
            Some((name, bytes)) => {
                let want = req(name);
                if recs.len() != 1 {
                    self.rep.violation(
                        &format!("C19:{}:{op}:ioctl-count", self.backend),
                        &format!("{op}: expected exactly one ioctl {name}, saw {}", recs.len()),
                        case,
                    );
                    return;
                }
                let r = &recs[0];
                self.rep.nontrivial += 1;
                self.rep.outcome(&format!("issued:{name}"));
                if r.req != want {
                    self.rep.violation(
                        &format!("C19:{}:{op}:request-number", self.backend),
                        &format!("{op}: issued request {:#x}, UAPI {name} is {:#x}", r.req, want),
                        case,
                    );
                    return;
                }
                if let Some(b) = bytes {
                    if r.arg != b {
                        self.rep.violation(
                            &format!("C19:{}:{op}:argument-bytes", self.backend),
                            &format!("{op}: argument bytes {:02x?} differ from UAPI layout {:02x?}", r.arg, b),
                            case,
                        );
                    }
                }
            }
        }
    }

    fn ret_mismatch(&mut self, op: &str, args: Value, got: String, want: String) {
        self.rep.violation(
            &format!("C19:{}:{op}:return-value", self.backend),
            &format!("{op}: returned {got}, kernel wrote back {want}"),
            json!({"check": "C19", "backend": self.backend, "op": op, "args": args}),
        );
    }
}

fn answer_bytes(b: &[u8]) {
    ioctl_capture::answer(IoctlAnswer { rc: 0, errno: 0, writeback: b.to_vec() });
}

fn mem_layouts() -> Vec<Vec<(u64, usize)>> {
    vec![
        vec![(0, 0x10000)],
        vec![(0, 0x4000), (0x10_0000, 0x8000)],
        vec![(0x1000, 0x3000), (0x8000, 0x4000), (0x4000_0000, 0x10000)],
    ]
}

/// Operations common to every kernel backend (blanket `VhostBackend` impl).
fn common_ops<B: VhostBackend + VhostKernBackend>(ctx: &mut Ctx, b: &B, mem: &GuestMemoryMmap, translate: bool, set_addr: &dyn Fn(usize, &VringConfigData) -> vhost::Result<()>, l64: &[u64], l32: &[u32], l16: &[u16]) {
    // get_features / set_features
    for &v in l64 {
        answer_bytes(&v.to_ne_bytes());
        let r = b.get_features();
        ctx.check("get_features", json!({"kernel_value": v}), ioctl_capture::take(), Some(("VHOST_GET_FEATURES", None)));
        if r.as_ref().ok() != Some(&v) {
            ctx.ret_mismatch("get_features", json!(v), format!("{r:?}"), format!("{v:#x}"));
        }
        let _ = b.set_features(v);
        ctx.check("set_features", json!({"features": v}), ioctl_capture::take(), Some(("VHOST_SET_FEATURES", Some(v.to_ne_bytes().to_vec()))));
        let _ = b.set_log_base(v, None);
        ctx.check("set_log_base", json!({"base": v}), ioctl_capture::take(), Some(("VHOST_SET_LOG_BASE", Some(v.to_ne_bytes().to_vec()))));
    }
    // a failing kernel answer must surface as an error
    ioctl_capture::answer(IoctlAnswer { rc: -1, errno: libc::EPERM, writeback: vec![] });
    let r = b.set_features(1);
    let _ = ioctl_capture::take();
    ctx.rep.evaluations += 1;
    if r.is_ok() {
        ctx.ret_mismatch("set_features", json!("kernel returns -1/EPERM"), "Ok".into(), "Err".into());
    } else {
        ctx.rep.outcome("kernel-error-propagated");
    }
    let _ = b.set_owner();
    ctx.check("set_owner", json!({}), ioctl_capture::take(), Some(("VHOST_SET_OWNER", Some(vec![]))));
    let _ = b.reset_owner();
    ctx.check("reset_owner", json!({}), ioctl_capture::take(), Some(("VHOST_RESET_OWNER", Some(vec![]))));
    // set_log_base with a region must be refused by the kernel backends (no ioctl)
    let r = b.set_log_base(0x1000, Some(VhostUserDirtyLogRegion { mmap_size: 0x1000, mmap_offset: 0, mmap_handle: 0 }));
    let recs = ioctl_capture::take();
    ctx.rep.evaluations += 1;
    if r.is_ok() || !recs.is_empty() {
        ctx.rep.violation(&format!("C19:{}:set_log_base:region-accepted", ctx.backend), "set_log_base with a shared-memory region accepted by a kernel backend", json!({"check":"C19","op":"set_log_base_region"}));
    }
    for fd in [0i32, 1, 7, 1023, i32::MAX] {
        let _ = b.set_log_fd(fd);
        ctx.check("set_log_fd", json!({"fd": fd}), ioctl_capture::take(), Some(("VHOST_SET_LOG_FD", Some(fd.to_ne_bytes().to_vec()))));
    }
    // per-queue operations
    let qidx: Vec<usize> = {
        let mut v: Vec<usize> = vec![0, 1, 2, 255, 256, 65535, 65536, 0xffff_ffff];
        v.extend(l32.iter().take(12).map(|x| *x as usize));
        v.sort();
        v.dedup();
        v
    };
    let ev = EventFd::new(0).unwrap();
    for &q in &qidx {
        for &n in l16 {
            let _ = b.set_vring_num(q, n);
            ctx.check("set_vring_num", json!({"q": q, "num": n}), ioctl_capture::take(), Some(("VHOST_SET_VRING_NUM", Some(vring_state(q as u32, n as u32)))));
            let _ = b.set_vring_base(q, n);
            ctx.check("set_vring_base", json!({"q": q, "base": n}), ioctl_capture::take(), Some(("VHOST_SET_VRING_BASE", Some(vring_state(q as u32, n as u32)))));
        }
        // kernel write-back values: the whole 32-bit lattice plus packed-ring encodings (last used
        // index and wrap counters in bits 16..31), which must come back unmodified
        let wbs: Vec<u32> = l32.iter().copied().chain([0x1_0000, 0x8001_8005, 0xffff_0000, 0x7fff_ffff, 0x8000_0000, 0xffff_ffff]).collect();
        for &wb in &wbs {
            answer_bytes(&vring_state(q as u32, wb));
            let r = b.get_vring_base(q);
            ctx.check("get_vring_base", json!({"q": q, "kernel_num": wb}), ioctl_capture::take(), Some(("VHOST_GET_VRING_BASE", Some(vring_state(q as u32, 0)))));
            if r.as_ref().ok() != Some(&wb) {
                ctx.ret_mismatch("get_vring_base", json!({"q": q}), format!("{r:?}"), format!("{wb}"));
            }
        }
        let _ = b.set_vring_call(q, &ev);
        ctx.check("set_vring_call", json!({"q": q}), ioctl_capture::take(), Some(("VHOST_SET_VRING_CALL", Some(vring_file(q as u32, ev.as_raw_fd())))));
        let _ = b.set_vring_kick(q, &ev);
        ctx.check("set_vring_kick", json!({"q": q}), ioctl_capture::take(), Some(("VHOST_SET_VRING_KICK", Some(vring_file(q as u32, ev.as_raw_fd())))));
        let _ = b.set_vring_err(q, &ev);
        ctx.check("set_vring_err", json!({"q": q}), ioctl_capture::take(), Some(("VHOST_SET_VRING_ERR", Some(vring_file(q as u32, ev.as_raw_fd())))));
    }
    // memory tables of 1..=255 regions (and the refused sizes 0 and 256)
    let rsz = lay("sizeof struct vhost_memory_region");
    let roff = lay("struct vhost_memory.regions");
    for n in (0..=257usize).filter(|n| *n <= 8 || *n >= 250 || n % 31 == 0 || [16, 32, 33, 64, 127, 128, 129].contains(n)) {
        let regions: Vec<VhostUserMemoryRegionInfo> = (0..n)
            .map(|i| VhostUserMemoryRegionInfo {
                guest_phys_addr: l64[i % l64.len()] ^ ((i as u64) << 20),
                memory_size: l64[(i * 7 + 3) % l64.len()].wrapping_add(i as u64),
                userspace_addr: l64[(i * 5 + 1) % l64.len()] ^ 0x5a5a_0000,
                mmap_offset: i as u64,
                mmap_handle: -1,
                ..Default::default()
            })
            .collect();
        let r = b.set_mem_table(&regions);
        let recs = ioctl_capture::take();
        if n == 0 || n > 255 {
            ctx.check("set_mem_table", json!({"regions": n}), recs, None);
            if r.is_ok() {
                ctx.ret_mismatch("set_mem_table", json!({"regions": n}), "Ok".into(), "Err (0 or >255 regions)".into());
            }
            continue;
        }
        let mut a = Arg::new(roff + n * rsz).u32(lay("struct vhost_memory.nregions"), n as u32).u32(lay("struct vhost_memory.padding"), 0);
        for (i, rg) in regions.iter().enumerate() {
            let o = roff + i * rsz;
            a = a
                .u64(o + lay("struct vhost_memory_region.guest_phys_addr"), rg.guest_phys_addr)
                .u64(o + lay("struct vhost_memory_region.memory_size"), rg.memory_size)
                .u64(o + lay("struct vhost_memory_region.userspace_addr"), rg.userspace_addr)
                .u64(o + lay("struct vhost_memory_region.flags_padding"), 0);
        }
        ctx.check("set_mem_table", json!({"regions": n}), recs, Some(("VHOST_SET_MEM_TABLE", Some(a.0))));
    }
    // ring configuration: validation before any ioctl, then address translation
    let first = mem.iter().next().unwrap();
    use vm_memory::GuestMemoryRegion;
    let base = first.start_addr().0;
    let sizes: Vec<u16> = {
        let mut v = l16.to_vec();
        v.extend_from_slice(&[4, 8, 16, 24, 32, 64, 100, 128, 129, 512, 1024]);
        v.sort();
        v.dedup();
        v
    };
    for &max in &[0u16, 1, 16, 256, 1024, 32768, 65535] {
        for &sz in &sizes {
            for &(flags, log) in &[(0u32, None), (0, Some(0x2000u64)), (1, None), (1, Some(0x2000u64)), (1, Some(0))] {
                let cfg = VringConfigData {
                    queue_max_size: max,
                    queue_size: sz,
                    flags,
                    desc_table_addr: base,
                    used_ring_addr: base + 0x400,
                    avail_ring_addr: base + 0x800,
                    log_addr: log,
                };
                let must_refuse = sz == 0 || !sz.is_power_of_two() || sz > max || (flags & 1 != 0 && log.is_none());
                let r = set_addr(3, &cfg);
                let recs = ioctl_capture::take();
                let args = json!({"max": max, "size": sz, "flags": flags, "log": log});
                if must_refuse {
                    ctx.check("set_vring_addr", args.clone(), recs, None);
                    if r.is_ok() {
                        ctx.ret_mismatch("set_vring_addr", args, "Ok".into(), "Err (invalid ring configuration)".into());
                    }
                } else if r.is_ok() {
                    let host = |gpa: u64| -> u64 {
                        if translate {
                            mem.get_host_address(GuestAddress(gpa)).map(|p| p as u64).unwrap_or(0)
                        } else {
                            gpa
                        }
                    };
                    let want = vring_addr(3, flags, host(base), host(base + 0x400), host(base + 0x800), if flags & 1 != 0 { log.unwrap_or(0) } else { 0 });
                    ctx.check("set_vring_addr", args, recs, Some(("VHOST_SET_VRING_ADDR", Some(want))));
                } else {
                    // refused for a reason the statement does not list (e.g. ring does not fit the
                    // region): allowed, but then nothing may have been issued
                    ctx.check("set_vring_addr", args, recs, None);
                }
            }
        }
    }
    // addresses in every region, at its edges
    for region in mem.iter() {
        let s = region.start_addr().0;
        let len = region.len();
        for &(d, u, a) in &[(0u64, 0x400u64, 0x800u64), (0x100, 0x500, 0x900), (len - 0x1000, len - 0xc00, len - 0x800)] {
            let cfg = VringConfigData { queue_max_size: 16, queue_size: 16, flags: 0, desc_table_addr: s + d, used_ring_addr: s + u, avail_ring_addr: s + a, log_addr: None };
            let r = set_addr(1, &cfg);
            let recs = ioctl_capture::take();
            if r.is_ok() {
                let host = |gpa: u64| if translate { mem.get_host_address(GuestAddress(gpa)).map(|p| p as u64).unwrap_or(0) } else { gpa };
                ctx.check("set_vring_addr", json!({"desc": s + d, "used": s + u, "avail": s + a}), recs, Some(("VHOST_SET_VRING_ADDR", Some(vring_addr(1, 0, host(s + d), host(s + u), host(s + a), 0)))));
            } else {
                ctx.check("set_vring_addr", json!({"desc": s + d}), recs, None);
            }
        }
    }
    // the three rings in different regions: every assignment of (descriptor table, used ring,
    // available ring) to the regions of the layout
    let starts: Vec<u64> = mem.iter().map(|r| r.start_addr().0).collect();
    for &d in &starts {
        for &u in &starts {
            for &a in &starts {
                let cfg = VringConfigData { queue_max_size: 16, queue_size: 16, flags: 0, desc_table_addr: d + 0x100, used_ring_addr: u + 0x500, avail_ring_addr: a + 0x900, log_addr: None };
                let r = set_addr(2, &cfg);
                let recs = ioctl_capture::take();
                let args = json!({"desc": d + 0x100, "used": u + 0x500, "avail": a + 0x900, "rings_in_different_regions": !(d == u && u == a)});
                if r.is_ok() {
                    let host = |gpa: u64| if translate { mem.get_host_address(GuestAddress(gpa)).map(|p| p as u64).unwrap_or(0) } else { gpa };
                    ctx.check("set_vring_addr", args, recs, Some(("VHOST_SET_VRING_ADDR", Some(vring_addr(2, 0, host(d + 0x100), host(u + 0x500), host(a + 0x900), 0)))));
                } else {
                    ctx.ret_mismatch("set_vring_addr", args, "Err".into(), "Ok (every ring lies inside a region of the table)".into());
                }
            }
        }
    }
}

fn iotlb_expected(v2: bool, m: &VhostIotlbMsg) -> Vec<u8> {
    let (sz, ioff) = if v2 { (lay("sizeof struct vhost_msg_v2"), lay("struct vhost_msg_v2.iotlb")) } else { (lay("sizeof struct vhost_msg"), lay("struct vhost_msg.iotlb")) };
    let ty = if v2 { lay("VHOST_IOTLB_MSG_V2") } else { lay("VHOST_IOTLB_MSG") } as u32;
    Arg::new(sz)
        .u32(0, ty)
        .u64(ioff + lay("struct vhost_iotlb_msg.iova"), m.iova)
        .u64(ioff + lay("struct vhost_iotlb_msg.size"), m.size)
        .u64(ioff + lay("struct vhost_iotlb_msg.uaddr"), m.userspace_addr)
        .u8(ioff + lay("struct vhost_iotlb_msg.perm"), m.perm as u8)
        .u8(ioff + lay("struct vhost_iotlb_msg.type"), m.msg_type as u8)
        .0
}

/// Compare an IOTLB message at the UAPI member offsets (implicit struct padding and the unused
/// tail of the union are not part of the layout and are ignored); the length must match.
fn iotlb_same(v2: bool, got: &[u8], want: &[u8]) -> bool {
    if got.len() != want.len() {
        return false;
    }
    let ioff = if v2 { lay("struct vhost_msg_v2.iotlb") } else { lay("struct vhost_msg.iotlb") };
    let mut ranges = vec![(0usize, 4usize)];
    if v2 {
        ranges.push((lay("struct vhost_msg_v2.asid"), 4));
    }
    for (m, l) in [("iova", 8), ("size", 8), ("uaddr", 8), ("perm", 1), ("type", 1)] {
        ranges.push((ioff + lay(&format!("struct vhost_iotlb_msg.{m}")), l));
    }
    ranges.iter().all(|(o, l)| got[*o..*o + *l] == want[*o..*o + *l])
}

fn read_back(fd: i32, off: &mut i64, len: usize) -> Vec<u8> {
    let mut end = 0i64;
    // SAFETY: plain lseek/pread on our memfd.
    unsafe {
        end = end.max(libc::lseek(fd, 0, libc::SEEK_CUR));
    }
    let n = (end - *off).max(0) as usize;
    let mut buf = vec![0u8; n.max(len)];
    let r = unsafe { libc::pread(fd, buf.as_mut_ptr() as *mut libc::c_void, n, *off) };
    buf.truncate(r.max(0) as usize);
    *off = end;
    buf
}

fn vdpa_ops(ctx: &mut Ctx, mem: &GuestMemoryMmap, l64: &[u64], l32: &[u32]) {
    let v = VhostKernVdpa::new("/dev/vhost-vdpa-0", mem).expect("open vdpa dummy");
    let fd = v.as_raw_fd();
    let mut off = 0i64;
    for &x in l32 {
        answer_bytes(&x.to_ne_bytes());
        let r = v.get_device_id();
        ctx.check("get_device_id", json!(x), ioctl_capture::take(), Some(("VHOST_VDPA_GET_DEVICE_ID", None)));
        if r.as_ref().ok() != Some(&x) {
            ctx.ret_mismatch("get_device_id", json!(x), format!("{r:?}"), format!("{x}"));
        }
        for (op, name) in [("get_config_size", "VHOST_VDPA_GET_CONFIG_SIZE"), ("get_vqs_count", "VHOST_VDPA_GET_VQS_COUNT"), ("get_group_num", "VHOST_VDPA_GET_GROUP_NUM"), ("get_as_num", "VHOST_VDPA_GET_AS_NUM")] {
            answer_bytes(&x.to_ne_bytes());
            let r = match op {
                "get_config_size" => v.get_config_size(),
                "get_vqs_count" => v.get_vqs_count(),
                "get_group_num" => v.get_group_num(),
                _ => v.get_as_num(),
            };
            ctx.check(op, json!(x), ioctl_capture::take(), Some((name, None)));
            if r.as_ref().ok() != Some(&x) {
                ctx.ret_mismatch(op, json!(x), format!("{r:?}"), format!("{x}"));
            }
        }
        for &q in l32.iter().take(8) {
            answer_bytes(&vring_state(q, x));
            let r = v.get_vring_group(q);
            ctx.check("get_vring_group", json!({"q": q, "kernel": x}), ioctl_capture::take(), Some(("VHOST_VDPA_GET_VRING_GROUP", Some(vring_state(q, 0)))));
            if r.as_ref().ok() != Some(&x) {
                ctx.ret_mismatch("get_vring_group", json!({"q": q}), format!("{r:?}"), format!("{x}"));
            }
            let _ = v.set_group_asid(q, x);
            ctx.check("set_group_asid", json!({"group": q, "asid": x}), ioctl_capture::take(), Some(("VHOST_VDPA_SET_GROUP_ASID", Some(vring_state(q, x)))));
            let _ = VhostVdpa::set_vring_enable(&v, q as usize, x & 1 == 1);
            ctx.check("set_vring_enable", json!({"q": q, "en": x & 1}), ioctl_capture::take(), Some(("VHOST_VDPA_SET_VRING_ENABLE", Some(vring_state(q, x & 1)))));
        }
    }
    for s in 0..=255u8 {
        answer_bytes(&[s]);
        let r = v.get_status();
        ctx.check("get_status", json!(s), ioctl_capture::take(), Some(("VHOST_VDPA_GET_STATUS", None)));
        if r.as_ref().ok() != Some(&s) {
            ctx.ret_mismatch("get_status", json!(s), format!("{r:?}"), format!("{s}"));
        }
        let _ = v.set_status(s);
        ctx.check("set_status", json!(s), ioctl_capture::take(), Some(("VHOST_VDPA_SET_STATUS", Some(vec![s]))));
    }
    for n in [0u16, 1, 2, 255, 256, 0x7fff, 0x8000, 0xffff] {
        answer_bytes(&n.to_ne_bytes());
        let r = v.get_vring_num();
        ctx.check("get_vring_num", json!(n), ioctl_capture::take(), Some(("VHOST_VDPA_GET_VRING_NUM", None)));
        if r.as_ref().ok() != Some(&n) {
            ctx.ret_mismatch("get_vring_num", json!(n), format!("{r:?}"), format!("{n}"));
        }
    }
    let ev = EventFd::new(0).unwrap();
    let _ = v.set_config_call(&ev);
    ctx.check("set_config_call", json!({}), ioctl_capture::take(), Some(("VHOST_VDPA_SET_CONFIG_CALL", Some(ev.as_raw_fd().to_ne_bytes().to_vec()))));
    for (&a, &b) in l64.iter().zip(l64.iter().rev()) {
        let wb = Arg::new(lay("sizeof struct vhost_vdpa_iova_range")).u64(lay("struct vhost_vdpa_iova_range.first"), a).u64(lay("struct vhost_vdpa_iova_range.last"), b).0;
        answer_bytes(&wb);
        let r = v.get_iova_range();
        ctx.check("get_iova_range", json!({"first": a, "last": b}), ioctl_capture::take(), Some(("VHOST_VDPA_GET_IOVA_RANGE", None)));
        match r {
            Ok(rg) if rg.first == a && rg.last == b => {}
            other => ctx.ret_mismatch("get_iova_range", json!({"first": a, "last": b}), format!("{:?}", other.map(|r| (r.first, r.last))), "same".into()),
        }
    }
    let _ = v.suspend();
    ctx.check("suspend", json!({}), ioctl_capture::take(), Some(("VHOST_VDPA_SUSPEND", Some(vec![]))));
    // config buffers of 0..=256 bytes
    let boff = lay("struct vhost_vdpa_config.buf");
    for len in 0..=256usize {
        for &o in &[0u32, 1, 0xff, 0xffff_ffff] {
            let data: Vec<u8> = (0..len).map(|i| (i as u8) ^ 0xa5).collect();
            let _ = v.set_config(o, &data);
            let want = Arg::new(boff + len).u32(lay("struct vhost_vdpa_config.off"), o).u32(lay("struct vhost_vdpa_config.len"), len as u32).bytes(boff, &data).0;
            ctx.check("set_config", json!({"off": o, "len": len}), ioctl_capture::take(), Some(("VHOST_VDPA_SET_CONFIG", Some(want))));
            // get: kernel fills the buffer
            let kdata: Vec<u8> = (0..len).map(|i| (i as u8).wrapping_mul(3) ^ 0x3c).collect();
            let wb = Arg::new(boff + len).u32(lay("struct vhost_vdpa_config.off"), o).u32(lay("struct vhost_vdpa_config.len"), len as u32).bytes(boff, &kdata).0;
            answer_bytes(&wb);
            let mut buf = vec![0u8; len];
            let r = v.get_config(o, &mut buf);
            let want = Arg::new(boff + len).u32(lay("struct vhost_vdpa_config.off"), o).u32(lay("struct vhost_vdpa_config.len"), len as u32).0;
            ctx.check("get_config", json!({"off": o, "len": len}), ioctl_capture::take(), Some(("VHOST_VDPA_GET_CONFIG", Some(want))));
            if r.is_err() || buf != kdata {
                ctx.ret_mismatch("get_config", json!({"off": o, "len": len}), format!("{:02x?}", &buf[..len.min(8)]), format!("{:02x?}", &kdata[..len.min(8)]));
            }
        }
    }
    // vDPA ring addresses are passed through unchanged
    for &a in l64.iter().take(20) {
        let cfg = VringConfigData { queue_max_size: 256, queue_size: 64, flags: 1, desc_table_addr: a, used_ring_addr: a ^ 0xff00, avail_ring_addr: !a, log_addr: Some(a.rotate_left(7)) };
        let r = v.set_vring_addr(2, &cfg);
        let recs = ioctl_capture::take();
        if r.is_ok() {
            ctx.check("vdpa_set_vring_addr", json!({"desc": a}), recs, Some(("VHOST_SET_VRING_ADDR", Some(vring_addr(2, 1, a, a ^ 0xff00, !a, a.rotate_left(7))))));
        } else {
            ctx.ret_mismatch("vdpa_set_vring_addr", json!({"desc": a}), "Err".into(), "Ok (valid ring config)".into());
        }
    }
    // backend features + IOTLB v1/v2
    drop(v);
    for v2 in [false, true] {
        for via_ioctl in [false, true] {
            let f = std::fs::OpenOptions::new().read(true).write(true).open("/dev/vhost-vdpa-0").unwrap();
            let feat: u64 = if v2 { 1 << lay("VHOST_BACKEND_F_IOTLB_MSG_V2") } else { 0 };
            let mut v = if via_ioctl { VhostKernVdpa::with(f, mem, 0) } else { VhostKernVdpa::with(f, mem, feat) };
            if via_ioctl {
                for &bf in l64.iter().take(6) {
                    answer_bytes(&bf.to_ne_bytes());
                    let r = v.get_backend_features();
                    ctx.check("get_backend_features", json!(bf), ioctl_capture::take(), Some(("VHOST_GET_BACKEND_FEATURES", None)));
                    if r.as_ref().ok() != Some(&bf) {
                        ctx.ret_mismatch("get_backend_features", json!(bf), format!("{r:?}"), format!("{bf:#x}"));
                    }
                }
                // a failing SET must not change the acknowledged set
                ioctl_capture::answer(IoctlAnswer { rc: -1, errno: libc::EOPNOTSUPP, writeback: vec![] });
                let before = v.get_backend_features_acked();
                let r = v.set_backend_features(!feat);
                let _ = ioctl_capture::take();
                ctx.rep.evaluations += 1;
                if r.is_ok() || v.get_backend_features_acked() != before {
                    ctx.ret_mismatch("set_backend_features", json!("kernel refuses"), format!("result ok={} acked={:#x}", r.is_ok(), v.get_backend_features_acked()), format!("Err and acked unchanged ({before:#x})"));
                }
                // an IOTLB message sent now must still use the layout of the acknowledged set
                {
                    let m = VhostIotlbMsg { iova: 0x1000, size: 0x2000, userspace_addr: 0x3000, perm: VhostAccess::ReadWrite, msg_type: VhostIotlbType::Update };
                    let fdx = v.as_raw_fd();
                    let mut offx = unsafe { libc::lseek(fdx, 0, libc::SEEK_CUR) };
                    let r = v.send_iotlb_msg(&m);
                    let got = read_back(fdx, &mut offx, 72);
                    let v2_before = before & (1 << lay("VHOST_BACKEND_F_IOTLB_MSG_V2")) != 0;
                    ctx.rep.evaluations += 1;
                    if r.is_err() || !iotlb_same(v2_before, &got, &iotlb_expected(v2_before, &m)) {
                        ctx.rep.violation("C19:vdpa:send_iotlb_msg:layout-after-refused-backend-features", "after a refused VHOST_SET_BACKEND_FEATURES the IOTLB message is not written in the layout of the acknowledged features", json!({"check":"C19","op":"send_iotlb_msg after failed set_backend_features","v2_requested":!v2_before}));
                    }
                }
                let _ = v.set_backend_features(feat);
                ctx.check("set_backend_features", json!(feat), ioctl_capture::take(), Some(("VHOST_SET_BACKEND_FEATURES", Some(feat.to_ne_bytes().to_vec()))));
                ctx.rep.evaluations += 1;
                if v.get_backend_features_acked() != feat {
                    ctx.ret_mismatch("set_backend_features", json!(feat), format!("acked={:#x}", v.get_backend_features_acked()), format!("{feat:#x}"));
                }
            }
            let fd2 = v.as_raw_fd();
            // SAFETY: lseek on our memfd.
            let mut off2 = unsafe { libc::lseek(fd2, 0, libc::SEEK_CUR) };
            let perms = [VhostAccess::No, VhostAccess::ReadOnly, VhostAccess::WriteOnly, VhostAccess::ReadWrite];
            let types = [VhostIotlbType::Empty, VhostIotlbType::Miss, VhostIotlbType::Update, VhostIotlbType::Invalidate, VhostIotlbType::AccessFail, VhostIotlbType::BatchBegin, VhostIotlbType::BatchEnd];
            for (i, &perm) in perms.iter().enumerate() {
                for (j, &ty) in types.iter().enumerate() {
                    for k in 0..l64.len().min(9) {
                        let m = VhostIotlbMsg { iova: l64[k], size: l64[(k + i + 1) % l64.len()], userspace_addr: l64[(k + j + 2) % l64.len()], perm, msg_type: ty };
                        let r = v.send_iotlb_msg(&m);
                        let got = read_back(fd2, &mut off2, 72);
                        let want = iotlb_expected(v2, &m);
                        ctx.rep.evaluations += 1;
                        ctx.rep.nontrivial += 1;
                        ctx.ops.insert(format!("vdpa:send_iotlb_msg_{}", if v2 { "v2" } else { "v1" }));
                        ctx.rep.outcome(if v2 { "iotlb-v2" } else { "iotlb-v1" });
                        let case = json!({"check":"C19","op":"send_iotlb_msg","v2":v2,"iova":m.iova,"size":m.size,"uaddr":m.userspace_addr,"perm":perm as u8,"type":ty as u8});
                        if r.is_err() || !iotlb_same(v2, &got, &want) {
                            ctx.rep.violation(&format!("C19:vdpa:send_iotlb_msg:{}", if v2 { "v2" } else { "v1" }), &format!("IOTLB bytes written {:02x?} differ from UAPI layout {:02x?}", got, want), case.clone());
                            continue;
                        }
                        // parse back
                        let mut out = VhostIotlbMsg::default();
                        let pr = if v2 {
                            assert_eq!(std::mem::size_of::<vhost_msg_v2>(), want.len());
                            // SAFETY: `got` has exactly the size of the struct.
                            let s: vhost_msg_v2 = unsafe { std::ptr::read_unaligned(got.as_ptr() as *const vhost_msg_v2) };
                            s.parse(&mut out)
                        } else {
                            assert_eq!(std::mem::size_of::<vhost_msg>(), want.len());
                            // SAFETY: as above.
                            let s: vhost_msg = unsafe { std::ptr::read_unaligned(got.as_ptr() as *const vhost_msg) };
                            s.parse(&mut out)
                        };
                        let same = out.iova == m.iova && out.size == m.size && out.userspace_addr == m.userspace_addr && out.perm == m.perm && out.msg_type == m.msg_type;
                        let ok = if ty == VhostIotlbType::Empty { pr.is_err() || same } else { pr.is_ok() && same };
                        if !ok {
                            ctx.rep.violation("C19:vdpa:iotlb-parse", "IOTLB message does not parse back to the values written", case);
                        }
                    }
                }
            }
            // dma_map / dma_unmap
            for &a in l64.iter().take(6) {
                for ro in [false, true] {
                    let r = v.dma_map(a, a ^ 0x1000, (a.rotate_left(3)) as *const u8, ro);
                    let got = read_back(fd2, &mut off2, 72);
                    let m = VhostIotlbMsg { iova: a, size: a ^ 0x1000, userspace_addr: a.rotate_left(3), perm: if ro { VhostAccess::ReadOnly } else { VhostAccess::ReadWrite }, msg_type: VhostIotlbType::Update };
                    ctx.rep.evaluations += 1;
                    ctx.ops.insert("vdpa:dma_map".into());
                    if r.is_err() || !iotlb_same(v2, &got, &iotlb_expected(v2, &m)) {
                        ctx.rep.violation("C19:vdpa:dma_map", &format!("dma_map wrote wrong IOTLB bytes {:02x?} want {:02x?} r={:?}", got, iotlb_expected(v2, &m), r), json!({"check":"C19","op":"dma_map","iova":a,"ro":ro,"v2":v2}));
                    }
                }
                let r = v.dma_unmap(a, a ^ 0x2000);
                let got = read_back(fd2, &mut off2, 72);
                let m = VhostIotlbMsg { iova: a, size: a ^ 0x2000, userspace_addr: 0, perm: VhostAccess::No, msg_type: VhostIotlbType::Invalidate };
                ctx.rep.evaluations += 1;
                ctx.ops.insert("vdpa:dma_unmap".into());
                if r.is_err() || !iotlb_same(v2, &got, &iotlb_expected(v2, &m)) {
                    ctx.rep.violation("C19:vdpa:dma_unmap", "dma_unmap wrote wrong IOTLB bytes", json!({"check":"C19","op":"dma_unmap","iova":a,"v2":v2}));
                }
            }
        }
    }
    let _ = (fd, &mut off);
}

pub fn run(rep: &mut Report) {
    let thorough = rep.is_thorough();
    let seed = rep.seed;
    let lv = if thorough { 2 } else { 0 };
    let l64 = rotate(&u64_lattice(lv, seed), seed);
    let l32 = rotate(&u32_lattice(if thorough { 1 } else { 0 }, seed), seed);
    let l16 = u16_lattice(if thorough { 1 } else { 0 });
    ioctl_capture::enable();
    let mut all_ops = std::collections::BTreeSet::new();
    for layout in mem_layouts() {
        let ranges: Vec<(GuestAddress, usize)> = layout.iter().map(|(a, l)| (GuestAddress(*a), *l)).collect();
        let mem = GuestMemoryMmap::<()>::from_ranges(&ranges).unwrap();
        {
            let net = Net::new(&mem).expect("Net::new on intercepted /dev/vhost-net");
            let mut ctx = Ctx { rep, backend: "net", ops: Default::default() };
            common_ops(&mut ctx, &net, &mem, true, &|q, c| net.set_vring_addr(q, c), &l64, &l32, &l16);
            for q in [0usize, 1, 255, 0xffff_ffff] {
                let f = std::fs::File::open("/dev/null").unwrap();
                let _ = net.set_backend(q, Some(&f));
                ctx.check("set_backend", json!({"q": q, "fd": "some"}), ioctl_capture::take(), Some(("VHOST_NET_SET_BACKEND", Some(vring_file(q as u32, f.as_raw_fd())))));
                let _ = net.set_backend(q, None);
                ctx.check("set_backend", json!({"q": q, "fd": "none"}), ioctl_capture::take(), Some(("VHOST_NET_SET_BACKEND", Some(vring_file(q as u32, -1)))));
            }
            all_ops.extend(ctx.ops);
        }
        {
            let vs = Vsock::new(&mem).expect("Vsock::new on intercepted /dev/vhost-vsock");
            let mut ctx = Ctx { rep, backend: "vsock", ops: Default::default() };
            common_ops(&mut ctx, &vs, &mem, true, &|q, c| vs.set_vring_addr(q, c), &l64, &l32, &l16);
            for &cid in &l64 {
                let _ = vs.set_guest_cid(cid);
                ctx.check("set_guest_cid", json!(cid), ioctl_capture::take(), Some(("VHOST_VSOCK_SET_GUEST_CID", Some(cid.to_ne_bytes().to_vec()))));
            }
            let _ = vs.start();
            ctx.check("start", json!({}), ioctl_capture::take(), Some(("VHOST_VSOCK_SET_RUNNING", Some(1i32.to_ne_bytes().to_vec()))));
            let _ = vs.stop();
            ctx.check("stop", json!({}), ioctl_capture::take(), Some(("VHOST_VSOCK_SET_RUNNING", Some(0i32.to_ne_bytes().to_vec()))));
            all_ops.extend(ctx.ops);
        }
        {
            let vd = VhostKernVdpa::new("/dev/vhost-vdpa-0", &mem).unwrap();
            let mut ctx = Ctx { rep, backend: "vdpa", ops: Default::default() };
            // the blanket VhostBackend::set_vring_addr translates; vDPA's inherent method does not
            common_ops(&mut ctx, &vd, &mem, false, &|q, c| vd.set_vring_addr(q, c), &l64, &l32, &l16);
            drop(vd);
            vdpa_ops(&mut ctx, &mem, &l64, &l32);
            all_ops.extend(ctx.ops);
        }
    }
    ioctl_capture::disable();
    rep.states = all_ops.len() as u64;
    rep.traces = rep.evaluations;
    rep.exhaustive = true;
    rep.extra.insert("operations_covered".into(), json!(all_ops.iter().cloned().collect::<Vec<_>>()));
    rep.extra.insert("uapi_requests".into(), json!(UAPI_REQ.len()));
    rep.sample(json!({"op": "net:set_vring_num", "args": {"q": 1, "num": 256}, "expected_request": format!("{:#x}", req("VHOST_SET_VRING_NUM")), "expected_arg": vring_state(1, 256)}));
    rep.sample(json!({"op": "vdpa:set_group_asid", "args": {"group": 1, "asid": 2}, "expected_request": format!("{:#x}", req("VHOST_VDPA_SET_GROUP_ASID"))}));
    rep.sample(json!({"op": "vdpa:send_iotlb_msg_v2", "expected_len": lay("sizeof struct vhost_msg_v2")}));
    rep.rule = "every trait operation of the kernel-vhost (via Net, Vsock, vDPA), vhost-net, vhost-vsock and vhost-vDPA backends on an intercepted dummy device x argument lattice x 3 guest memory layouts (ring addresses at the edges of every region, and every assignment of the three rings to the regions); an evaluation is non-trivial when it issued exactly one ioctl (or wrote one IOTLB message) whose number and bytes were compared with the gcc-computed UAPI reference".into();
    rep.assumptions.push("UAPI reference = request numbers, sizes and offsets printed by a C program compiled by gcc against /usr/include/linux/vhost.h at build time".into());
    rep.assumptions.push("the devices are dummies (memfd) behind ioctl/open64 interposition; kernel behaviour itself is not exercised".into());
}

pub fn replay(case: &Value, rep: &mut Report) {
    // The C19 space is small: replay re-runs the quick enumeration and reports whether the
    // signature's operation still fails.
    println!("replay C19: re-running the quick enumeration for case {case}");
    run(rep);
}
