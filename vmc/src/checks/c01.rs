//! C01: wire encoding of every message matches the vhost-user specification.
//! Engine E3: every message the crate can emit or accept x argument lattice x header-flag and
//! negotiation configurations, compared byte for byte with the independent codec (`spec`).

use crate::feops::*;
use crate::feraw::*;
use crate::pxops::*;
use crate::rawpeer::{ident, Received};
use crate::recorder::{FrRecorder, Recorder, Script};
use crate::report::Report;
use crate::spec::*;
use crate::sysshim::coop;
use crate::wirereq::RawSession;
use serde_json::{json, Value};
use std::os::unix::io::{AsRawFd, FromRawFd, RawFd};
use std::os::unix::net::UnixStream;
use std::sync::{Arc, Mutex};
use vhost::vhost_user::message::VhostUserHeaderFlag;
use vhost::vhost_user::{Backend, FrontendReqHandler, GpuBackend};

fn masked_eq(a: &[u8], b: &[u8], dont_care: &[(usize, usize)]) -> bool {
    if a.len() != b.len() {
        return false;
    }
    a.iter().zip(b.iter()).enumerate().all(|(i, (x, y))| x == y || dont_care.iter().any(|(s, e)| i >= *s && i < *e))
}

/// Compare what an endpoint wrote with the specification's encoding.
fn wire_diff(got: &Received, want: &[u8], want_fds: &[RawFd], dont_care: &[(usize, usize)]) -> Option<String> {
    if !masked_eq(&got.bytes, want, dont_care) {
        let n = got.bytes.len().min(want.len());
        let first = (0..n).find(|i| got.bytes[*i] != want[*i] && !dont_care.iter().any(|(s, e)| *i >= *s && *i < *e));
        return Some(format!(
            "bytes differ (len {} vs spec {}; first difference at offset {:?}; header got {:02x?} spec {:02x?})",
            got.bytes.len(),
            want.len(),
            first,
            &got.bytes[..got.bytes.len().min(12)],
            &want[..want.len().min(12)]
        ));
    }
    let n: usize = got.nfds();
    if n != want_fds.len() {
        return Some(format!("{} descriptors attached, specification prescribes {}", n, want_fds.len()));
    }
    if n > 0 {
        if got.fds.len() != 1 || got.fds[0].0 != 0 {
            return Some(format!("descriptors not attached to the first byte only: offsets {:?}", got.fds.iter().map(|(o, f)| (*o, f.len())).collect::<Vec<_>>()));
        }
        for (i, f) in got.fds[0].1.iter().enumerate() {
            if ident(f.as_raw_fd()) != ident(want_fds[i]) {
                return Some(format!("descriptor #{i} refers to a different file"));
            }
        }
    }
    None
}

fn stateful(op: &FeOp) -> bool {
    matches!(op, FeOp::GetFeatures | FeOp::SetFeatures(_) | FeOp::GetProtocolFeatures | FeOp::SetProtocolFeatures(_) | FeOp::GetQueueNum)
}

fn patterned_script() -> Script {
    Script {
        features: pat64(100) | VIRTIO_F_PROTOCOL_FEATURES,
        proto: pat64(101) & PF_ALL_DEFINED,
        queue_num: 0x7ffe,
        vring_base: 0xa1b2_c3d4,
        max_slots: pat64(102),
        shmem: (3, vec![pat64(103), 0, pat64(104)]),
        inflight: (pat64(105), pat64(106), 0xa1b2, 0xc3d4),
        state_returns_file: true,
        ..Default::default()
    }
}

// ---- frontend endpoint: requests it emits, replies it decodes --------------------------------

fn frontend_channel(rep: &mut Report, res: &Resources, ops: &[FeOp]) {
    let scripts = [Script::default(), patterned_script()];
    for reply_ack in [false, true] {
        for need_reply in [false, true] {
            let ack = if reply_ack { PF_ALL_DEFINED } else { PF_ALL_DEFINED & !PF_REPLY_ACK };
            let mk = || {
                let mut f = FeRaw::new(256);
                if let Err(e) = f.negotiate(VIRTIO_F_PROTOCOL_FEATURES | 0x3, PF_ALL_DEFINED, ack) {
                    eprintln!("MACHINERY FAILURE: scripted negotiation failed: {e}");
                    std::process::exit(2);
                }
                f.fe.set_hdr_flags(if need_reply { VhostUserHeaderFlag::NEED_REPLY } else { VhostUserHeaderFlag::empty() });
                f
            };
            let mut shared = mk();
            let flags = F_VERSION | if need_reply { F_NEED_REPLY } else { 0 };
            for (n, op) in ops.iter().enumerate() {
                let script = &scripts[n % 2];
                let mut fresh;
                let f = if stateful(op) {
                    fresh = mk();
                    &mut fresh
                } else {
                    &mut shared
                };
                // SET_PROTOCOL_FEATURES is acknowledged according to the set it installs
                let ack_on = match op {
                    FeOp::SetProtocolFeatures(v) => v & PF_REPLY_ACK != 0,
                    _ => reply_ack,
                };
                let awaited = op.has_reply() || (ack_on && need_reply);
                let (rb, rf) = correct_reply(op, script, res);
                f.raw.clear();
                f.raw.queue(&rb, &rf, &[]);
                let _ = coop::take_hangs();
                let r = invoke(&mut f.fe, op, res);
                let hang = coop::take_hangs().contains(&f.raw.ep_fd);
                let got = f.raw.take_written();
                f.raw.clear();
                rep.evaluations += 1;
                rep.transitions += 1;
                let case = json!({"check":"C01","part":"frontend","op":format!("{op:?}"),"reply_ack":reply_ack,"need_reply":need_reply});
                if r.is_err() && got.bytes.is_empty() && got.nfds() == 0 && !op.wire_valid() {
                    // refused locally (the request would not be a valid message): nothing on the wire
                    rep.outcome("request:refused-locally");
                    continue;
                }
                let (want, wfds) = correct_request(op, flags, res);
                match wire_diff(&got, &want, &wfds, &dont_care_ranges(op)) {
                    None => {
                        rep.outcome("request:spec-encoding");
                        rep.nontrivial += 1;
                    }
                    Some(d) => {
                        rep.outcome("request:differs");
                        rep.violation(&format!("C01:frontend:request:{}", op.name()), &format!("{:?} (flags {flags:#x}): {d}", op), case.clone());
                    }
                }
                // decode direction: the value returned equals what the independent peer encoded
                if awaited && !op.wire_valid() {
                    // the reply echoes values the protocol calls invalid: not a conformant message
                    rep.outcome("reply:not-conformant-skipped");
                } else if awaited {
                    let expected = op.expected_ret(script, res);
                    if hang || r.as_ref().ok() != Some(&expected) {
                        rep.outcome("reply:decode-differs");
                        rep.violation(&format!("C01:frontend:reply-decode:{}", op.name()), &format!("{:?}: spec-conformant reply decoded to {:?} (hang={hang}), peer encoded {:?}", op, r, expected), case);
                    } else {
                        rep.outcome("reply:decoded");
                    }
                } else if r.is_err() {
                    rep.violation(&format!("C01:frontend:unawaited-error:{}", op.name()), &format!("{:?}: {:?}", op, r), case);
                }
            }
        }
    }
}

// ---- backend request server: requests it decodes, replies/acks it emits -----------------------

fn server_channel(rep: &mut Report, res: &Resources, ops: &[FeOp]) {
    let scripts = [Script::default(), patterned_script()];
    for (n, op) in ops.iter().enumerate() {
        if !op.wire_valid() {
            continue; // only specification-conformant messages are fed to the server here
        }
        for need_reply in [false, true] {
            if !need_reply && n % 4 != 0 {
                continue; // the no-NEED_REPLY encoding only differs in the absence of an ack
            }
            let mut rec = Recorder::new();
            rec.script = scripts[n % 2].clone();
            rec.script.features |= VIRTIO_F_PROTOCOL_FEATURES;
            let script = rec.script.clone();
            rec.ret_file = Some(res.ret.try_clone().unwrap());
            let s = RawSession::new(rec);
            if !s.negotiate(script.features, PF_ALL_DEFINED) {
                eprintln!("MACHINERY FAILURE: raw negotiation failed");
                std::process::exit(2);
            }
            let flags = F_VERSION | if need_reply { F_NEED_REPLY } else { 0 };
            let (rb, rfds) = correct_request(op, flags, res);
            let (r, got) = s.roundtrip(&rb, &rfds);
            rep.evaluations += 1;
            rep.transitions += 1;
            let case = json!({"check":"C01","part":"server","op":format!("{op:?}"),"need_reply":need_reply});
            // decode direction
            let log = s.server.rec.lock().unwrap().log.clone();
            match op.expected_call(res) {
                Some(c) => {
                    if log.len() != 1 || log[0] != c {
                        rep.outcome("request:decode-differs");
                        rep.violation(&format!("C01:server:request-decode:{}", op.name()), &format!("{:?}: handler saw {:?}, peer encoded {:?} (result {:?})", op, log.iter().map(|c| c.json()).collect::<Vec<_>>(), c.json(), r), case.clone());
                        continue;
                    }
                    rep.outcome("request:decoded");
                }
                None => continue,
            }
            // reply / ack encoding
            let ack_on = match op {
                FeOp::SetProtocolFeatures(v) => v & PF_REPLY_ACK != 0,
                _ => true,
            };
            let awaited = op.has_reply() || (need_reply && ack_on);
            let (want, wfds): (Vec<u8>, Vec<RawFd>) = if awaited { correct_reply(op, &script, res) } else { (vec![], vec![]) };
            match wire_diff(&got, &want, &wfds, &dont_care_ranges(op)) {
                None => {
                    rep.outcome(if awaited { "reply:spec-encoding" } else { "reply:none" });
                    rep.nontrivial += 1;
                }
                Some(d) => {
                    rep.outcome("reply:differs");
                    rep.violation(&format!("C01:server:reply:{}", op.name()), &format!("{:?}: {d}", op), case);
                }
            }
        }
    }
}

/// Failure encodings the specification defines: a non-zero u64 acknowledgement; for
/// SET_DEVICE_STATE_FD a u64 whose bits 0-7 are non-zero with bit 8 (no descriptor) set and no
/// descriptor attached; for CHECK_DEVICE_STATE a non-zero u64.
fn server_failure_replies(rep: &mut Report, res: &Resources, ops: &[FeOp]) {
    let mut seen = std::collections::BTreeSet::new();
    for op in ops {
        if !op.wire_valid() || !seen.insert(op.name()) || matches!(op, FeOp::SetBackendReqFd) {
            continue;
        }
        let kind = match op {
            FeOp::SetDeviceStateFd(_) => 1,
            FeOp::CheckDeviceState => 2,
            o if !o.has_reply() => 0,
            _ => continue, // no failure encoding defined for the other reply-bearing requests
        };
        let mut rec = Recorder::new();
        rec.script.features |= VIRTIO_F_PROTOCOL_FEATURES;
        rec.ret_file = Some(res.ret.try_clone().unwrap());
        let s = RawSession::new(rec);
        if !s.negotiate(VIRTIO_F_PROTOCOL_FEATURES, PF_ALL_DEFINED) {
            eprintln!("MACHINERY FAILURE: raw negotiation failed");
            std::process::exit(2);
        }
        s.server.rec.lock().unwrap().script.fail.insert(op.name());
        let (rb, rfds) = correct_request(op, F_VERSION | F_NEED_REPLY, res);
        let (_r, got) = s.roundtrip(&rb, &rfds);
        rep.evaluations += 1;
        rep.transitions += 1;
        let case = json!({"check":"C01","part":"server_failure","op":format!("{op:?}")});
        // a request the server refuses before the handler (e.g. SET_PROTOCOL_FEATURES dropping
        // REPLY_ACK) is outside this part
        if s.server.rec.lock().unwrap().log.is_empty() {
            rep.outcome("failure:not-dispatched");
            continue;
        }
        let ack_on = !matches!(op, FeOp::SetProtocolFeatures(v) if v & PF_REPLY_ACK == 0);
        if !ack_on {
            continue;
        }
        let b = &got.bytes;
        let well_formed = b.len() == 20 && rd32(b, 0) == op.code() && rd32(b, 4) == (F_VERSION | F_REPLY) && rd32(b, 8) == 8 && got.nfds() == 0;
        let v = if b.len() >= 20 { rd64(b, 12) } else { 0 };
        let ok = well_formed
            && match kind {
                1 => v & 0xff != 0 && v & 0x100 != 0,
                _ => v != 0,
            };
        if ok {
            rep.outcome("failure:spec-encoding");
            rep.nontrivial += 1;
        } else {
            rep.outcome("failure:differs");
            rep.violation(&format!("C01:server:failure-reply:{}", op.name()), &format!("{:?} with a failing handler: wrote {:02x?} with {} descriptor(s); the specification prescribes {}", op, b, got.nfds(), if kind == 1 { "a u64 with a non-zero error code in bits 0-7 and bit 8 (no descriptor) set" } else { "a non-zero u64" }), case);
        }
    }
}

// ---- backend-to-frontend channel ---------------------------------------------------------------

fn backend_channel(rep: &mut Report, res: &Resources, ops: &[BpOp]) {
    for reply_ack in [false, true] {
        for op in ops {
            // proxy -> raw peer
            let (a, b) = UnixStream::pair().unwrap();
            let fd = a.as_raw_fd();
            let p = Backend::from_stream(a);
            p.set_reply_ack_flag(reply_ack);
            p.set_shared_object_flag(true);
            p.set_shmem_flag(true);
            let raw = RawScript::attach(fd, b);
            raw.queue(&op.ack(0), &[], &[]);
            let r = invoke_bp(&p, op, res);
            let got = raw.take_written();
            rep.evaluations += 1;
            rep.transitions += 1;
            let flags = F_VERSION | if reply_ack { F_NEED_REPLY } else { 0 };
            let (want, wfds) = op.request(flags, res);
            let case = json!({"check":"C01","part":"backend_proxy","op":format!("{op:?}"),"reply_ack":reply_ack});
            match wire_diff(&got, &want, &wfds, &op.dont_care()) {
                None => {
                    rep.outcome("request:spec-encoding");
                    rep.nontrivial += 1;
                }
                Some(d) => rep.violation(&format!("C01:backend_proxy:request:{}", op.name()), &format!("{:?}: {d}", op), case.clone()),
            }
            if r != Ok(0) {
                rep.violation(&format!("C01:backend_proxy:ack-decode:{}", op.name()), &format!("{:?}: {:?}", op, r), case);
            }
            // raw peer -> frontend request server, and the acknowledgement it writes
            for value in [0u64, 1, 0xffff_ffff_ffff_ffea] {
                let rec = Arc::new(Mutex::new(FrRecorder::default()));
                let res_script = match value {
                    0 => crate::recorder::FrRes::Ok(0),
                    1 => crate::recorder::FrRes::Ok(1),
                    _ => crate::recorder::FrRes::Errno(libc::EINVAL),
                };
                rec.lock().unwrap().results.push_back(res_script);
                let mut h = FrontendReqHandler::new(rec.clone()).unwrap();
                h.set_reply_ack_flag(reply_ack);
                // SAFETY: dup of the tx end; we own the copy.
                let tx = unsafe { libc::fcntl(h.get_tx_raw_fd(), libc::F_DUPFD_CLOEXEC, 3) };
                let peer = unsafe { UnixStream::from_raw_fd(tx) };
                let raw = RawScript::attach(h.as_raw_fd(), peer);
                let (rb, rfds) = op.request(flags, res);
                raw.queue(&rb, &rfds, &[]);
                let hr = h.handle_request();
                let got = raw.take_written();
                rep.evaluations += 1;
                rep.transitions += 1;
                let case = json!({"check":"C01","part":"frontend_req_server","op":format!("{op:?}"),"reply_ack":reply_ack,"value":value});
                let log = rec.lock().unwrap().log.clone();
                let mut want_call = crate::recorder::Call::new(op.name(), vec![]);
                match op {
                    BpOp::SharedAdd(u) | BpOp::SharedRemove(u) | BpOp::SharedLookup(u) => want_call.bytes = u.to_vec(),
                    BpOp::ShmemMap(id, a, b, c, d) | BpOp::ShmemUnmap(id, a, b, c, d) => want_call.a = vec![*id as u64, *a, *b, *c, *d],
                }
                if op.has_fd() {
                    want_call.files.push(ident(res.mem[0].as_raw_fd()));
                }
                if log.len() != 1 || log[0] != want_call {
                    rep.violation(&format!("C01:frontend_req_server:request-decode:{}", op.name()), &format!("{:?}: handler saw {:?} ({:?})", op, log.iter().map(|c| c.json()).collect::<Vec<_>>(), hr.is_ok()), case.clone());
                    continue;
                }
                let want = if reply_ack { op.ack(value) } else { vec![] };
                match wire_diff(&got, &want, &[], &[]) {
                    None => {
                        rep.outcome(if reply_ack { "ack:spec-encoding" } else { "ack:none" });
                        rep.nontrivial += 1;
                    }
                    Some(d) => rep.violation(&format!("C01:frontend_req_server:ack:{}", op.name()), &format!("{:?} handler result {value:#x}: {d}", op), case),
                }
            }
        }
    }
}

// ---- GPU channel ---------------------------------------------------------------------------------

fn gpu_channel(rep: &mut Report, res: &Resources, ops: &[GpuOp]) {
    for (n, op) in ops.iter().enumerate() {
        let (a, b) = UnixStream::pair().unwrap();
        let fd = a.as_raw_fd();
        let g = GpuBackend::from_stream(a);
        let raw = RawScript::attach(fd, b);
        let seed = pat64(200 + n as u64);
        let reply = op.reply(seed);
        if let Some(r) = &reply {
            raw.queue(r, &[], &[]);
        }
        let r = invoke_gpu(&g, op, res);
        let got = raw.take_written();
        rep.evaluations += 1;
        rep.transitions += 1;
        let case = json!({"check":"C01","part":"gpu","op":format!("{:?}", op).chars().take(120).collect::<String>()});
        let (want, wfds) = op.request(res);
        match wire_diff(&got, &want, &wfds, &[]) {
            None => {
                rep.outcome("gpu-request:spec-encoding");
                rep.nontrivial += 1;
            }
            Some(d) => rep.violation(&format!("C01:gpu:request:{}", op.name()), &format!("{}: {d}", op.name()), case.clone()),
        }
        let want_ret = match (op, &reply) {
            (GpuOp::GetProtocolFeatures, _) => GpuRet::U64(seed),
            (GpuOp::DmabufUpdate(_), _) => GpuRet::Unit,
            (_, Some(rb)) => GpuRet::Bytes(rb[12..].to_vec()),
            _ => GpuRet::Unit,
        };
        if r.as_ref().ok() != Some(&want_ret) {
            rep.violation(&format!("C01:gpu:reply-decode:{}", op.name()), &format!("{}: returned {:?}", op.name(), r.as_ref().map(|_| "other value")), case);
        }
    }
}

pub fn run(rep: &mut Report) {
    let level = if rep.is_thorough() { 1 } else { 0 };
    coop::enable();
    let res = Resources::new();
    let fe = fe_variants(level, rep.seed);
    let bp = bp_variants(level, rep.seed);
    let gp = gpu_variants(level, rep.seed);
    frontend_channel(rep, &res, &fe);
    server_channel(rep, &res, &fe);
    server_failure_replies(rep, &res, &fe);
    backend_channel(rep, &res, &bp);
    gpu_channel(rep, &res, &gp);
    coop::disable();
    rep.states = rep.outcomes.len() as u64;
    rep.traces = rep.evaluations;
    rep.exhaustive = true;
    rep.extra.insert("frontend_op_variants".into(), json!(fe.len()));
    rep.extra.insert("backend_proxy_variants".into(), json!(bp.len()));
    rep.extra.insert("gpu_variants".into(), json!(gp.len()));
    rep.sample(json!({"channel":"frontend","op":format!("{:?}", fe[40]),"expected_request_hex": correct_request(&fe[40], F_VERSION, &res).0.iter().map(|b| format!("{b:02x}")).collect::<String>()}));
    rep.sample(json!({"channel":"backend_proxy","op":format!("{:?}", bp[3])}));
    rep.sample(json!({"channel":"gpu","op":gp[5].name()}));
    rep.rule = "all four channels: every frontend operation x argument lattice (pairwise-distinct byte-asymmetric patterns, per-field boundary sweeps, 1..=32 regions, config windows/lengths 1..=4084, queue indexes 0..=255, GPU payloads 0..=4096) x (REPLY_ACK negotiated or not) x (NEED_REPLY on/off); each request, reply and acknowledgement written by the crate compared byte for byte (and descriptor for descriptor, attached to byte 0) with the independent codec, and each spec-encoded message fed to the crate compared after decoding. Non-trivial = a message whose bytes were compared and matched".into();
    rep.assumptions.push("the reference codec (vmc/src/spec.rs) transcribes the vhost-user / vhost-user-gpu specification; SET_LOG_BASE's reply payload (echo of the log descriptor), GET_SHMEM_CONFIG and SHMEM_MAP/UNMAP layouts follow the upstream definition as recalled offline".into());
    rep.assumptions.push("bytes the specification leaves unspecified are don't-care: 4 tail-padding bytes of the inflight descriptor, 7 padding bytes of the map request".into());
}

pub fn replay(case: &Value, rep: &mut Report) {
    println!("replay C01 (re-running the quick enumeration; case {case})");
    run(rep);
}
