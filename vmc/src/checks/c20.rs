//! C20: message validators accept exactly the protocol-valid encodings.
//! Engine E3: full product of per-field boundary lattices, `is_valid()` of the value built from
//! raw bytes vs the reference predicate.

use crate::lattice::*;
use crate::model::validators as refv;
use crate::report::Report;
use serde_json::{json, Value};
use std::sync::atomic::{AtomicU64, Ordering};
use std::sync::Mutex;
use vhost::vhost_user::message::*;
use vhost::vhost_user::verif::{header_is_valid, HeaderChannel};
use vm_memory::ByteValued;

fn build<T: ByteValued + Default>(bytes: &[u8]) -> T {
    let mut t = T::default();
    t.as_mut_slice().copy_from_slice(bytes);
    t
}

struct Tally {
    evals: AtomicU64,
    valid: AtomicU64,
    mism: Mutex<Vec<(String, Vec<u64>, bool, bool)>>,
}

/// Enumerate the full product of `dims`; `f(tuple) -> (impl_valid, ref_valid)`.
fn product<F>(name: &str, dims: &[Vec<u64>], threads: usize, f: F, rep: &mut Report)
where
    F: Fn(&[u64]) -> (bool, bool) + Sync,
{
    let tally = Tally { evals: AtomicU64::new(0), valid: AtomicU64::new(0), mism: Mutex::new(vec![]) };
    let first = &dims[0];
    let chunk = first.len().div_ceil(threads.max(1));
    std::thread::scope(|s| {
        for part in first.chunks(chunk.max(1)) {
            let tally = &tally;
            let f = &f;
            let dims = dims;
            s.spawn(move || {
                let n = dims.len();
                let mut idx = vec![0usize; n];
                let mut cur = vec![0u64; n];
                let mut evals = 0u64;
                let mut valid = 0u64;
                for &v0 in part {
                    cur[0] = v0;
                    for i in 1..n {
                        idx[i] = 0;
                        cur[i] = dims[i][0];
                    }
                    'outer: loop {
                        let (a, b) = f(&cur);
                        evals += 1;
                        if b {
                            valid += 1;
                        }
                        if a != b {
                            let mut m = tally.mism.lock().unwrap();
                            if m.len() < 64 {
                                m.push((String::new(), cur.clone(), a, b));
                            }
                        }
                        // odometer over dims[1..]
                        let mut k = n - 1;
                        loop {
                            if k == 0 {
                                break 'outer;
                            }
                            idx[k] += 1;
                            if idx[k] < dims[k].len() {
                                cur[k] = dims[k][idx[k]];
                                break;
                            }
                            idx[k] = 0;
                            cur[k] = dims[k][0];
                            k -= 1;
                        }
                    }
                }
                tally.evals.fetch_add(evals, Ordering::Relaxed);
                tally.valid.fetch_add(valid, Ordering::Relaxed);
            });
        }
    });
    let evals = tally.evals.load(Ordering::Relaxed);
    let valid = tally.valid.load(Ordering::Relaxed);
    rep.evaluations += evals;
    rep.transitions += evals;
    rep.nontrivial += valid;
    if valid > 0 {
        rep.outcome(&format!("{name}:valid"));
    }
    if evals > valid {
        rep.outcome(&format!("{name}:invalid"));
    }
    rep.extra.insert(
        format!("type_{name}"),
        json!({"tuples": evals, "ref_valid": valid, "dims": dims.iter().map(|d| d.len()).collect::<Vec<_>>()}),
    );
    let mism = tally.mism.into_inner().unwrap();
    for (_, cur, a, b) in mism.iter() {
        let sig = format!(
            "C20:{name}:impl_{}_ref_{}",
            if *a { "accepts" } else { "rejects" },
            if *b { "valid" } else { "invalid" }
        );
        rep.violation(
            &sig,
            &format!("{name} fields {:x?}: library is_valid()={a}, protocol rule says {b}", cur),
            json!({"check": "C20", "type": name, "fields": cur}),
        );
    }
    if rep.samples.len() < 8 {
        let mid: Vec<u64> = dims.iter().map(|d| d[d.len() / 2]).collect();
        let (a, b) = f(&mid);
        rep.sample(json!({"type": name, "fields_hex": mid.iter().map(|x| format!("{x:#x}")).collect::<Vec<_>>(), "impl": a, "ref": b}));
    }
}

fn put64(b: &mut [u8], off: usize, v: u64) {
    b[off..off + 8].copy_from_slice(&v.to_ne_bytes());
}
fn put32(b: &mut [u8], off: usize, v: u32) {
    b[off..off + 4].copy_from_slice(&v.to_ne_bytes());
}
fn put16(b: &mut [u8], off: usize, v: u16) {
    b[off..off + 2].copy_from_slice(&v.to_ne_bytes());
}

fn u(v: Vec<u32>) -> Vec<u64> {
    v.into_iter().map(|x| x as u64).collect()
}

/// Evaluate one (type, fields) case: returns (impl, ref).
pub fn eval_case(ty: &str, c: &[u64]) -> Option<(bool, bool)> {
    Some(match ty {
        "hdr_frontend" | "hdr_backend" | "hdr_gpu" => {
            let mut b = [0u8; 12];
            put32(&mut b, 0, c[0] as u32);
            put32(&mut b, 4, c[1] as u32);
            put32(&mut b, 8, c[2] as u32);
            match ty {
                "hdr_frontend" => (
                    header_is_valid(HeaderChannel::Frontend, &b),
                    refv::header_valid(&b, refv::FRONTEND_REQ_MAX),
                ),
                "hdr_backend" => (
                    header_is_valid(HeaderChannel::Backend, &b),
                    refv::header_valid(&b, refv::BACKEND_REQ_MAX),
                ),
                _ => (header_is_valid(HeaderChannel::Gpu, &b), refv::gpu_header_valid(&b)),
            }
        }
        "memory" => {
            let mut b = [0u8; 8];
            put32(&mut b, 0, c[0] as u32);
            put32(&mut b, 4, c[1] as u32);
            (build::<VhostUserMemory>(&b).is_valid(), refv::mem_table_hdr_valid(&b))
        }
        "region" => {
            let mut b = [0u8; 32];
            for i in 0..4 {
                put64(&mut b, i * 8, c[i]);
            }
            (build::<VhostUserMemoryRegion>(&b).is_valid(), refv::region_bytes_valid(&b))
        }
        "single_region" => {
            let mut b = [0u8; 40];
            put64(&mut b, 0, c[4]);
            for i in 0..4 {
                put64(&mut b, 8 + i * 8, c[i]);
            }
            (
                build::<VhostUserSingleMemoryRegion>(&b).is_valid(),
                refv::single_region_bytes_valid(&b),
            )
        }
        "vring_addr" => {
            let mut b = [0u8; 40];
            put32(&mut b, 0, c[4] as u32);
            put32(&mut b, 4, c[0] as u32);
            put64(&mut b, 8, c[1]);
            put64(&mut b, 16, c[2]);
            put64(&mut b, 24, c[3]);
            put64(&mut b, 32, c[5]);
            (build::<VhostUserVringAddr>(&b).is_valid(), refv::vring_addr_bytes_valid(&b))
        }
        "config" => {
            let mut b = [0u8; 12];
            put32(&mut b, 0, c[0] as u32);
            put32(&mut b, 4, c[1] as u32);
            put32(&mut b, 8, c[2] as u32);
            (build::<VhostUserConfig>(&b).is_valid(), refv::config_bytes_valid(&b))
        }
        "inflight" => {
            let mut b = [0u8; 24];
            put64(&mut b, 0, c[0]);
            put64(&mut b, 8, c[1]);
            put16(&mut b, 16, c[2] as u16);
            put16(&mut b, 18, c[3] as u16);
            put32(&mut b, 20, c[4] as u32); // tail padding: don't care
            (build::<VhostUserInflight>(&b).is_valid(), refv::inflight_bytes_valid(&b))
        }
        "log" => {
            let mut b = [0u8; 16];
            put64(&mut b, 0, c[0]);
            put64(&mut b, 8, c[1]);
            (build::<VhostUserLog>(&b).is_valid(), refv::log_bytes_valid(&b))
        }
        "transfer" => {
            let mut b = [0u8; 8];
            put32(&mut b, 0, c[0] as u32);
            put32(&mut b, 4, c[1] as u32);
            (
                build::<VhostUserTransferDeviceState>(&b).is_valid(),
                refv::transfer_bytes_valid(&b),
            )
        }
        "uuid" => {
            let mut b = [0u8; 16];
            put64(&mut b, 0, c[0]);
            put64(&mut b, 8, c[1]);
            (build::<VhostUserSharedMsg>(&b).is_valid(), refv::uuid_bytes_valid(&b))
        }
        "mmap" => {
            let mut b = [0u8; 40];
            b[0] = c[4] as u8;
            for i in 1..8 {
                b[i] = (c[5] >> (8 * (i - 1))) as u8; // padding bytes: unspecified, don't care
            }
            put64(&mut b, 8, c[0]);
            put64(&mut b, 16, c[1]);
            put64(&mut b, 24, c[2]);
            put64(&mut b, 32, c[3]);
            (build::<VhostUserMMap>(&b).is_valid(), refv::mmap_bytes_valid(&b))
        }
        "code_frontend" => {
            let v = c[0] as u32;
            (FrontendReq::try_from(v).is_ok(), (1..=refv::FRONTEND_REQ_MAX).contains(&v))
        }
        "code_backend" => {
            let v = c[0] as u32;
            (BackendReq::try_from(v).is_ok(), (1..=refv::BACKEND_REQ_MAX).contains(&v))
        }
        "code_gpu" => {
            let v = c[0] as u32;
            (
                vhost::vhost_user::gpu_message::GpuBackendReq::try_from(v).is_ok(),
                (1..=refv::GPU_REQ_MAX).contains(&v),
            )
        }
        _ => return None,
    })
}

pub fn run(rep: &mut Report) {
    let thorough = rep.is_thorough();
    let seed = rep.seed;
    let threads = 16;
    let lv: u8 = if thorough { 2 } else { 1 };
    let l64 = rotate(&u64_lattice(lv, seed), seed);
    let l64s = rotate(&u64_lattice(lv.saturating_sub(1), seed), seed);
    let l32 = rotate(&u(u32_lattice(lv, seed)), seed);
    let l32s = u(u32_lattice(0, seed));
    let l16: Vec<u64> = u16_lattice(1).into_iter().map(|x| x as u64).collect();

    // request-code windows: [0,4096] and +-64 around every 2^k
    let mut codes: Vec<u64> = (0..=4096u64).collect();
    for k in 0..32u32 {
        let c = 1u64 << k;
        for d in 0..=64u64 {
            codes.push(c.saturating_sub(d));
            codes.push((c + d).min(u32::MAX as u64));
        }
    }
    for d in 0..=64u64 {
        codes.push(u32::MAX as u64 - d);
    }
    codes.sort();
    codes.dedup();
    for ty in ["code_frontend", "code_backend", "code_gpu"] {
        product(ty, &[codes.clone()], threads, |c| eval_case(ty, c).unwrap(), rep);
    }

    // headers: code x flags x size
    let hdr_codes: Vec<u64> = {
        let mut v: Vec<u64> = (0..=64).collect();
        v.extend(l32s.iter());
        v.sort();
        v.dedup();
        v
    };
    let flags: Vec<u64> = {
        let mut v: Vec<u64> = (0..=0x1f).collect();
        v.extend(l32.iter());
        v.sort();
        v.dedup();
        v
    };
    let sizes: Vec<u64> = {
        let mut v = l32.clone();
        v.extend_from_slice(&[4095, 4096, 4097, 12, 4084, 4085]);
        v.sort();
        v.dedup();
        v
    };
    for ty in ["hdr_frontend", "hdr_backend", "hdr_gpu"] {
        product(ty, &[hdr_codes.clone(), flags.clone(), sizes.clone()], threads, |c| eval_case(ty, c).unwrap(), rep);
    }

    product("memory", &[{
        let mut v = l32.clone();
        v.extend(0..=40);
        v.sort();
        v.dedup();
        v
    }, l32.clone()], threads, |c| eval_case("memory", c).unwrap(), rep);

    product("region", &[l64.clone(), l64.clone(), l64.clone(), l64.clone()], threads, |c| eval_case("region", c).unwrap(), rep);
    product(
        "single_region",
        &[l64.clone(), l64.clone(), l64.clone(), l64.clone(), vec![0, 1, u64::MAX]],
        threads,
        |c| eval_case("single_region", c).unwrap(),
        rep,
    );
    product(
        "vring_addr",
        &[l32.clone(), l64.clone(), l64.clone(), l64.clone(), vec![0, 1, 255, 0xffff_ffff], vec![0, 1, u64::MAX]],
        threads,
        |c| eval_case("vring_addr", c).unwrap(),
        rep,
    );
    product("config", &[l32.clone(), l32.clone(), l32.clone()], threads, |c| eval_case("config", c).unwrap(), rep);
    product(
        "inflight",
        &[l64s.clone(), l64s.clone(), l16.clone(), l16.clone(), vec![0, 0xffff_ffff]],
        threads,
        |c| eval_case("inflight", c).unwrap(),
        rep,
    );
    product("log", &[l64.clone(), l64.clone()], threads, |c| eval_case("log", c).unwrap(), rep);
    product("transfer", &[l32.clone(), l32.clone()], threads, |c| eval_case("transfer", c).unwrap(), rep);
    product("uuid", &[l64.clone(), l64.clone()], threads, |c| eval_case("uuid", c).unwrap(), rep);
    product(
        "mmap",
        &[l64.clone(), l64.clone(), l64.clone(), if thorough { l64.clone() } else { l64s.clone() }, vec![0, 1, 255], vec![0, 0x00ff_ffff_ffff_ffff]],
        threads,
        |c| eval_case("mmap", c).unwrap(),
        rep,
    );

    rep.states = rep.outcomes.len() as u64;
    rep.traces = rep.evaluations;
    rep.exhaustive = true;
    rep.rule = format!(
        "full product of per-field boundary lattices (u64 lattice {} values, u32 lattice {} values, every single bit at thorough) per message type; all tuples are distinct by construction; a tuple is counted non-trivial when the reference predicate accepts it (valid encodings, the minority class). Every u32 request code in [0,4096] and +-64 around every 2^k.",
        l64.len(),
        l32.len()
    );
    rep.assumptions.push("reference predicates transcribe the validity rules of the property statement; unspecified padding bytes are don't-care".into());
}

pub fn replay(case: &Value, rep: &mut Report) {
    let ty = case["type"].as_str().unwrap_or("");
    let f: Vec<u64> = case["fields"].as_array().map(|a| a.iter().map(|x| x.as_u64().unwrap_or(0)).collect()).unwrap_or_default();
    match eval_case(ty, &f) {
        Some((a, b)) => {
            println!("replay C20 {ty} {:x?}: impl={a} ref={b}", f);
            rep.evaluations += 1;
            if a != b {
                rep.violation(&format!("C20:{ty}:replay"), "mismatch reproduced", case.clone());
            }
        }
        None => println!("unknown type"),
    }
}
