//! C16: daemon shutdown and teardown always complete, whatever the timing.
//! Engine E2: the real daemon thread, 1-3 real shutdown callers, the peer (sends a request in
//! fragments, may close at any byte offset) and the waiting main thread as environment actors;
//! plus sequential fault enumerations (peer close at every byte offset, serve(), drop).

use crate::daemonh::*;
use crate::rawpeer::{recv_once, send_with_fds};
use crate::report::Report;
use crate::sched::*;
use crate::spec::*;
use crate::sysshim::{self, Point};
use serde_json::{json, Value};
use std::os::unix::io::AsRawFd;
use std::os::unix::net::UnixStream;
use std::sync::Arc;
use vhost_user_backend::{VhostUserDaemon, VringRwLock};

type H = DaemonH<VringRwLock, ()>;

#[derive(Clone, Debug)]
pub enum PStep {
    Send(Vec<u8>),
    Close,
    /// the peer shuts down its sending direction only and keeps reading
    HalfClose,
}

#[derive(Clone, Debug)]
pub struct Sc16 {
    pub callers: usize,
    pub peer: Vec<PStep>,
    pub label: String,
    /// wait() is called by a real thread that may enter it at any time (before or after the
    /// shutdown requests / the disconnect) instead of by the explorer at quiescence
    pub waiter: bool,
}

type Daemon = VhostUserDaemon<TBackend<VringRwLock, ()>>;

pub struct St {
    h: H,
    p_pos: usize,
    waited: Option<String>,
    handles: Vec<std::thread::JoinHandle<()>>,
    peer_closed: bool,
    sent_bytes: usize,
    /// the daemon thread wrote (or tried to write) a reply that the peer never read
    wrote_after_close: bool,
    /// step counters for "was the shutdown flag stored before the daemon thread exited?"
    step_no: usize,
    flag_step: Option<usize>,
    d_exit_step: Option<usize>,
    /// result of the waiter thread's wait() and the daemon it owned meanwhile
    slot: Arc<std::sync::Mutex<Option<(String, Daemon)>>>,
}

fn request_bytes() -> Vec<u8> {
    // SET_FEATURES with NEED_REPLY: header 12 + body 8 (no reply before REPLY_ACK: none is written)
    message(SET_FEATURES, F_VERSION, &p_u64(0x3))
}

impl Scenario for Sc16 {
    type S = St;
    fn name(&self) -> String {
        format!("{}callers-{}{}", self.callers, self.label, if self.waiter { "+waiter" } else { "" })
    }
    fn expected_threads(&self) -> usize {
        2 + self.callers + self.waiter as usize
    }
    fn setup(&self, x: &mut Exec) -> Result<St, String> {
        let mut h = H::new(Cfg::default());
        let handle = h.daemon.as_ref().unwrap().shutdown_handle().ok_or("no shutdown handle")?;
        let mut handles = Vec::new();
        for i in 0..self.callers {
            let hd = handle.clone();
            let ctl = x.ctl.clone();
            handles.push(
                std::thread::Builder::new()
                    .name(format!("shutdown-{i}"))
                    .spawn(move || {
                        sysshim::sched_point(Point::User("start"), &|| true);
                        hd.shutdown();
                        ctl.exited();
                    })
                    .unwrap(),
            );
        }
        let slot: Arc<std::sync::Mutex<Option<(String, Daemon)>>> = Arc::new(std::sync::Mutex::new(None));
        if self.waiter {
            let mut d = h.daemon.take().ok_or("no daemon")?;
            let slot2 = slot.clone();
            let ctl = x.ctl.clone();
            handles.push(
                std::thread::Builder::new()
                    .name("waiter".into())
                    .spawn(move || {
                        sysshim::sched_point(Point::User("enter-wait"), &|| true);
                        let r = d.wait();
                        let txt = match &r {
                            Ok(()) => "Ok".to_string(),
                            Err(e) => format!("Err({e:?})"),
                        };
                        *slot2.lock().unwrap() = Some((txt, d));
                        ctl.exited();
                    })
                    .unwrap(),
            );
        }
        x.ctl.quiesce(self.expected_threads())?;
        Ok(St { h, p_pos: 0, waited: None, handles, peer_closed: false, sent_bytes: 0, wrote_after_close: false, step_no: 0, flag_step: None, d_exit_step: None, slot })
    }
    fn env_names(&self) -> Vec<String> {
        vec!["P".into()]
    }
    fn env_enabled(&self, s: &St, _i: usize) -> bool {
        s.p_pos < self.peer.len()
    }
    fn env_step(&self, s: &mut St, _i: usize, _x: &mut Exec) -> String {
        let st = self.peer[s.p_pos].clone();
        s.p_pos += 1;
        match st {
            PStep::Send(b) => {
                if let Some(p) = &s.h.peer {
                    send_with_fds(p.as_raw_fd(), &b, &[]);
                }
                s.sent_bytes += b.len();
                format!("send({})", b.len())
            }
            PStep::Close => {
                s.h.peer = None;
                s.peer_closed = true;
                "close".into()
            }
            PStep::HalfClose => {
                if let Some(p) = &s.h.peer {
                    let _ = p.shutdown(std::net::Shutdown::Write);
                }
                s.peer_closed = true;
                "half-close".into()
            }
        }
    }
    fn after_step(&self, s: &mut St, info: &StepInfo, x: &mut Exec) {
        s.step_no += 1;
        if let Actor::Thread(n) = &info.actor {
            // the step that leaves a caller's start point runs shutdown() up to the socket shutdown:
            // the flag is stored in it
            if n.starts_with("shutdown") && info.point == Some(Point::User("start")) && s.flag_step.is_none() {
                s.flag_step = Some(s.step_no);
            }
            // a reply written after the peer closed fails with a broken socket; a peer that closes with
            // a reply still unread (this script never reads) resets the connection: in both cases the
            // daemon does not see a clean disconnect while reading, and either result is accepted
            if n.starts_with("vmc-daemon") && matches!(info.point, Some(Point::Send(_))) {
                s.wrote_after_close = true;
            }
        }
        if s.d_exit_step.is_none() && x.ctl.snapshot().iter().any(|p| p.0.starts_with("vmc-daemon") && p.1 == PState::Exited) {
            s.d_exit_step = Some(s.step_no);
        }
    }

    fn finish(&self, s: &mut St, x: &mut Exec) {
        let snap = x.ctl.snapshot();
        let d = snap.iter().find(|p| p.0.starts_with("vmc-daemon"));
        let d_exited = d.map(|p| p.1 == PState::Exited).unwrap_or(false);
        let stuck_callers: Vec<&String> = snap.iter().filter(|p| p.0.starts_with("shutdown") && p.1 != PState::Exited).map(|p| &p.0).collect();
        if !stuck_callers.is_empty() {
            x.violation("C16:shutdown-caller-stuck", &format!("shutdown caller(s) never returned: {stuck_callers:?}"));
        }
        let panics = take_panics();
        if !panics.is_empty() {
            x.violation("C16:panic", &format!("{panics:?}"));
        }
        let shutdown_requested = self.callers > 0;
        let must_exit = shutdown_requested || s.peer_closed || self.label.contains("invalid");
        if must_exit && !d_exited {
            let why = if shutdown_requested { "after-shutdown-request" } else { "after-peer-close-or-error" };
            x.violation(&format!("C16:daemon-thread-never-exits:{why}"), &format!("no actor is enabled but the daemon thread is still {:?}: wait() would never return", d.map(|p| (p.1.clone(), point_label(&p.2)))));
            return;
        }
        if !d_exited {
            return; // idle peer, nobody asked for a shutdown: nothing to wait for
        }
        // M: wait() - by the waiter thread (which must have returned by now), else by the explorer
        let (txt, ok): (String, bool) = if self.waiter {
            match s.slot.lock().unwrap().take() {
                Some((txt, d)) => {
                    s.h.daemon = Some(d);
                    let ok = txt == "Ok";
                    (txt, ok)
                }
                None => {
                    x.violation("C16:wait-never-returns", &format!("the daemon thread has exited but the thread inside wait() never returned: {:?}", snap.iter().find(|p| p.0.starts_with("waiter")).map(|p| (p.1.clone(), point_label(&p.2)))));
                    return;
                }
            }
        } else {
            let r = s.h.daemon.as_mut().unwrap().wait();
            match &r {
                Ok(()) => ("Ok".to_string(), true),
                Err(e) => (format!("Err({e:?})"), false),
            }
        };
        let r: Result<(), ()> = if ok { Ok(()) } else { Err(()) };
        s.waited = Some(txt.clone());
        // With a waiter thread a request that arrives only after the daemon thread has already ended
        // (because of the disconnect) may or may not be seen by wait(): both results are accepted then.
        let late_request = self.waiter && match (s.flag_step, s.d_exit_step) {
            (Some(f), Some(d)) => f >= d,
            _ => false,
        };
        if late_request {
            // nothing to demand about the result
        } else if shutdown_requested {
            if r.is_err() {
                x.violation("C16:wait-fails-after-shutdown", &format!("shutdown was requested but wait() returned {txt}"));
            }
        } else {
            // without a shutdown request a disconnect seen while reading is an error; a peer that
            // vanished while the daemon wrote (SocketBroken) may be reported either way
            let reading_disconnect = (s.peer_closed && !s.wrote_after_close) || self.label.contains("invalid");
            if reading_disconnect && r.is_ok() && !txt.contains("SocketBroken") {
                // the daemon only reads in these scripts (no replies are written), so Ok is wrong
                x.violation("C16:wait-succeeds-after-disconnect", &format!("no shutdown was requested and the peer {} but wait() returned Ok", if s.peer_closed { "disconnected" } else { "sent an invalid request" }));
            }
        }
        // the peer observes end-of-stream
        if let Some(p) = &s.h.peer {
            let mut eof = false;
            for _ in 0..4 {
                match recv_once(p.as_raw_fd(), 4096) {
                    Some((b, _)) if b.is_empty() => {
                        eof = true;
                        break;
                    }
                    Some(_) => continue,
                    None => break,
                }
            }
            if !eof {
                x.violation("C16:peer-does-not-see-end-of-stream", "the daemon stopped serving but the peer's socket is still open without end-of-stream");
            }
        }
        // the daemon can accept a new connection
        s.h.peer = None;
        let before = x.ctl.snapshot().len();
        s.h.connect();
        x.expected = before + 1;
        if let Err(e) = x.run_quiet() {
            x.violation("C16:restart-failed", &format!("second start(): {e}"));
            return;
        }
        s.h.send(GET_FEATURES, F_VERSION, &[], &[]);
        let _ = x.run_quiet();
        match s.h.try_recv_msg() {
            Some(ReqOut::Msg(d, _)) if d.code == GET_FEATURES => {}
            o => x.violation("C16:restart-does-not-serve", &format!("after wait() a new connection was not served: {o:?}")),
        }
    }

    fn teardown(&self, s: St) {
        let St { mut h, handles, slot, .. } = s;
        // everything runs freely from here; closing the peer ends the daemon thread, which lets a
        // thread still inside wait() return
        sysshim::sched_release();
        h.peer = None;
        for t in handles {
            let _ = t.join();
        }
        if h.daemon.is_none() {
            if let Some((_, d)) = slot.lock().unwrap().take() {
                h.daemon = Some(d);
            }
        }
        drop(h);
    }
}

fn outcome(r: &RunResult) -> String {
    let d: Vec<&str> = r.trace.iter().filter(|t| t.starts_with("vmc-daemon")).map(|t| t.split(':').nth(1).unwrap_or("")).collect();
    format!("{}|v{}", d.join(","), r.violations.len())
}

fn scenarios(thorough: bool) -> Vec<Sc16> {
    let req = request_bytes();
    let mut peers: Vec<(String, Vec<PStep>)> = vec![
        ("idle".into(), vec![]),
        ("header-only".into(), vec![PStep::Send(req[..12].to_vec())]),
        ("full-request".into(), vec![PStep::Send(req.clone())]),
        ("two-fragments".into(), vec![PStep::Send(req[..12].to_vec()), PStep::Send(req[12..].to_vec())]),
        ("three-fragments".into(), vec![PStep::Send(req[..5].to_vec()), PStep::Send(req[5..15].to_vec()), PStep::Send(req[15..].to_vec())]),
        ("close-at-0".into(), vec![PStep::Close]),
        ("close-at-5".into(), vec![PStep::Send(req[..5].to_vec()), PStep::Close]),
        ("close-at-12".into(), vec![PStep::Send(req[..12].to_vec()), PStep::Close]),
        ("close-at-15".into(), vec![PStep::Send(req[..15].to_vec()), PStep::Close]),
        ("close-after-request".into(), vec![PStep::Send(req.clone()), PStep::Close]),
        ("invalid-header".into(), vec![PStep::Send(header(200, F_VERSION, 0).to_vec())]),
        // the peer stops sending but keeps reading: it must see end-of-stream once the daemon stops serving
        ("half-close-at-0".into(), vec![PStep::HalfClose]),
        ("half-close-at-5".into(), vec![PStep::Send(req[..5].to_vec()), PStep::HalfClose]),
        ("half-close-at-12".into(), vec![PStep::Send(req[..12].to_vec()), PStep::HalfClose]),
        // a request that is answered: the shutdown can fall before / after the daemon writes the reply
        ("request-with-reply".into(), vec![PStep::Send(message(GET_FEATURES, F_VERSION, &[]))]),
        ("request-with-reply-then-close".into(), vec![PStep::Send(message(GET_FEATURES, F_VERSION, &[])), PStep::Close]),
    ];
    if thorough {
        for c in [1usize, 11, 13, 19] {
            peers.push((format!("close-at-{c}"), vec![PStep::Send(req[..c].to_vec()), PStep::Close]));
        }
    }
    let mut v = Vec::new();
    for callers in 0..=3usize {
        for (l, p) in &peers {
            if callers == 3 && !thorough && !["idle", "two-fragments", "close-at-12", "request-with-reply"].contains(&l.as_str()) {
                continue;
            }
            if callers == 0 && (l == "idle" || l == "header-only") {
                // nothing ever happens; kept as vacuity control only for idle
                if l == "header-only" {
                    continue;
                }
            }
            v.push(Sc16 { callers, peer: p.clone(), label: l.clone(), waiter: false });
        }
    }
    // wait() entered by a real thread at any time relative to the shutdown requests / the disconnect
    for callers in 0..=2usize {
        for (l, p) in &peers {
            let pick: &[&str] = if thorough { &["idle", "full-request", "two-fragments", "close-at-0", "close-at-5", "close-at-12", "close-after-request", "invalid-header"] } else if callers == 2 { &["idle", "close-at-0"] } else { &["idle", "two-fragments", "close-at-0", "close-at-12"] };
            if !pick.contains(&l.as_str()) || (callers == 0 && l == "idle") {
                continue;
            }
            v.push(Sc16 { callers, peer: p.clone(), label: l.clone(), waiter: true });
        }
    }
    v
}

/// Sequential fault enumeration: peer close at every byte offset of a request, free running.
fn close_offsets(rep: &mut Report) {
    let req = message(SET_FEATURES, F_VERSION, &p_u64(0x3));
    let threads_before = std::fs::read_dir("/proc/self/task").map(|d| d.count()).unwrap_or(0);
    for cut in 0..=req.len() {
        for (use_serve, half) in [(false, false), (true, false), (false, true)] {
            let case = json!({"check":"C16","part":"close_offsets","cut":cut,"serve":use_serve,"half_close":half});
            rep.evaluations += 1;
            rep.transitions += 1;
            let be = TBackend::<VringRwLock, ()>::new(Cfg::default());
            let mem = vm_memory::GuestMemoryAtomic::new(vm_memory::GuestMemoryMmap::<()>::new());
            let mut daemon = VhostUserDaemon::new("vmc-daemon".into(), be.clone(), mem).unwrap();
            let path = format!("/tmp/vmc-c16-{}-{}-{}.sock", std::process::id(), cut, use_serve as u8 + 2 * half as u8);
            let res: String;
            if use_serve {
                let p2 = path.clone();
                let t = std::thread::spawn(move || {
                    let r = daemon.serve(&p2);
                    (daemon, r)
                });
                // wait for the listener to exist
                let mut s = None;
                for _ in 0..2000 {
                    if let Ok(c) = UnixStream::connect(&path) {
                        s = Some(c);
                        break;
                    }
                    std::thread::sleep(std::time::Duration::from_micros(200));
                }
                let Some(s) = s else {
                    rep.violation("C16:serve:no-listener", "serve() never listened", case);
                    continue;
                };
                send_with_fds(s.as_raw_fd(), &req[..cut], &[]);
                drop(s);
                let (d, r) = t.join().unwrap();
                daemon = d;
                res = match &r {
                    Ok(()) => "Ok".into(),
                    Err(e) => format!("Err({e:?})"),
                };
                // serve() maps clean and partial-header disconnects to success
                let want_ok = cut < 12;
                if want_ok != r.is_ok() && !(cut == req.len()) {
                    rep.outcome("serve-mapping-differs");
                    rep.violation("C16:serve:result-mapping", &format!("peer closed at byte {cut} of a {}-byte request: serve() returned {res}", req.len()), case.clone());
                } else {
                    rep.outcome(if r.is_ok() { "serve-ok" } else { "serve-err" });
                    rep.nontrivial += 1;
                }
                // ... and always raises every worker's exit event: the workers terminate on their own
                let mut alive = true;
                for _ in 0..2000 {
                    // (serve() has returned and its thread was joined: whatever exceeds the thread count
                    // from before the daemon was created is a worker that is still running)
                    let n = std::fs::read_dir("/proc/self/task").map(|d| d.count()).unwrap_or(0);
                    if n <= threads_before {
                        alive = false;
                        break;
                    }
                    std::thread::sleep(std::time::Duration::from_micros(500));
                }
                if alive {
                    rep.violation("C16:serve:exit-events-not-raised", &format!("after serve() returned ({res}) the vring worker is still running"), case.clone());
                }
            } else {
                let mut listener = vhost::vhost_user::Listener::new(&path, true).unwrap();
                let s = UnixStream::connect(&path).unwrap();
                daemon.start(&mut listener).unwrap();
                send_with_fds(s.as_raw_fd(), &req[..cut], &[]);
                if half && cut < req.len() {
                    // the peer stops sending but keeps its end open and reads: once the daemon has
                    // stopped serving (it reads end-of-stream inside a request) the peer must see
                    // end-of-stream too. (The timeout only bounds the failing case.)
                    use std::io::Read;
                    let _ = s.shutdown(std::net::Shutdown::Write);
                    let _ = s.set_read_timeout(Some(std::time::Duration::from_secs(3)));
                    let mut b = [0u8; 64];
                    let mut s2 = &s;
                    match s2.read(&mut b) {
                        Ok(0) => {
                            rep.outcome("half-close:peer-sees-end-of-stream");
                            rep.nontrivial += 1;
                        }
                        other => {
                            rep.outcome("half-close:no-end-of-stream");
                            rep.violation("C16:peer-does-not-see-end-of-stream", &format!("peer shut down its sending side at byte {cut} and keeps reading: {:?} instead of end-of-stream", other.map_err(|e| e.kind())), case.clone());
                        }
                    }
                }
                drop(s);
                let r = daemon.wait();
                res = match &r {
                    Ok(()) => "Ok".into(),
                    Err(e) => format!("Err({e:?})"),
                };
                if r.is_ok() {
                    rep.outcome("wait-ok-after-disconnect");
                    rep.violation("C16:wait-succeeds-after-disconnect", &format!("no shutdown requested, peer closed at byte {cut}: wait() returned Ok"), case.clone());
                } else {
                    rep.outcome("wait-err-after-disconnect");
                    rep.nontrivial += 1;
                }
                drop(listener);
            }
            drop(daemon);
            for fd in be.leaked_exit_fds.lock().unwrap().drain(..) {
                // SAFETY: see DaemonH::drop.
                unsafe { libc::close(fd) };
            }
            let _ = std::fs::remove_file(&path);
            let _ = res;
        }
    }
    // dropping the daemons terminated all their worker threads
    let mut after = 0;
    for _ in 0..200 {
        after = std::fs::read_dir("/proc/self/task").map(|d| d.count()).unwrap_or(0);
        if after <= threads_before {
            break;
        }
        std::thread::sleep(std::time::Duration::from_millis(1));
    }
    rep.evaluations += 1;
    if after > threads_before {
        rep.violation("C16:threads-left-after-drop", &format!("{} thread(s) before, {} after dropping all daemons", threads_before, after), json!({"check":"C16","part":"thread_count"}));
    } else {
        rep.outcome("threads-gone-after-drop");
        rep.nontrivial += 1;
    }
}

/// Shutdown requested while the daemon thread is blocked WRITING a reply: the peer floods
/// reply-bearing requests without reading until both socket buffers are full. (Sequential; the
/// 5 s bound only limits the failing case - a daemon thread that is never woken.)
fn shutdown_while_writing(rep: &mut Report) {
    use std::io::Read;
    let case = json!({"check":"C16","part":"shutdown_while_writing"});
    let be = TBackend::<VringRwLock, ()>::new(Cfg::default());
    let mem = vm_memory::GuestMemoryAtomic::new(vm_memory::GuestMemoryMmap::<()>::new());
    let mut daemon = VhostUserDaemon::new("vmc-daemon".into(), be.clone(), mem).unwrap();
    let path = format!("/tmp/vmc-c16-{}-flood.sock", std::process::id());
    let _ = std::fs::remove_file(&path);
    let mut listener = vhost::vhost_user::Listener::new(&path, true).unwrap();
    let s = UnixStream::connect(&path).unwrap();
    daemon.start(&mut listener).unwrap();
    let handle = daemon.shutdown_handle();
    s.set_nonblocking(true).unwrap();
    let req = message(GET_FEATURES, F_VERSION, &[]);
    // flood until nothing more can be written for 100 ms: the daemon no longer reads, because it is
    // blocked writing replies nobody consumes
    let mut sent = 0usize;
    let mut idle = std::time::Instant::now();
    let t0 = std::time::Instant::now();
    while idle.elapsed().as_millis() < 100 && t0.elapsed().as_secs() < 20 {
        // SAFETY: plain send on our socket.
        let n = unsafe { libc::send(s.as_raw_fd(), req.as_ptr() as *const libc::c_void, req.len(), libc::MSG_DONTWAIT | libc::MSG_NOSIGNAL) };
        if n == req.len() as isize {
            sent += 1;
            idle = std::time::Instant::now();
        } else {
            std::thread::sleep(std::time::Duration::from_millis(1));
        }
    }
    rep.evaluations += 1;
    rep.transitions += 1;
    rep.extra.insert("blocked_writer_requests_sent".into(), json!(sent));
    if let Some(h) = &handle {
        h.shutdown();
    }
    let (tx, rx) = std::sync::mpsc::channel();
    let t = std::thread::spawn(move || {
        let r = daemon.wait();
        let _ = tx.send(r.map_err(|e| format!("{e:?}")));
        daemon
    });
    match rx.recv_timeout(std::time::Duration::from_secs(5)) {
        Ok(Ok(())) => {
            rep.outcome("blocked-writer:wait-ok");
            rep.nontrivial += 1;
        }
        Ok(Err(e)) => {
            rep.outcome("blocked-writer:wait-err");
            rep.violation("C16:wait-fails-after-shutdown", &format!("shutdown requested while the daemon thread was writing replies ({sent} unread requests): wait() returned Err({e})"), case.clone());
        }
        Err(_) => {
            rep.outcome("blocked-writer:wait-hangs");
            rep.violation("C16:wait-never-returns:daemon-blocked-writing", &format!("shutdown requested while the daemon thread was blocked writing a reply ({sent} requests sent, none of the replies read): wait() did not return within 5 s"), case.clone());
        }
    }
    // the peer drains what was written and must then see end-of-stream (bounded the same way)
    s.set_nonblocking(false).unwrap();
    let _ = s.set_read_timeout(Some(std::time::Duration::from_secs(3)));
    let mut buf = [0u8; 65536];
    let mut s2 = &s;
    let eof = loop {
        match s2.read(&mut buf) {
            Ok(0) => break true,
            Ok(_) => continue,
            Err(e) if e.kind() == std::io::ErrorKind::ConnectionReset => break true,
            Err(_) => break false,
        }
    };
    if !eof {
        rep.violation("C16:peer-does-not-see-end-of-stream", "after a shutdown request with unread replies the peer never reaches end-of-stream", case.clone());
    }
    drop(s); // releases a daemon thread that is still stuck
    if let Ok(d) = t.join() {
        drop(d);
    }
    drop(listener);
    for fd in be.leaked_exit_fds.lock().unwrap().drain(..) {
        // SAFETY: see DaemonH::drop.
        unsafe { libc::close(fd) };
    }
    let _ = std::fs::remove_file(&path);
}

fn daemon_thread_alive() -> bool {
    std::fs::read_dir("/proc/self/task").map(|d| d.flatten().any(|e| std::fs::read_to_string(e.path().join("comm")).map(|c| c.trim() == "vmc-daemon").unwrap_or(false))).unwrap_or(false)
}

/// Shutdown requested through the daemon AFTER the peer has gone and the daemon thread has ended
/// by itself, and a daemon dropped while its peer is still connected. (Sequential; the bounds
/// only limit the failing cases.)
fn late_request_and_drop(rep: &mut Report) {
    use std::io::Read;
    let req = message(SET_FEATURES, F_VERSION, &p_u64(0x3));
    let threads_before = std::fs::read_dir("/proc/self/task").map(|d| d.count()).unwrap_or(0);
    for cut in [0usize, 5, 12, 15] {
        let case = json!({"check":"C16","part":"late_shutdown_request","cut":cut});
        let be = TBackend::<VringRwLock, ()>::new(Cfg::default());
        let mem = vm_memory::GuestMemoryAtomic::new(vm_memory::GuestMemoryMmap::<()>::new());
        let mut daemon = VhostUserDaemon::new("vmc-daemon".into(), be.clone(), mem).unwrap();
        let path = format!("/tmp/vmc-c16-{}-late-{cut}.sock", std::process::id());
        let _ = std::fs::remove_file(&path);
        let mut listener = vhost::vhost_user::Listener::new(&path, true).unwrap();
        let s = UnixStream::connect(&path).unwrap();
        daemon.start(&mut listener).unwrap();
        send_with_fds(s.as_raw_fd(), &req[..cut], &[]);
        drop(s);
        // the daemon thread ends by itself (disconnect); wait for that, then ask for a shutdown
        let t0 = std::time::Instant::now();
        while daemon_thread_alive() && t0.elapsed().as_secs() < 3 {
            std::thread::sleep(std::time::Duration::from_micros(200));
        }
        daemon.request_shutdown();
        let r = daemon.wait();
        rep.evaluations += 1;
        rep.transitions += 1;
        if let Err(e) = &r {
            rep.outcome("late-shutdown:wait-err");
            rep.violation("C16:wait-fails-after-shutdown", &format!("peer closed at byte {cut}, the daemon thread ended, then a shutdown was requested through the daemon: wait() returned Err({e:?})"), case.clone());
        } else {
            rep.outcome("late-shutdown:wait-ok");
            rep.nontrivial += 1;
        }
        drop(listener);
        drop(daemon);
        for fd in be.leaked_exit_fds.lock().unwrap().drain(..) {
            // SAFETY: see DaemonH::drop.
            unsafe { libc::close(fd) };
        }
        let _ = std::fs::remove_file(&path);
    }
    // a daemon dropped while the peer is still connected (idle / in the middle of a header)
    for cut in [0usize, 5] {
        let case = json!({"check":"C16","part":"drop_with_live_peer","cut":cut});
        let be = TBackend::<VringRwLock, ()>::new(Cfg::default());
        let mem = vm_memory::GuestMemoryAtomic::new(vm_memory::GuestMemoryMmap::<()>::new());
        let mut daemon = VhostUserDaemon::new("vmc-daemon".into(), be.clone(), mem).unwrap();
        let path = format!("/tmp/vmc-c16-{}-drop-{cut}.sock", std::process::id());
        let _ = std::fs::remove_file(&path);
        let mut listener = vhost::vhost_user::Listener::new(&path, true).unwrap();
        let s = UnixStream::connect(&path).unwrap();
        daemon.start(&mut listener).unwrap();
        send_with_fds(s.as_raw_fd(), &req[..cut], &[]);
        drop(daemon);
        rep.evaluations += 1;
        rep.transitions += 1;
        let _ = s.set_read_timeout(Some(std::time::Duration::from_secs(3)));
        let mut b = [0u8; 16];
        let mut s2 = &s;
        let eof = matches!(s2.read(&mut b), Ok(0));
        let mut after = 0;
        for _ in 0..3000 {
            after = std::fs::read_dir("/proc/self/task").map(|d| d.count()).unwrap_or(0);
            if after <= threads_before {
                break;
            }
            std::thread::sleep(std::time::Duration::from_millis(1));
        }
        if !eof {
            rep.outcome("drop-live:no-end-of-stream");
            rep.violation("C16:peer-does-not-see-end-of-stream", &format!("the daemon was dropped while the peer was connected ({cut} byte(s) sent): the peer does not see end-of-stream"), case.clone());
        } else if after > threads_before {
            rep.outcome("drop-live:threads-left");
            rep.violation("C16:threads-left-after-drop", &format!("the daemon was dropped while the peer was connected: {threads_before} thread(s) before, {after} after"), case.clone());
        } else {
            rep.outcome("drop-live:clean");
            rep.nontrivial += 1;
        }
        drop(s); // releases whatever is still blocked on the connection
        drop(listener);
        for fd in be.leaked_exit_fds.lock().unwrap().drain(..) {
            // SAFETY: see DaemonH::drop.
            unsafe { libc::close(fd) };
        }
        let _ = std::fs::remove_file(&path);
    }
}

pub fn run(rep: &mut Report) {
    let thorough = rep.is_thorough();
    rep.exhaustive = false;
    install_panic_watch();
    close_offsets(rep);
    shutdown_while_writing(rep);
    late_request_and_drop(rep);
    let scs = scenarios(thorough);
    let start = std::time::Instant::now();
    let total = if thorough { 2400.0 } else { 90.0 };
    let mut done = 0;
    let mut per_scenario: Vec<Value> = Vec::new();
    for sc in &scs {
        let remaining = total - start.elapsed().as_secs_f64();
        if remaining < 1.0 {
            rep.caps.push(format!("wall budget {total}s: {done} of {} scenarios explored", scs.len()));
            break;
        }
        // bounds are chosen so that no scenario needs its wall cap (the cap is a safety net only):
        // three callers, or two callers plus a waiter thread, get one preemption at quick
        let bound = if thorough { if sc.waiter && sc.callers >= 2 { 2 } else { 3 } } else if sc.callers >= 3 || (sc.waiter && sc.callers >= 2) { 1 } else { 2 };
        let t0 = std::time::Instant::now();
        let st = explore(sc, bound, 120, remaining.min(if thorough { 150.0 } else { 12.0 }), rep, "C16", &outcome);
        rep.states += st.states;
        rep.traces += st.schedules;
        per_scenario.push(json!({"scenario": sc.name(), "bound": bound, "schedules": st.schedules, "by_preemptions": st.by_preemptions, "capped": st.capped, "wall_s": (t0.elapsed().as_secs_f64() * 100.0).round() / 100.0}));
        done += 1;
    }
    rep.extra.insert("scenarios".into(), json!(done));
    rep.extra.insert("scenarios_total".into(), json!(scs.len()));
    rep.extra.insert("per_scenario".into(), json!(per_scenario));
    rep.rule = "E2: for 0..=3 shutdown callers x peer behaviours {idle, header only, full request, 2 and 3 fragments, close at byte 0/5/12/15/after the request (more offsets at thorough), half-close (peer stops sending, keeps reading) at byte 0/5/12, invalid header, a request that is answered (shutdown before / after the reply is written), answered request then close}: all schedules of {daemon thread, shutdown callers (a point before the call and at the socket shutdown, i.e. between flag store and socket shutdown), peer script} with at most 2 (3 at thorough) preemptions; at quiescence the explorer performs wait(), reads the peer socket and starts a second connection on the same listener; in the '+waiter' scenarios (0..=2 callers) wait() is instead called by a real thread that enters it at any point of the schedule (before or after the shutdown requests / the disconnect) and blocks in the join. Sequential part: peer close (and half-close followed by reading) at every byte offset 0..=20 of a request x {start+wait, serve()} the process's thread count after dropping all daemons, a shutdown request while the daemon thread is blocked writing replies the peer does not read, a shutdown requested through the daemon after the peer has gone and the daemon thread has ended, and a daemon dropped while its peer is still connected. Non-trivial = schedules that preempt a runnable thread at least once / offsets whose result mapping was verified".into();
    rep.assumptions.push("without a waiter thread wait() is executed by the explorer once the daemon thread has exited; 'would never return' is decided when the daemon thread is disabled forever; a thread blocked in the join is recognised through /proc (futex wait)".into());
}

pub fn replay(case: &Value, rep: &mut Report) {
    install_panic_watch();
    let name = case["scenario"].as_str().unwrap_or("");
    let sched: Vec<usize> = case["schedule"].as_array().map(|a| a.iter().map(|x| x.as_u64().unwrap_or(0) as usize).collect()).unwrap_or_default();
    match scenarios(true).into_iter().find(|sc| sc.name() == name) {
        Some(sc) => match run_schedule(&sc, &sched, 120) {
            Ok(r) => {
                println!("trace: {:?}", r.trace);
                for (sg, w) in &r.violations {
                    println!("violation {sg}: {w}");
                    rep.violation(sg, w, case.clone());
                }
                rep.evaluations += 1;
            }
            Err(e) => {
                eprintln!("MACHINERY FAILURE: {e}");
                std::process::exit(2);
            }
        },
        None => {
            // sequential part (close offsets): cheap, re-run it
            println!("replay C16: sequential part; case: {case}");
            close_offsets(rep);
        }
    }
}

#[allow(dead_code)]
fn _unused(_: Arc<()>) {}
