//! C04: the backend request server emits exactly the replies the protocol prescribes; peers stay
//! in step. Engine E1: BFS over request histories on the real `BackendReqHandler` (raw peer with
//! the independent codec), reference protocol model co-executed on every transition.

use crate::feops::Resources;
use crate::recorder::Recorder;
use crate::report::Report;
use crate::spec::*;
use crate::sysshim::{coop, pending_bytes};
use crate::wirereq::*;
use crate::xstate::bfs;
use serde_json::{json, Value};
use std::cell::RefCell;
use std::panic::{catch_unwind, AssertUnwindSafe};

#[derive(Clone, Debug)]
pub struct Op {
    pub req: WireReq,
    pub need_reply: bool,
    pub fail: bool,
    /// for GET_FEATURES: the feature word the device reports
    pub dev_features: u64,
}

impl Op {
    pub fn label(&self) -> String {
        format!("{}{}{}", self.req.name(), if self.need_reply { "+NR" } else { "" }, if self.fail { "+FAIL" } else { "" })
    }
}

pub fn alphabet() -> Vec<Op> {
    let mut v = Vec::new();
    let mut reqs = wellformed();
    // feature-setting requests with the values that matter for the negotiation machine
    for pf in [0u64, PF_REPLY_ACK, PF_MQ, PF_CONFIG, PF_ALL_DEFINED & !PF_REPLY_ACK] {
        reqs.push(WireReq::new(SET_PROTOCOL_FEATURES, p_u64(pf), vec![], match pf {
            0 => "0",
            PF_REPLY_ACK => "reply_ack",
            PF_MQ => "mq",
            PF_CONFIG => "config",
            _ => "all-but-reply_ack",
        }));
    }
    reqs.push(WireReq::new(SET_FEATURES, p_u64(0), vec![], "0"));
    // largest messages the protocol allows: a config window whose body is exactly 4096 bytes
    reqs.push(WireReq::new(GET_CONFIG, p_config(0, 0xff4, 0, &vec![0u8; 0xff4]), vec![], "max-size"));
    reqs.push(WireReq::new(GET_CONFIG, p_config(0xc, 0xff4, 0, &vec![0u8; 0xff4]), vec![], "max-size-at-0xc"));
    reqs.push(WireReq::new(SET_CONFIG, p_config(0, 0xff4, 1, &vec![0x5a; 0xff4]), vec![], "max-size"));
    for req in reqs {
        for need_reply in [false, true] {
            for fail in [false, true] {
                if req.code == GET_FEATURES {
                    for dev in [VIRTIO_F_PROTOCOL_FEATURES | 0x3, 0x3] {
                        v.push(Op { req: req.clone(), need_reply, fail, dev_features: dev });
                    }
                } else {
                    v.push(Op { req: req.clone(), need_reply, fail, dev_features: 0 });
                }
            }
        }
    }
    v
}

#[derive(Clone, Debug, Default, PartialEq)]
pub struct Model {
    pub offered_pf: bool,
    pub acked_virtio: u64,
    pub acked_proto: u64,
}

impl Model {
    fn reply_ack(&self) -> bool {
        self.offered_pf && self.acked_proto & PF_REPLY_ACK != 0
    }
}

pub struct Sys {
    pub s: RawSession,
    pub m: Model,
    pub replies_seen: u64,
}

/// In-band failure encodings the protocol defines (a reply is written although the handler failed).
fn inband_failure(code: u32) -> bool {
    matches!(code, GET_CONFIG | GET_SHARED_OBJECT | SET_DEVICE_STATE_FD | CHECK_DEVICE_STATE)
}

fn handler_can_fail(code: u32) -> bool {
    code != SET_BACKEND_REQ_FD
}

pub fn step(sys: &mut Sys, op: &Op, hist: &[usize], check: bool, rep: &mut Report, res: &Resources, ops: &[Op]) -> String {
    let code = op.req.code;
    {
        let mut r = sys.s.server.rec.lock().unwrap();
        r.script.fail_all = op.fail;
        if code == GET_FEATURES {
            r.script.features = op.dev_features;
        }
        r.log.clear();
    }
    let flags = F_VERSION | if op.need_reply { F_NEED_REPLY } else { 0 };
    sys.s.send(&op.req.bytes(flags), &op.req.raw_fds(res));
    let h = sys.s.server.h.clone();
    let r = catch_unwind(AssertUnwindSafe(|| h.borrow_mut().handle_request()));
    let hung = coop::take_hangs().contains(&sys.s.server.fd);
    let unread = pending_bytes(sys.s.server.fd);
    let got = sys.s.recv();
    let log = sys.s.server.rec.lock().unwrap().log.clone();
    let fail = op.fail && handler_can_fail(code);

    // ---- reference model ----
    let implemented = server_implements(code);
    let gate_ok = server_gate(code).map(|g| sys.m.acked_proto & g != 0).unwrap_or(true) && (code != SET_VRING_ENABLE || sys.m.acked_virtio & VIRTIO_F_PROTOCOL_FEATURES != 0);
    let reaches_handler = implemented && gate_ok;
    // state update (the request itself counts as received)
    if reaches_handler {
        match code {
            GET_FEATURES if !fail => sys.m.offered_pf = op.dev_features & VIRTIO_F_PROTOCOL_FEATURES != 0,
            SET_FEATURES => sys.m.acked_virtio = rd64(&op.req.payload, 0),
            SET_PROTOCOL_FEATURES => sys.m.acked_proto = rd64(&op.req.payload, 0),
            _ => {}
        }
    }
    let is_reply_kind = reply_kind(code) == ReplyKind::Reply || code == SET_LOG_BASE;
    // what must be on the wire: Some(kind) / None; `either` = both "nothing" and "one non-zero ack" accepted
    #[derive(PartialEq, Debug)]
    enum Want {
        Nothing,
        Reply,
        Ack(bool), // true = zero (success)
        NothingOrNonzeroAck,
    }
    let want = if !reaches_handler {
        if op.need_reply && sys.m.reply_ack() && !is_reply_kind {
            Want::NothingOrNonzeroAck
        } else {
            Want::Nothing
        }
    } else if is_reply_kind {
        if !fail || inband_failure(code) {
            Want::Reply
        } else {
            Want::Nothing
        }
    } else if op.need_reply && sys.m.reply_ack() {
        Want::Ack(!fail)
    } else {
        Want::Nothing
    };

    // ---- observation ----
    let parsed = parse_stream(&got.bytes);
    let obs = match &parsed {
        Ok(v) if v.is_empty() => "nothing".to_string(),
        Ok(v) if v.len() == 1 => {
            let d = &v[0];
            if is_reply_kind {
                format!("reply(code={},flags={:#x},size={})", d.code, d.flags, d.size)
            } else {
                format!("ack(code={},flags={:#x},size={},zero={})", d.code, d.flags, d.size, d.size == 8 && rd64(&d.payload, 0) == 0)
            }
        }
        Ok(v) => format!("{}-messages", v.len()),
        Err(p) => format!("garbled-at-{p}"),
    };
    let outcome = format!("{}:{}:{}", if reaches_handler { "handled" } else { "rejected" }, obs.split('(').next().unwrap_or(""), match &r { Ok(Ok(())) => "Ok", Ok(Err(_)) => "Err", Err(_) => "PANIC" });
    if !check {
        return format!("{outcome}|{obs}|{}", log.len());
    }
    rep.transitions += 1;
    rep.evaluations += 1;
    let case = || json!({"check":"C04","history": hist.iter().map(|i| ops[*i].label()).collect::<Vec<_>>(), "op": op.label(), "model": format!("{:?}", sys.m)});
    let name = frontend_req_name(code);
    if r.is_err() {
        rep.violation(&format!("C04:{name}:panic"), "handle_request panicked", case());
    }
    if hung {
        rep.violation(&format!("C04:{name}:reads-beyond-declared-size"), "the server tried to read more than header + declared size", case());
    }
    if unread != 0 {
        rep.violation(&format!("C04:{name}:leaves-bytes-unread"), &format!("{unread} byte(s) of the request were not consumed"), case());
    }
    // handler invocation count
    let want_calls = if reaches_handler { 1 } else { 0 };
    if log.len() != want_calls {
        rep.violation(&format!("C04:{name}:handler-calls"), &format!("handler invoked {} time(s), expected {want_calls} (ops {:?})", log.len(), log.iter().map(|c| c.op).collect::<Vec<_>>()), case());
    }
    let one = match &parsed {
        Ok(v) if v.len() == 1 => Some(v[0].clone()),
        _ => None,
    };
    let hdr_ok = |d: &Decoded| d.code == code && d.flags == (F_REPLY | F_VERSION) && d.size as usize == d.payload.len();
    let is_ack = |d: &Decoded, zero: Option<bool>| hdr_ok(d) && d.size == 8 && zero.map(|z| (rd64(&d.payload, 0) == 0) == z).unwrap_or(true);
    let ok = match &want {
        Want::Nothing => matches!(&parsed, Ok(v) if v.is_empty()) && got.nfds() == 0,
        Want::Reply => one.as_ref().map(hdr_ok).unwrap_or(false),
        Want::Ack(z) => one.as_ref().map(|d| is_ack(d, Some(*z))).unwrap_or(false) && got.nfds() == 0,
        Want::NothingOrNonzeroAck => matches!(&parsed, Ok(v) if v.is_empty()) || one.as_ref().map(|d| is_ack(d, Some(false))).unwrap_or(false),
    };
    if ok {
        if want != Want::Nothing {
            rep.nontrivial += 1;
            sys.replies_seen += 1;
        }
    } else {
        let kind = match want {
            Want::Nothing => "spurious-output",
            Want::Reply => "reply",
            Want::Ack(_) => "ack",
            Want::NothingOrNonzeroAck => "rejected-request-output",
        };
        rep.violation(&format!("C04:{name}:{kind}"), &format!("after {:?}: wrote {obs} ({} fds), protocol prescribes {:?} [model {:?}]", op.label(), got.nfds(), want, sys.m), case());
    }
    format!("{outcome}|{obs}|{}", log.len())
}

pub fn key(sys: &Sys) -> String {
    // gating bits + REPLY_ACK are what the server's behaviour can depend on
    format!("{}|{}|{:#x}", sys.m.offered_pf, sys.m.acked_virtio & VIRTIO_F_PROTOCOL_FEATURES != 0, sys.m.acked_proto)
}

pub fn run(rep: &mut Report) {
    coop::enable();
    let res = Resources::new();
    let ops = alphabet();
    let thorough = rep.is_thorough();
    let fresh = || {
        let mut rec = Recorder::new();
        rec.ret_file = Some(res.ret.try_clone().unwrap());
        rec.script.proto = PF_ALL_DEFINED;
        Sys { s: RawSession::new(rec), m: Model::default(), replies_seen: 0 }
    };
    let rep_cell = RefCell::new(());
    let _ = &rep_cell;
    let stepf = |s: &mut Sys, oi: usize, hist: &[usize], check: bool, rep: &mut Report| step(s, &ops[oi], hist, check, rep, &res, &ops);
    let st = bfs(ops.len(), &fresh, &stepf, &key, if thorough { 8 } else { 4 }, if thorough { 240.0 } else { 40.0 }, true, rep);
    rep.states = st.states;
    rep.traces = st.transitions;
    rep.extra.insert("alphabet".into(), json!(ops.len()));
    rep.extra.insert("depth_completed".into(), json!(st.depth_completed));
    rep.extra.insert("closure_reached".into(), json!(st.closed));
    rep.extra.insert("max_frontier".into(), json!(st.max_frontier));
    rep.exhaustive = st.closed && !st.capped;
    // differential guard against a too-coarse key: no deduplication, smaller depth
    let depth_nd = if thorough { 3 } else { 2 };
    let before = rep.transitions;
    let st2 = bfs(ops.len(), &fresh, &stepf, &key, depth_nd, if thorough { 200.0 } else { 15.0 }, false, rep);
    rep.extra.insert("no_dedup_depth".into(), json!(st2.depth_completed));
    rep.extra.insert("no_dedup_transitions".into(), json!(rep.transitions - before));
    coop::disable();
    rep.sample(json!({"history": ["GET_FEATURES", "SET_PROTOCOL_FEATURES[reply_ack]", "SET_VRING_NUM+NR+FAIL"], "prescribed": "one ack, non-zero"}));
    rep.sample(json!({"history": ["SET_PROTOCOL_FEATURES[all]", "SET_OWNER+NR"], "prescribed": "nothing (PROTOCOL_FEATURES was never offered)"}));
    rep.sample(json!({"alphabet_examples": ops.iter().step_by(37).map(|o| o.label()).collect::<Vec<_>>()}));
    rep.rule = "BFS over request histories: alphabet = a well-formed instance of every request code 1..=44 (plus feature-setting variants) x NEED_REPLY x scripted handler success/failure; state key = (PROTOCOL_FEATURES offered by the last GET_FEATURES, PROTOCOL_FEATURES acked, acknowledged protocol feature word); every operation tried in every reachable state until no new state appears (closure) or the depth bound; then re-run without deduplication to a smaller depth. Non-trivial = transitions on which the protocol prescribes a reply or an ack".into();
    rep.assumptions.push("weak readings (DESIGN 4/C04): 'offered' = last GET_FEATURES answer contained bit 30; for a request rejected before the handler both 'nothing' and 'one non-zero ack' are accepted".into());
}

pub fn replay(case: &Value, rep: &mut Report) {
    coop::enable();
    let res = Resources::new();
    let ops = alphabet();
    let find = |l: &str| ops.iter().position(|o| o.label() == l);
    let mut rec = Recorder::new();
    rec.ret_file = Some(res.ret.try_clone().unwrap());
    rec.script.proto = PF_ALL_DEFINED;
    let mut sys = Sys { s: RawSession::new(rec), m: Model::default(), replies_seen: 0 };
    let mut hist = Vec::new();
    for l in case["history"].as_array().cloned().unwrap_or_default() {
        if let Some(i) = l.as_str().and_then(find) {
            let o = step(&mut sys, &ops[i], &hist, false, rep, &res, &ops);
            println!("  {} -> {o}", ops[i].label());
            hist.push(i);
        }
    }
    if let Some(i) = case["op"].as_str().and_then(find) {
        let o = step(&mut sys, &ops[i], &hist, true, rep, &res, &ops);
        println!("  {} -> {o}", ops[i].label());
    }
    coop::disable();
}
