//! C09: every descriptor received is handed over exactly once or closed; none leak.
//! Engine E3 (fault enumeration): message histories with 0..=40 descriptors at header/body,
//! valid/invalid/truncated, crossed with teardown after every message; kernel observers
//! (/proc/self/fd + fstat identity) as oracle. Serial inside the process by construction.

use crate::feops::*;
use crate::feraw::*;
use crate::pair::{negotiate, Pair};
use crate::pxops::*;
use crate::rawpeer::{ident, is_open, memfd};
use crate::recorder::{FrRecorder, Recorder, Script};
use crate::report::Report;
use crate::spec::*;
use crate::sysshim::coop;
use crate::wirereq::*;
use serde_json::{json, Value};
use std::collections::{BTreeMap, BTreeSet};
use std::os::unix::io::{AsRawFd, FromRawFd, OwnedFd, RawFd};
use std::os::unix::net::UnixStream;
use std::panic::{catch_unwind, AssertUnwindSafe};
use std::sync::{Arc, Mutex};
use vhost::vhost_user::message::VhostUserHeaderFlag;
use vhost::vhost_user::FrontendReqHandler;

fn open_fds() -> BTreeSet<RawFd> {
    let mut v = BTreeSet::new();
    if let Ok(rd) = std::fs::read_dir("/proc/self/fd") {
        for e in rd.flatten() {
            if let Ok(n) = e.file_name().to_string_lossy().parse::<RawFd>() {
                v.insert(n);
            }
        }
    }
    v.retain(|n| is_open(*n));
    v
}

/// identity -> number of open descriptors referring to it
fn census(ids: &BTreeSet<(u64, u64)>) -> BTreeMap<(u64, u64), usize> {
    let mut m = BTreeMap::new();
    for fd in open_fds() {
        let id = ident(fd);
        if ids.contains(&id) {
            *m.entry(id).or_insert(0) += 1;
        }
    }
    m
}

struct Pool {
    fds: Vec<OwnedFd>,
    ids: BTreeSet<(u64, u64)>,
}

impl Pool {
    fn new(n: usize) -> Self {
        let fds: Vec<OwnedFd> = (0..n).map(|i| memfd(&format!("c09-{i}"), 0x2000)).collect();
        let ids = fds.iter().map(|f| ident(f.as_raw_fd())).collect();
        Pool { fds, ids }
    }
    fn raw(&self, n: usize) -> Vec<RawFd> {
        self.fds.iter().take(n).map(|f| f.as_raw_fd()).collect()
    }
}

#[derive(Clone, Debug)]
enum Shape {
    Valid,
    SizePlus1,
    BodyTruncated,
    ReplyFlag,
    BadBody,
    UnknownCode,
}

fn shape_bytes(req: &WireReq, sh: &Shape) -> (Vec<u8>, Vec<u8>) {
    let mut code = req.code;
    let mut flags = F_VERSION | F_NEED_REPLY;
    let mut size = req.payload.len() as u32;
    let mut body = req.payload.clone();
    match sh {
        Shape::Valid => {}
        Shape::SizePlus1 => size += 1,
        Shape::BodyTruncated => {
            body.truncate(body.len() / 2);
        }
        Shape::ReplyFlag => flags |= F_REPLY,
        Shape::BadBody => {
            for b in body.iter_mut().take(40) {
                *b = 0xff;
            }
        }
        Shape::UnknownCode => code = 200,
    }
    (header(code, flags, size).to_vec(), body)
}

/// One server-side scenario: a (possibly malformed) message with `nfds` distinct descriptors at
/// header or body, optional second message, teardown at `teardown` (0 = before serving,
/// 1 = after the first message, 2 = after the second).
#[allow(clippy::too_many_arguments)]
fn server_scenario(rep: &mut Report, pool: &Pool, res: &Resources, req: &WireReq, sh: &Shape, nfds: usize, on_body: bool, negotiated: bool, second: bool, teardown: u8, keep: bool) {
    let before = open_fds();
    crate::crash::set_case(&format!("{{\"property\":\"C09\",\"signature\":\"C09:process-killed-by-signal\",\"what\":\"the process died (e.g. std's I/O-safety abort on a double close) in this scenario\",\"case\":{{\"check\":\"C09\",\"part\":\"server\",\"req\":\"{}\",\"shape\":\"{:?}\",\"nfds\":{},\"teardown\":{}}}}}", req.name(), sh, nfds, teardown));
    let case = json!({"check":"C09","part":"server","req":req.name(),"shape":format!("{sh:?}"),"nfds":nfds,"on_body":on_body,"negotiated":negotiated,"second":second,"teardown":teardown,"handler_keeps_files":keep});
    let held: Vec<(u64, u64)>;
    let delivered: Vec<(u64, u64)>;
    let panicked;
    {
        let mut rec = Recorder::new();
        rec.script.features = VIRTIO_F_PROTOCOL_FEATURES | VIRTIO_F_LOG_ALL | 3;
        rec.script.proto = PF_ALL_DEFINED;
        rec.keep_files = keep;
        // files the application hands to the library BY VALUE for a reply (inflight area, shared
        // object, device-state channel): the library must close its copy after sending
        rec.ret_file = Some(res.ret.try_clone().unwrap());
        rec.script.state_returns_file = nfds % 2 == 1;
        let s = RawSession::new(rec);
        if negotiated {
            s.negotiate(VIRTIO_F_PROTOCOL_FEATURES | VIRTIO_F_LOG_ALL | 3, PF_ALL_DEFINED);
        }
        let (hdr, body) = shape_bytes(req, sh);
        let fds = pool.raw(nfds);
        if on_body && !body.is_empty() {
            s.queue_segments(&hdr, &[], &[]);
            s.queue_segments(&body, &fds, &[]);
        } else {
            let mut all = hdr.clone();
            all.extend_from_slice(&body);
            s.queue_segments(&all, &fds, &[]);
        }
        if second {
            // a well-formed SET_VRING_CALL carrying one more descriptor
            let extra = pool.fds[40].as_raw_fd();
            s.queue_segments(&message(SET_VRING_CALL, F_VERSION, &p_u64(0)), &[extra], &[]);
        }
        s.eof_when_empty.set(true);
        let mut pk = false;
        if teardown >= 1 {
            let h = s.server.h.clone();
            pk |= catch_unwind(AssertUnwindSafe(|| h.borrow_mut().handle_request())).is_err();
        }
        if teardown >= 2 {
            let h = s.server.h.clone();
            pk |= catch_unwind(AssertUnwindSafe(|| h.borrow_mut().handle_request())).is_err();
        }
        panicked = pk;
        let _ = coop::take_hangs();
        let r = s.server.rec.lock().unwrap();
        delivered = r.log.iter().flat_map(|c| c.files.clone()).collect();
        held = r.held.iter().map(|f| ident(f.as_raw_fd())).collect();
        drop(r);
        // endpoints (and everything still queued in the socket) are dropped here
        if keep {
            // the application still holds its files: take them out before the endpoint goes away
            let files: Vec<std::fs::File> = std::mem::take(&mut s.server.rec.lock().unwrap().held);
            drop(s);
            let after_census = census(&pool.ids);
            judge(rep, pool, &before, &held, &delivered, &after_census, files.len(), panicked, case);
            drop(files);
            return;
        }
    }
    let after_census = census(&pool.ids);
    judge(rep, pool, &before, &held, &delivered, &after_census, 0, panicked, case);
}

#[allow(clippy::too_many_arguments)]
fn judge(rep: &mut Report, pool: &Pool, before: &BTreeSet<RawFd>, held: &[(u64, u64)], delivered: &[(u64, u64)], cen: &BTreeMap<(u64, u64), usize>, extra_open: usize, panicked: bool, case: Value) {
    rep.evaluations += 1;
    rep.transitions += 1;
    let mut ok = true;
    if panicked {
        rep.violation("C09:panic", "endpoint panicked", case.clone());
        ok = false;
    }
    // each identity delivered at most once
    let mut seen = BTreeSet::new();
    for d in delivered {
        if pool.ids.contains(d) && !seen.insert(*d) {
            rep.violation("C09:delivered-twice", &format!("descriptor for file {:?} delivered to the handler more than once", d), case.clone());
            ok = false;
        }
    }
    // every passed file: exactly the harness's original + copies the application still holds
    for id in &pool.ids {
        let want = 1 + held.iter().filter(|h| *h == id).count();
        let got = *cen.get(id).unwrap_or(&0);
        if got > want {
            rep.outcome("leak");
            rep.violation("C09:leak", &format!("{} descriptor(s) for a passed file are still open after teardown, expected {want} (original + held by the application)", got), case.clone());
            ok = false;
            break;
        }
        if got < want {
            rep.outcome("closed-too-much");
            rep.violation("C09:closed-lent-or-held-descriptor", &format!("a passed file has {got} open descriptor(s) after teardown, expected {want}: the library closed a descriptor it did not own"), case.clone());
            ok = false;
            break;
        }
    }
    // the set of descriptor numbers is what it was before plus what the application holds
    let after = open_fds();
    let new: Vec<&RawFd> = after.difference(before).collect();
    let gone: Vec<&RawFd> = before.difference(&after).collect();
    if new.len() != extra_open || !gone.is_empty() {
        rep.outcome("fd-table-differs");
        rep.violation("C09:fd-table", &format!("descriptor table after teardown: {} new ({:?}), {} missing ({:?}); expected {extra_open} new (held by the application)", new.len(), new, gone.len(), gone), case);
        ok = false;
    }
    if ok {
        rep.outcome(if delivered.is_empty() { "all-closed" } else if extra_open > 0 { "delivered-and-held" } else { "delivered-then-closed" });
        rep.nontrivial += 1;
    }
}

fn frontend_scenarios(rep: &mut Report, pool: &Pool, res: &Resources) {
    let script = Script::default();
    // replies carrying unexpected / excess descriptors
    let mut ops = all_ops_basic();
    ops.push(FeOp::SetDeviceStateFd(1));
    for op in ops {
        for nfds in [0usize, 1, 2, 3, 32, 33] {
            let before = open_fds();
            let case = json!({"check":"C09","part":"frontend_reply","op":format!("{op:?}"),"nfds":nfds});
            let mut got_file = 0;
            {
                let mut f = FeRaw::new(2);
                f.negotiate(VIRTIO_F_PROTOCOL_FEATURES | 0x3, PF_ALL_DEFINED, PF_ALL_DEFINED).unwrap();
                f.fe.set_hdr_flags(VhostUserHeaderFlag::NEED_REPLY);
                let (rb, _) = correct_reply(&op, &script, res);
                f.raw.queue(&rb, &pool.raw(nfds), &[]);
                f.raw.eof_when_empty.set(true);
                let r = invoke(&mut f.fe, &op, res);
                let _ = coop::take_hangs();
                // a file returned by value is owned by the caller: drop it here, it must then be closed
                if let Ok(FeRet::File(_)) | Ok(FeRet::Inflight(..)) | Ok(FeRet::OptFile(Some(_))) = &r {
                    got_file = 1;
                }
                drop(r);
            }
            let cen = census(&pool.ids);
            let _ = got_file;
            judge(rep, pool, &before, &[], &[], &cen, 0, false, case);
        }
    }
    // descriptors lent to sending calls stay open and keep referring to the same file
    for reply_ack in [false, true] {
        let before = open_fds();
        let lent: Vec<(RawFd, (u64, u64))> = res.mem.iter().map(|f| (f.as_raw_fd(), ident(f.as_raw_fd()))).chain(res.ev.iter().map(|e| (e.as_raw_fd(), ident(e.as_raw_fd())))).chain([(res.sock.1.as_raw_fd(), ident(res.sock.1.as_raw_fd()))]).collect();
        {
            let mut rec = Recorder::new();
            rec.script.features = VIRTIO_F_PROTOCOL_FEATURES | 3;
            rec.script.proto = PF_ALL_DEFINED;
            rec.ret_file = Some(res.ret.try_clone().unwrap());
            let mut p = Pair::new(rec, 2);
            negotiate(&mut p, if reply_ack { PF_ALL_DEFINED } else { PF_ALL_DEFINED & !PF_REPLY_ACK }).unwrap();
            p.fe.set_hdr_flags(VhostUserHeaderFlag::NEED_REPLY);
            for op in all_ops_basic() {
                let _ = invoke(&mut p.fe, &op, res);
                p.server.drain();
                rep.transitions += 1;
                for (fd, id) in &lent {
                    if !is_open(*fd) || ident(*fd) != *id {
                        rep.violation(&format!("C09:lent-descriptor-closed:{}", op.name()), &format!("{:?}: a descriptor lent for transmission was closed or replaced by the library", op), json!({"check":"C09","part":"lent","op":format!("{op:?}")}));
                    }
                }
                if !p.server.alive.get() {
                    break;
                }
            }
        }
        let after = open_fds();
        rep.evaluations += 1;
        if after != before {
            rep.violation("C09:fd-table:success-history", &format!("after a full successful session and teardown: new {:?}, missing {:?}", after.difference(&before).collect::<Vec<_>>(), before.difference(&after).collect::<Vec<_>>()), json!({"check":"C09","part":"success_history","reply_ack":reply_ack}));
        } else {
            rep.outcome("session-clean");
            rep.nontrivial += 1;
        }
    }
}

fn request_server_scenarios(rep: &mut Report, pool: &Pool, res: &Resources) {
    for op in bp_ops_basic() {
        for nfds in [0usize, 1, 2, 3, 32, 33, 40] {
            for reply_ack in [false, true] {
                let before = open_fds();
                let case = json!({"check":"C09","part":"frontend_req_server","op":format!("{op:?}"),"nfds":nfds,"reply_ack":reply_ack});
                let pk;
                {
                    let rec = Arc::new(Mutex::new(FrRecorder::default()));
                    let mut h = FrontendReqHandler::new(rec.clone()).unwrap();
                    h.set_reply_ack_flag(reply_ack);
                    // SAFETY: dup of tx; we own the copy.
                    let tx = unsafe { libc::fcntl(h.get_tx_raw_fd(), libc::F_DUPFD_CLOEXEC, 3) };
                    let peer = unsafe { UnixStream::from_raw_fd(tx) };
                    let raw = RawScript::attach(h.as_raw_fd(), peer);
                    let (rb, _) = op.request(F_VERSION | F_NEED_REPLY, res);
                    raw.queue(&rb, &pool.raw(nfds), &[]);
                    raw.eof_when_empty.set(true);
                    pk = catch_unwind(AssertUnwindSafe(|| h.handle_request())).is_err();
                    let _ = coop::take_hangs();
                }
                let cen = census(&pool.ids);
                judge(rep, pool, &before, &[], &[], &cen, 0, pk, case);
            }
        }
    }
}

pub fn run(rep: &mut Report) {
    let thorough = rep.is_thorough();
    crate::crash::install("C09");
    coop::enable();
    let res = Resources::new();
    let pool = Pool::new(41);
    let reqs = wellformed();
    let shapes = [Shape::Valid, Shape::SizePlus1, Shape::BodyTruncated, Shape::ReplyFlag, Shape::BadBody, Shape::UnknownCode];
    let counts: Vec<usize> = if thorough { vec![0, 1, 2, 3, 31, 32, 33, 40] } else { vec![0, 1, 2, 32, 33, 40] };
    for req in &reqs {
        for sh in &shapes {
            for &n in &counts {
                for on_body in [false, true] {
                    if on_body && (n == 0 || req.payload.is_empty()) {
                        continue;
                    }
                    for negotiated in [false, true] {
                        if !thorough && !negotiated && !matches!(sh, Shape::Valid | Shape::SizePlus1) {
                            continue;
                        }
                        for (second, teardown) in [(false, 0u8), (false, 1), (true, 1), (true, 2)] {
                            if !thorough && (second && !matches!(sh, Shape::Valid | Shape::BodyTruncated)) {
                                continue;
                            }
                            for keep in [false, true] {
                                if keep && (!matches!(sh, Shape::Valid) || teardown == 0) {
                                    continue;
                                }
                                server_scenario(rep, &pool, &res, req, sh, n, on_body, negotiated, second, teardown, keep);
                            }
                        }
                    }
                }
            }
        }
    }
    frontend_scenarios(rep, &pool, &res);
    request_server_scenarios(rep, &pool, &res);
    coop::disable();
    daemon_part::run(rep, thorough);
    rep.states = rep.outcomes.len() as u64;
    rep.traces = rep.evaluations;
    rep.exhaustive = rep.caps.is_empty();
    rep.sample(json!({"part":"server","req":"SET_MEM_TABLE[2]","shape":"SizePlus1","nfds":33,"teardown":1,"expect":"all 33 descriptors closed, fd table unchanged"}));
    rep.sample(json!({"part":"server","req":"SET_VRING_KICK[fd]","shape":"Valid","nfds":1,"handler_keeps_files":true,"expect":"exactly one extra descriptor: the one the application holds"}));
    rep.sample(json!({"part":"frontend_reply","op":"GetFeatures","nfds":3,"expect":"reply rejected, 3 descriptors closed"}));
    rep.rule = "backend server: every request type x {valid, size+1, truncated body, REPLY flag, invalid body, unknown code} x descriptor count in {0,1,2,(3,31,)32,33,40} attached to header or body x negotiation state x optional second descriptor-carrying message x teardown before / after the first / after the second message x handler keeps or drops its files; frontend: every operation's reply with 0..=33 unexpected descriptors, and a full successful session with lent descriptors; frontend request server: 5 kinds x 0..=40 descriptors; running daemon: all sequences of length <= 2 and the length-3 sequences starting with a descriptor hand-over (thorough: all of length 3 and those of length 4 starting with a hand-over) over 18 descriptor-passing / releasing operations. Every passed descriptor is a distinct file. Oracle: after dropping the endpoints, for every passed file #open descriptors = 1 (original) + copies the application holds, no identity delivered twice, and the process's descriptor numbers = before + held. Non-trivial = scenarios whose accounting was verified".into();
    rep.assumptions.push("serial execution inside the process (no concurrent open); identity via fstat (st_dev, st_ino)".into());
}

pub fn replay(case: &Value, rep: &mut Report) {
    println!("replay C09 by re-running the quick enumeration; case: {case}");
    run(rep);
}

// ------------------------------------------------------------------------------------------------
// daemon level: descriptors handed to a running VhostUserDaemon (kick / call / err descriptors,
// memory-table files, log file, backend-request socket, descriptors of rejected messages)

mod daemon_part {
    use crate::daemonh::*;
    use crate::rawpeer::{eventfd, ident, memfd};
    use crate::report::Report;
    use crate::spec::*;
    use serde_json::json;
    use std::os::unix::io::{AsRawFd, OwnedFd, RawFd};
    use vhost_user_backend::bitmap::BitmapMmapRegion;
    use vhost_user_backend::VringRwLock;

    type H = DaemonH<VringRwLock<GM<BitmapMmapRegion>>, BitmapMmapRegion>;
    const PROTO: u64 = PF_REPLY_ACK | PF_LOG_SHMFD | PF_CONFIGURE_MEM_SLOTS | PF_MQ | PF_RESET_DEVICE | PF_BACKEND_REQ;
    const VIRTIO: u64 = VIRTIO_F_PROTOCOL_FEATURES | VIRTIO_F_LOG_ALL | 0x3;
    const USER: u64 = 0x7f00_0000_0000;

    /// Identity of an open file: (dev, ino) for files and sockets, the kernel's eventfd id for
    /// eventfds (which all share one anonymous inode).
    #[derive(Clone, Debug, PartialEq, Eq, PartialOrd, Ord)]
    pub enum Id {
        Inode(u64, u64),
        EventFd(u64),
    }

    pub fn id_of(fd: RawFd) -> Option<Id> {
        let link = std::fs::read_link(format!("/proc/self/fd/{fd}")).ok()?.to_string_lossy().to_string();
        if link.contains("[eventfd]") {
            let info = std::fs::read_to_string(format!("/proc/self/fdinfo/{fd}")).ok()?;
            let n = info.lines().find_map(|l| l.strip_prefix("eventfd-id:").map(|v| v.trim().parse::<u64>().ok()))??;
            return Some(Id::EventFd(n));
        }
        let (d, i) = ident(fd);
        Some(Id::Inode(d, i))
    }

    /// How many descriptors of this process refer to each identity.
    fn census() -> std::collections::BTreeMap<Id, usize> {
        let mut out = std::collections::BTreeMap::new();
        let mut nums: Vec<RawFd> = Vec::new();
        if let Ok(rd) = std::fs::read_dir("/proc/self/fd") {
            for e in rd.flatten() {
                if let Ok(n) = e.file_name().to_string_lossy().parse::<RawFd>() {
                    nums.push(n);
                }
            }
        }
        for n in nums {
            if let Some(id) = id_of(n) {
                *out.entry(id).or_insert(0) += 1;
            }
        }
        out
    }

    #[derive(Clone, Copy, Debug, PartialEq)]
    pub enum Op {
        TableNew,
        TableFail,
        AddReg,
        RemReg,
        Kick0,
        Kick0None,
        Call0,
        Call0None,
        Err0,
        Kick1,
        GetBase0,
        LogBase,
        BackendReqFd,
        InflightFd,
        BadFdOnNum,
        BadTwoFds,
        ResetDevice,
        Reconnect,
    }

    pub const OPS: [Op; 18] = [
        Op::TableNew, Op::TableFail, Op::AddReg, Op::RemReg, Op::Kick0, Op::Kick0None, Op::Call0, Op::Call0None, Op::Err0, Op::Kick1, Op::GetBase0, Op::LogBase,
        Op::BackendReqFd, Op::InflightFd, Op::BadFdOnNum, Op::BadTwoFds, Op::ResetDevice, Op::Reconnect,
    ];

    struct Obj {
        fd: OwnedFd,
        id: Id,
        passed_by: Op,
        /// the daemon may currently hold a copy
        may_hold: bool,
    }

    #[derive(Default)]
    struct Model {
        table: Vec<usize>,
        added: Option<usize>,
        kick: [Option<usize>; 2],
        call0: Option<usize>,
        err0: Option<usize>,
        log: Option<usize>,
        breq: Option<usize>,
    }

    fn new_obj(objs: &mut Vec<Obj>, kind: u8, by: Op) -> usize {
        let (fd, other): (OwnedFd, Option<OwnedFd>) = match kind {
            0 => (memfd("c09d", 0x8000), None),
            1 => (eventfd(0, true), None),
            _ => {
                let (a, b) = std::os::unix::net::UnixStream::pair().unwrap();
                (a.into(), Some(b.into()))
            }
        };
        // the other end of a socket pair is simply dropped: only the passed end is accounted for
        drop(other);
        let id = id_of(fd.as_raw_fd()).expect("identity of a fresh descriptor");
        objs.push(Obj { fd, id, passed_by: by, may_hold: false });
        objs.len() - 1
    }

    fn step(h: &mut H, op: Op, objs: &mut Vec<Obj>, m: &mut Model) -> Result<(), String> {
        let region = |gpa: u64, off: u64| Region { gpa, size: 0x4000, user: USER + gpa, offset: off };
        let mut renegotiate = false;
        let out = match op {
            Op::TableNew => {
                let o = new_obj(objs, 0, op);
                let r = h.req(SET_MEM_TABLE, &p_mem_table(&[region(0, 0)]), &[objs[o].fd.as_raw_fd()]);
                if matches!(&r, ReqOut::Msg(d, _) if rd64(&d.payload, 0) == 0) {
                    m.table = vec![o];
                    m.added = None;
                }
                r
            }
            Op::TableFail => {
                // a region whose descriptor cannot be mapped (eventfd) next to a good one
                let a = new_obj(objs, 0, op);
                let b = new_obj(objs, 1, op);
                h.req(SET_MEM_TABLE, &p_mem_table(&[region(0, 0), region(0x10_0000, 0)]), &[objs[a].fd.as_raw_fd(), objs[b].fd.as_raw_fd()])
            }
            Op::AddReg => {
                let o = new_obj(objs, 0, op);
                let r = h.req(ADD_MEM_REG, &p_single_region(&region(0x20_0000, 0x4000)), &[objs[o].fd.as_raw_fd()]);
                if matches!(&r, ReqOut::Msg(d, _) if rd64(&d.payload, 0) == 0) {
                    m.added = Some(o);
                }
                r
            }
            Op::RemReg => {
                let r = h.req(REM_MEM_REG, &p_single_region(&region(0x20_0000, 0x4000)), &[]);
                if matches!(&r, ReqOut::Msg(d, _) if rd64(&d.payload, 0) == 0) {
                    m.added = None;
                }
                r
            }
            Op::Kick0 | Op::Kick1 | Op::Call0 | Op::Err0 => {
                let o = new_obj(objs, 1, op);
                let (code, idx) = match op {
                    Op::Kick0 => (SET_VRING_KICK, 0u64),
                    Op::Kick1 => (SET_VRING_KICK, 1),
                    Op::Call0 => (SET_VRING_CALL, 0),
                    _ => (SET_VRING_ERR, 0),
                };
                let r = h.req(code, &p_u64(idx), &[objs[o].fd.as_raw_fd()]);
                if matches!(&r, ReqOut::Msg(d, _) if rd64(&d.payload, 0) == 0) {
                    match op {
                        Op::Kick0 => m.kick[0] = Some(o),
                        Op::Kick1 => m.kick[1] = Some(o),
                        Op::Call0 => m.call0 = Some(o),
                        _ => m.err0 = Some(o),
                    }
                }
                r
            }
            Op::Kick0None => {
                let r = h.req(SET_VRING_KICK, &p_u64(0x100), &[]);
                if matches!(&r, ReqOut::Msg(d, _) if rd64(&d.payload, 0) == 0) {
                    m.kick[0] = None;
                }
                r
            }
            Op::Call0None => {
                let r = h.req(SET_VRING_CALL, &p_u64(0x100), &[]);
                if matches!(&r, ReqOut::Msg(d, _) if rd64(&d.payload, 0) == 0) {
                    m.call0 = None;
                }
                r
            }
            Op::GetBase0 => {
                let r = h.req(GET_VRING_BASE, &p_vring_state(0, 0), &[]);
                if matches!(&r, ReqOut::Msg(..)) {
                    m.kick[0] = None;
                    m.call0 = None;
                }
                r
            }
            Op::LogBase => {
                let o = new_obj(objs, 0, op);
                let r = h.req(SET_LOG_BASE, &p_log(0x1000, 0), &[objs[o].fd.as_raw_fd()]);
                if matches!(&r, ReqOut::Msg(d, _) if d.code == SET_LOG_BASE) {
                    m.log = Some(o);
                }
                r
            }
            Op::BackendReqFd => {
                let o = new_obj(objs, 2, op);
                let r = h.req(SET_BACKEND_REQ_FD, &[], &[objs[o].fd.as_raw_fd()]);
                if matches!(&r, ReqOut::Msg(d, _) if rd64(&d.payload, 0) == 0) {
                    m.breq = Some(o);
                }
                r
            }
            Op::InflightFd => {
                let o = new_obj(objs, 0, op);
                h.req(SET_INFLIGHT_FD, &p_inflight(0x1000, 0, 2, 256), &[objs[o].fd.as_raw_fd()])
            }
            Op::BadFdOnNum => {
                let o = new_obj(objs, 0, op);
                h.req(SET_VRING_NUM, &p_vring_state(0, 64), &[objs[o].fd.as_raw_fd()])
            }
            Op::BadTwoFds => {
                let a = new_obj(objs, 1, op);
                let b = new_obj(objs, 1, op);
                h.req(SET_VRING_KICK, &p_u64(0), &[objs[a].fd.as_raw_fd(), objs[b].fd.as_raw_fd()])
            }
            Op::ResetDevice => h.req(RESET_DEVICE, &[], &[]),
            Op::Reconnect => {
                renegotiate = true;
                ReqOut::Closed
            }
        };
        match out {
            ReqOut::Dead(e) => return Err(e),
            ReqOut::Closed => renegotiate = true,
            ReqOut::Msg(d, _) => {
                if reply_kind(d.code) == ReplyKind::AckOnly && d.code != SET_LOG_BASE && d.size == 8 && rd64(&d.payload, 0) != 0 {
                    renegotiate = true; // a failing request ends the session
                }
            }
        }
        if renegotiate {
            let _ = h.reconnect();
            h.negotiate(VIRTIO, PROTO).map_err(|e| format!("renegotiation failed: {e}"))?;
        }
        // which objects may the daemon (or the application behind it) hold now?
        for o in objs.iter_mut() {
            o.may_hold = false;
        }
        let mut hold = |i: Option<usize>| {
            if let Some(i) = i {
                objs[i].may_hold = true;
            }
        };
        for t in m.table.clone() {
            hold(Some(t));
        }
        hold(m.added);
        hold(m.kick[0]);
        hold(m.kick[1]);
        hold(m.call0);
        hold(m.err0);
        hold(m.log);
        hold(m.breq);
        Ok(())
    }

    pub fn run(rep: &mut Report, thorough: bool) {
        install_panic_watch();
        let n = OPS.len();
        let mut seqs: Vec<Vec<usize>> = Vec::new();
        for a in 0..n {
            seqs.push(vec![a]);
            for b in 0..n {
                seqs.push(vec![a, b]);
                for c in 0..n {
                    // length 3: all at thorough; at quick those that start by handing a descriptor over
                    if thorough || !matches!(OPS[a], Op::RemReg | Op::Kick0None | Op::Call0None | Op::GetBase0 | Op::ResetDevice | Op::Reconnect) {
                        seqs.push(vec![a, b, c]);
                    }
                }
            }
        }
        if thorough {
            // length 4, starting with a descriptor hand-over
            for a in 0..n {
                if matches!(OPS[a], Op::RemReg | Op::Kick0None | Op::Call0None | Op::GetBase0 | Op::ResetDevice | Op::Reconnect) {
                    continue;
                }
                for b in 0..n {
                    for c in 0..n {
                        for d in 0..n {
                            seqs.push(vec![a, b, c, d]);
                        }
                    }
                }
            }
        }
        let start = std::time::Instant::now();
        let budget = if thorough { 1800.0 } else { 240.0 };
        let mut done = 0u64;
        for seq in &seqs {
            if start.elapsed().as_secs_f64() > budget {
                rep.caps.push(format!("daemon part: wall budget {budget}s hit after {done} of {} sequences", seqs.len()));
                break;
            }
            let labels: Vec<String> = seq.iter().map(|i| format!("{:?}", OPS[*i])).collect();
            crate::crash::set_case(&format!("{{\"property\":\"C09\",\"signature\":\"C09:process-killed-by-signal\",\"case\":{{\"check\":\"C09\",\"part\":\"daemon\",\"sequence\":{:?}}}}}", labels));
            let case = json!({"check":"C09","part":"daemon","sequence":labels});
            let cfg = Cfg { features: VIRTIO | (1 << 29), ..Default::default() };
            let mut h = H::new(cfg);
            if let Err(e) = h.negotiate(VIRTIO, PROTO) {
                rep.violation("C09:daemon:negotiation", &e, case);
                continue;
            }
            let mut objs: Vec<Obj> = Vec::new();
            let mut m = Model::default();
            let mut broken: Option<String> = None;
            for (k, i) in seq.iter().enumerate() {
                if let Err(e) = step(&mut h, OPS[*i], &mut objs, &mut m) {
                    broken = Some(e);
                    break;
                }
                rep.transitions += 1;
                // during the session: nothing the library no longer needs may stay open, and nothing
                // the harness owns may have been closed
                let c = census();
                for o in &objs {
                    let open = c.get(&o.id).cloned().unwrap_or(0);
                    let max = 1 + o.may_hold as usize;
                    if open == 0 {
                        rep.violation("C09:daemon:closed-a-descriptor-it-does-not-own", &format!("after step {k} of {:?}: the harness's own descriptor of the file passed by {:?} is closed", labels, o.passed_by), case.clone());
                    } else if open > max {
                        rep.outcome("daemon:descriptor-accumulates");
                        rep.violation(&format!("C09:daemon:descriptor-kept:{:?}", o.passed_by), &format!("after step {k} of {:?}: {open} open descriptors refer to the file passed by {:?}, at most {max} expected (the original{})", labels, o.passed_by, if o.may_hold { " + the copy in use" } else { "; it was replaced, released or rejected" }), case.clone());
                    }
                }
            }
            let panics = take_panics();
            if let Some(p) = panics.first() {
                rep.violation("C09:daemon:panic", &format!("{:?}: {p}", labels), case.clone());
            }
            // teardown: every passed descriptor is closed by the library, only the originals remain
            drop(h);
            let c = census();
            rep.evaluations += 1;
            done += 1;
            let mut leaked = false;
            for o in &objs {
                let open = c.get(&o.id).cloned().unwrap_or(0);
                if open != 1 {
                    leaked = true;
                    rep.violation(&format!("C09:daemon:leak-after-teardown:{:?}", o.passed_by), &format!("{:?}: after dropping the daemon {open} open descriptor(s) refer to the file passed by {:?} (expected 1: the harness's original)", labels, o.passed_by), case.clone());
                }
            }
            if broken.is_some() {
                rep.outcome("daemon:session-broken");
            } else if leaked {
                rep.outcome("daemon:leak");
            } else {
                rep.outcome(if objs.is_empty() { "daemon:no-descriptor-passed" } else { "daemon:accounted" });
                if !objs.is_empty() {
                    rep.nontrivial += 1;
                }
            }
        }
        rep.extra.insert("daemon_sequences".into(), json!(done));
    }
}
