//! C09: every descriptor received is handed over exactly once or closed; none leak.
//! Engine E3 (fault enumeration): message histories with 0..=40 descriptors at header/body,
//! valid/invalid/truncated, crossed with teardown after every message; kernel observers
//! (/proc/self/fd + fstat identity) as oracle. Serial inside the process by construction.

use crate::feops::*;
use crate::feraw::*;
use crate::pair::{negotiate, Pair};
use crate::pxops::*;
use crate::rawpeer::{ident, is_open, memfd};
use crate::recorder::{FrRecorder, Recorder, Script};
use crate::report::Report;
use crate::spec::*;
use crate::sysshim::coop;
use crate::wirereq::*;
use serde_json::{json, Value};
use std::collections::{BTreeMap, BTreeSet};
use std::os::unix::io::{AsRawFd, FromRawFd, OwnedFd, RawFd};
use std::os::unix::net::UnixStream;
use std::panic::{catch_unwind, AssertUnwindSafe};
use std::sync::{Arc, Mutex};
use vhost::vhost_user::message::VhostUserHeaderFlag;
use vhost::vhost_user::FrontendReqHandler;

fn open_fds() -> BTreeSet<RawFd> {
    let mut v = BTreeSet::new();
    if let Ok(rd) = std::fs::read_dir("/proc/self/fd") {
        for e in rd.flatten() {
            if let Ok(n) = e.file_name().to_string_lossy().parse::<RawFd>() {
                v.insert(n);
            }
        }
    }
    v.retain(|n| is_open(*n));
    v
}

/// identity -> number of open descriptors referring to it
fn census(ids: &BTreeSet<(u64, u64)>) -> BTreeMap<(u64, u64), usize> {
    let mut m = BTreeMap::new();
    for fd in open_fds() {
        let id = ident(fd);
        if ids.contains(&id) {
            *m.entry(id).or_insert(0) += 1;
        }
    }
    m
}

struct Pool {
    fds: Vec<OwnedFd>,
    ids: BTreeSet<(u64, u64)>,
}

impl Pool {
    fn new(n: usize) -> Self {
        let fds: Vec<OwnedFd> = (0..n).map(|i| memfd(&format!("c09-{i}"), 0x2000)).collect();
        let ids = fds.iter().map(|f| ident(f.as_raw_fd())).collect();
        Pool { fds, ids }
    }
    fn raw(&self, n: usize) -> Vec<RawFd> {
        self.fds.iter().take(n).map(|f| f.as_raw_fd()).collect()
    }
}

#[derive(Clone, Debug)]
enum Shape {
    Valid,
    SizePlus1,
    BodyTruncated,
    ReplyFlag,
    BadBody,
    UnknownCode,
}

fn shape_bytes(req: &WireReq, sh: &Shape) -> (Vec<u8>, Vec<u8>) {
    let mut code = req.code;
    let mut flags = F_VERSION | F_NEED_REPLY;
    let mut size = req.payload.len() as u32;
    let mut body = req.payload.clone();
    match sh {
        Shape::Valid => {}
        Shape::SizePlus1 => size += 1,
        Shape::BodyTruncated => {
            body.truncate(body.len() / 2);
        }
        Shape::ReplyFlag => flags |= F_REPLY,
        Shape::BadBody => {
            for b in body.iter_mut().take(40) {
                *b = 0xff;
            }
        }
        Shape::UnknownCode => code = 200,
    }
    (header(code, flags, size).to_vec(), body)
}

/// One server-side scenario: a (possibly malformed) message with `nfds` distinct descriptors at
/// header or body, optional second message, teardown at `teardown` (0 = before serving,
/// 1 = after the first message, 2 = after the second).
#[allow(clippy::too_many_arguments)]
fn server_scenario(rep: &mut Report, pool: &Pool, res: &Resources, req: &WireReq, sh: &Shape, nfds: usize, on_body: bool, negotiated: bool, second: bool, teardown: u8, keep: bool) {
    let before = open_fds();
    crate::crash::set_case(&format!("{{\"property\":\"C09\",\"signature\":\"C09:process-killed-by-signal\",\"what\":\"the process died (e.g. std's I/O-safety abort on a double close) in this scenario\",\"case\":{{\"check\":\"C09\",\"part\":\"server\",\"req\":\"{}\",\"shape\":\"{:?}\",\"nfds\":{},\"teardown\":{}}}}}", req.name(), sh, nfds, teardown));
    let case = json!({"check":"C09","part":"server","req":req.name(),"shape":format!("{sh:?}"),"nfds":nfds,"on_body":on_body,"negotiated":negotiated,"second":second,"teardown":teardown,"handler_keeps_files":keep});
    let held: Vec<(u64, u64)>;
    let delivered: Vec<(u64, u64)>;
    let panicked;
    {
        let mut rec = Recorder::new();
        rec.script.features = VIRTIO_F_PROTOCOL_FEATURES | 3;
        rec.script.proto = PF_ALL_DEFINED;
        rec.keep_files = keep;
        let s = RawSession::new(rec);
        if negotiated {
            s.negotiate(VIRTIO_F_PROTOCOL_FEATURES | 3, PF_ALL_DEFINED);
        }
        let (hdr, body) = shape_bytes(req, sh);
        let fds = pool.raw(nfds);
        if on_body && !body.is_empty() {
            s.queue_segments(&hdr, &[], &[]);
            s.queue_segments(&body, &fds, &[]);
        } else {
            let mut all = hdr.clone();
            all.extend_from_slice(&body);
            s.queue_segments(&all, &fds, &[]);
        }
        if second {
            // a well-formed SET_VRING_CALL carrying one more descriptor
            let extra = pool.fds[40].as_raw_fd();
            s.queue_segments(&message(SET_VRING_CALL, F_VERSION, &p_u64(0)), &[extra], &[]);
        }
        s.eof_when_empty.set(true);
        let mut pk = false;
        if teardown >= 1 {
            let h = s.server.h.clone();
            pk |= catch_unwind(AssertUnwindSafe(|| h.borrow_mut().handle_request())).is_err();
        }
        if teardown >= 2 {
            let h = s.server.h.clone();
            pk |= catch_unwind(AssertUnwindSafe(|| h.borrow_mut().handle_request())).is_err();
        }
        panicked = pk;
        let _ = coop::take_hangs();
        let r = s.server.rec.lock().unwrap();
        delivered = r.log.iter().flat_map(|c| c.files.clone()).collect();
        held = r.held.iter().map(|f| ident(f.as_raw_fd())).collect();
        drop(r);
        // endpoints (and everything still queued in the socket) are dropped here
        if keep {
            // the application still holds its files: take them out before the endpoint goes away
            let files: Vec<std::fs::File> = std::mem::take(&mut s.server.rec.lock().unwrap().held);
            drop(s);
            let after_census = census(&pool.ids);
            judge(rep, pool, &before, &held, &delivered, &after_census, files.len(), panicked, case);
            drop(files);
            return;
        }
    }
    let after_census = census(&pool.ids);
    judge(rep, pool, &before, &held, &delivered, &after_census, 0, panicked, case);
}

#[allow(clippy::too_many_arguments)]
fn judge(rep: &mut Report, pool: &Pool, before: &BTreeSet<RawFd>, held: &[(u64, u64)], delivered: &[(u64, u64)], cen: &BTreeMap<(u64, u64), usize>, extra_open: usize, panicked: bool, case: Value) {
    rep.evaluations += 1;
    rep.transitions += 1;
    let mut ok = true;
    if panicked {
        rep.violation("C09:panic", "endpoint panicked", case.clone());
        ok = false;
    }
    // each identity delivered at most once
    let mut seen = BTreeSet::new();
    for d in delivered {
        if pool.ids.contains(d) && !seen.insert(*d) {
            rep.violation("C09:delivered-twice", &format!("descriptor for file {:?} delivered to the handler more than once", d), case.clone());
            ok = false;
        }
    }
    // every passed file: exactly the harness's original + copies the application still holds
    for id in &pool.ids {
        let want = 1 + held.iter().filter(|h| *h == id).count();
        let got = *cen.get(id).unwrap_or(&0);
        if got > want {
            rep.outcome("leak");
            rep.violation("C09:leak", &format!("{} descriptor(s) for a passed file are still open after teardown, expected {want} (original + held by the application)", got), case.clone());
            ok = false;
            break;
        }
        if got < want {
            rep.outcome("closed-too-much");
            rep.violation("C09:closed-lent-or-held-descriptor", &format!("a passed file has {got} open descriptor(s) after teardown, expected {want}: the library closed a descriptor it did not own"), case.clone());
            ok = false;
            break;
        }
    }
    // the set of descriptor numbers is what it was before plus what the application holds
    let after = open_fds();
    let new: Vec<&RawFd> = after.difference(before).collect();
    let gone: Vec<&RawFd> = before.difference(&after).collect();
    if new.len() != extra_open || !gone.is_empty() {
        rep.outcome("fd-table-differs");
        rep.violation("C09:fd-table", &format!("descriptor table after teardown: {} new ({:?}), {} missing ({:?}); expected {extra_open} new (held by the application)", new.len(), new, gone.len(), gone), case);
        ok = false;
    }
    if ok {
        rep.outcome(if delivered.is_empty() { "all-closed" } else if extra_open > 0 { "delivered-and-held" } else { "delivered-then-closed" });
        rep.nontrivial += 1;
    }
}

fn frontend_scenarios(rep: &mut Report, pool: &Pool, res: &Resources) {
    let script = Script::default();
    // replies carrying unexpected / excess descriptors
    let mut ops = all_ops_basic();
    ops.push(FeOp::SetDeviceStateFd(1));
    for op in ops {
        for nfds in [0usize, 1, 2, 3, 32, 33] {
            let before = open_fds();
            let case = json!({"check":"C09","part":"frontend_reply","op":format!("{op:?}"),"nfds":nfds});
            let mut got_file = 0;
            {
                let mut f = FeRaw::new(2);
                f.negotiate(VIRTIO_F_PROTOCOL_FEATURES | 0x3, PF_ALL_DEFINED, PF_ALL_DEFINED).unwrap();
                f.fe.set_hdr_flags(VhostUserHeaderFlag::NEED_REPLY);
                let (rb, _) = correct_reply(&op, &script, res);
                f.raw.queue(&rb, &pool.raw(nfds), &[]);
                f.raw.eof_when_empty.set(true);
                let r = invoke(&mut f.fe, &op, res);
                let _ = coop::take_hangs();
                // a file returned by value is owned by the caller: drop it here, it must then be closed
                if let Ok(FeRet::File(_)) | Ok(FeRet::Inflight(..)) | Ok(FeRet::OptFile(Some(_))) = &r {
                    got_file = 1;
                }
                drop(r);
            }
            let cen = census(&pool.ids);
            let _ = got_file;
            judge(rep, pool, &before, &[], &[], &cen, 0, false, case);
        }
    }
    // descriptors lent to sending calls stay open and keep referring to the same file
    for reply_ack in [false, true] {
        let before = open_fds();
        let lent: Vec<(RawFd, (u64, u64))> = res.mem.iter().map(|f| (f.as_raw_fd(), ident(f.as_raw_fd()))).chain(res.ev.iter().map(|e| (e.as_raw_fd(), ident(e.as_raw_fd())))).chain([(res.sock.1.as_raw_fd(), ident(res.sock.1.as_raw_fd()))]).collect();
        {
            let mut rec = Recorder::new();
            rec.script.features = VIRTIO_F_PROTOCOL_FEATURES | 3;
            rec.script.proto = PF_ALL_DEFINED;
            rec.ret_file = Some(res.ret.try_clone().unwrap());
            let mut p = Pair::new(rec, 2);
            negotiate(&mut p, if reply_ack { PF_ALL_DEFINED } else { PF_ALL_DEFINED & !PF_REPLY_ACK }).unwrap();
            p.fe.set_hdr_flags(VhostUserHeaderFlag::NEED_REPLY);
            for op in all_ops_basic() {
                let _ = invoke(&mut p.fe, &op, res);
                p.server.drain();
                rep.transitions += 1;
                for (fd, id) in &lent {
                    if !is_open(*fd) || ident(*fd) != *id {
                        rep.violation(&format!("C09:lent-descriptor-closed:{}", op.name()), &format!("{:?}: a descriptor lent for transmission was closed or replaced by the library", op), json!({"check":"C09","part":"lent","op":format!("{op:?}")}));
                    }
                }
                if !p.server.alive.get() {
                    break;
                }
            }
        }
        let after = open_fds();
        rep.evaluations += 1;
        if after != before {
            rep.violation("C09:fd-table:success-history", &format!("after a full successful session and teardown: new {:?}, missing {:?}", after.difference(&before).collect::<Vec<_>>(), before.difference(&after).collect::<Vec<_>>()), json!({"check":"C09","part":"success_history","reply_ack":reply_ack}));
        } else {
            rep.outcome("session-clean");
            rep.nontrivial += 1;
        }
    }
}

fn request_server_scenarios(rep: &mut Report, pool: &Pool, res: &Resources) {
    for op in bp_ops_basic() {
        for nfds in [0usize, 1, 2, 3, 32, 33, 40] {
            for reply_ack in [false, true] {
                let before = open_fds();
                let case = json!({"check":"C09","part":"frontend_req_server","op":format!("{op:?}"),"nfds":nfds,"reply_ack":reply_ack});
                let pk;
                {
                    let rec = Arc::new(Mutex::new(FrRecorder::default()));
                    let mut h = FrontendReqHandler::new(rec.clone()).unwrap();
                    h.set_reply_ack_flag(reply_ack);
                    // SAFETY: dup of tx; we own the copy.
                    let tx = unsafe { libc::fcntl(h.get_tx_raw_fd(), libc::F_DUPFD_CLOEXEC, 3) };
                    let peer = unsafe { UnixStream::from_raw_fd(tx) };
                    let raw = RawScript::attach(h.as_raw_fd(), peer);
                    let (rb, _) = op.request(F_VERSION | F_NEED_REPLY, res);
                    raw.queue(&rb, &pool.raw(nfds), &[]);
                    raw.eof_when_empty.set(true);
                    pk = catch_unwind(AssertUnwindSafe(|| h.handle_request())).is_err();
                    let _ = coop::take_hangs();
                }
                let cen = census(&pool.ids);
                judge(rep, pool, &before, &[], &[], &cen, 0, pk, case);
            }
        }
    }
}

pub fn run(rep: &mut Report) {
    let thorough = rep.is_thorough();
    crate::crash::install("C09");
    coop::enable();
    let res = Resources::new();
    let pool = Pool::new(41);
    let reqs = wellformed();
    let shapes = [Shape::Valid, Shape::SizePlus1, Shape::BodyTruncated, Shape::ReplyFlag, Shape::BadBody, Shape::UnknownCode];
    let counts: Vec<usize> = if thorough { vec![0, 1, 2, 3, 31, 32, 33, 40] } else { vec![0, 1, 2, 32, 33, 40] };
    for req in &reqs {
        for sh in &shapes {
            for &n in &counts {
                for on_body in [false, true] {
                    if on_body && (n == 0 || req.payload.is_empty()) {
                        continue;
                    }
                    for negotiated in [false, true] {
                        if !thorough && !negotiated && !matches!(sh, Shape::Valid | Shape::SizePlus1) {
                            continue;
                        }
                        for (second, teardown) in [(false, 0u8), (false, 1), (true, 1), (true, 2)] {
                            if !thorough && (second && !matches!(sh, Shape::Valid | Shape::BodyTruncated)) {
                                continue;
                            }
                            for keep in [false, true] {
                                if keep && (!matches!(sh, Shape::Valid) || teardown == 0) {
                                    continue;
                                }
                                server_scenario(rep, &pool, &res, req, sh, n, on_body, negotiated, second, teardown, keep);
                            }
                        }
                    }
                }
            }
        }
    }
    frontend_scenarios(rep, &pool, &res);
    request_server_scenarios(rep, &pool, &res);
    coop::disable();
    rep.states = rep.outcomes.len() as u64;
    rep.traces = rep.evaluations;
    rep.exhaustive = true;
    rep.sample(json!({"part":"server","req":"SET_MEM_TABLE[2]","shape":"SizePlus1","nfds":33,"teardown":1,"expect":"all 33 descriptors closed, fd table unchanged"}));
    rep.sample(json!({"part":"server","req":"SET_VRING_KICK[fd]","shape":"Valid","nfds":1,"handler_keeps_files":true,"expect":"exactly one extra descriptor: the one the application holds"}));
    rep.sample(json!({"part":"frontend_reply","op":"GetFeatures","nfds":3,"expect":"reply rejected, 3 descriptors closed"}));
    rep.rule = "backend server: every request type x {valid, size+1, truncated body, REPLY flag, invalid body, unknown code} x descriptor count in {0,1,2,(3,31,)32,33,40} attached to header or body x negotiation state x optional second descriptor-carrying message x teardown before / after the first / after the second message x handler keeps or drops its files; frontend: every operation's reply with 0..=33 unexpected descriptors, and a full successful session with lent descriptors; frontend request server: 5 kinds x 0..=40 descriptors. Every passed descriptor is a distinct memfd. Oracle: after dropping the endpoints, for every passed file #open descriptors = 1 (original) + copies the application holds, no identity delivered twice, and the process's descriptor numbers = before + held. Non-trivial = scenarios whose accounting was verified".into();
    rep.assumptions.push("serial execution inside the process (no concurrent open); identity via fstat (st_dev, st_ino)".into());
}

pub fn replay(case: &Value, rep: &mut Report) {
    println!("replay C09 by re-running the quick enumeration; case: {case}");
    run(rep);
}
