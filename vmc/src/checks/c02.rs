//! C02: frontend calls reach the backend handler with identical arguments and files.
//! Engine E3 (argument lattice) + E1-style short histories (all ordered pairs of operations), real
//! `Frontend` <-> real `BackendReqHandler<Mutex<Recorder>>` in coop mode; plus the library's
//! RwLock/RefCell `VhostBackend` adapters.

use crate::feops::*;
use crate::pair::{negotiate, Pair};
use crate::rawpeer::ident;
use crate::recorder::{Call, Recorder};
use crate::report::Report;
use crate::spec;
use crate::sysshim::{coop, pending_bytes};
use serde_json::{json, Value};
use std::cell::RefCell;
use std::os::unix::io::{AsRawFd, RawFd};
use std::sync::RwLock;
use vhost::vhost_user::message::VhostUserHeaderFlag;
use vhost::vhost_user::VhostUserFrontend;
use vhost::{VhostBackend, VhostBackendMut, VhostUserDirtyLogRegion, VhostUserMemoryRegionInfo, VringConfigData};
use vmm_sys_util::eventfd::EventFd;

fn mk_pair(res: &Resources, reply_ack: bool, need_reply: bool, max_queues: u64) -> Pair {
    let mut rec = Recorder::new();
    rec.script.features = spec::VIRTIO_F_PROTOCOL_FEATURES | 0x3;
    rec.script.proto = spec::PF_ALL_DEFINED;
    rec.script.queue_num = max_queues;
    rec.ret_file = Some(res.ret.try_clone().unwrap());
    let mut p = Pair::new(rec, max_queues);
    let ack = if reply_ack { spec::PF_ALL_DEFINED } else { spec::PF_ALL_DEFINED & !spec::PF_REPLY_ACK };
    if let Err(e) = negotiate(&mut p, ack) {
        eprintln!("MACHINERY FAILURE: negotiation failed: {e}");
        std::process::exit(2);
    }
    p.fe.set_hdr_flags(if need_reply { VhostUserHeaderFlag::NEED_REPLY } else { VhostUserHeaderFlag::empty() });
    p.server.rec.lock().unwrap().log.clear();
    p
}

fn stateful(op: &FeOp) -> bool {
    matches!(op, FeOp::GetFeatures | FeOp::SetFeatures(_) | FeOp::GetProtocolFeatures | FeOp::SetProtocolFeatures(_) | FeOp::GetQueueNum)
}

/// One call on a live pair: returns false if the pair must be discarded (server died).
fn one_call(p: &mut Pair, op: &FeOp, res: &Resources, reply_ack: bool, need_reply: bool, rep: &mut Report, ctx: Value, sigctx: &str) -> bool {
    p.server.rec.lock().unwrap().log.clear();
    let _ = p.hangs();
    let served_before = p.server.served_ok.get();
    let r = invoke(&mut p.fe, op, res);
    // a call the API refuses puts nothing on the wire: it is outside "arguments the API accepts"
    if r.is_err() && pending_bytes(p.server.fd) == 0 && p.server.served_ok.get() == served_before && p.server.alive.get() && p.server.log_len() == 0 {
        rep.evaluations += 1;
        // the statement lists what the API rejects locally (queue index beyond the known maximum,
        // empty / oversized region list, zero-sized region, invalid config window, un-negotiated
        // feature; since fix a61bcd1 also bodies the server's validators reject): a call outside
        // those classes that is refused never reaches the handler although the API ought to accept it
        let index_ok = op.queue_index().map_or(true, |i| i < p.max_queues.min(256));
        if sigctx.is_empty() && index_ok && op.wire_valid() {
            rep.outcome("rejected-locally-although-acceptable");
            rep.violation(&format!("C02:{}:rejected-locally-although-acceptable", op.name()), &format!("{:?}: every required feature is negotiated, the index is below the maximum and the arguments are valid by the protocol's rules, yet the API refused the call locally ({:?}): the handler is never invoked", op, r.as_ref().err()), ctx);
            return true;
        }
        rep.outcome("rejected-locally");
        return true;
    }
    let ack_on = match op {
        FeOp::SetProtocolFeatures(v) => v & spec::PF_REPLY_ACK != 0,
        _ => reply_ack,
    };
    let awaited = op.has_reply() || (ack_on && need_reply);
    let log_at_return = p.server.rec.lock().unwrap().log.clone();
    let (fe_hung, _) = p.hangs();
    p.server.drain();
    let log = p.server.rec.lock().unwrap().log.clone();
    rep.evaluations += 1;
    rep.transitions += 1;
    let Some(want) = op.expected_call(res) else {
        // operations for which the handler trait has no method at all
        let sig = format!("C02:{}:no-handler-operation", op.name());
        rep.outcome("no-handler-operation");
        rep.violation(&sig, &format!("{:?}: accepted by the API (result {:?}) but the backend request server has no handler operation for it; server alive afterwards: {}", op, r.as_ref().map(|_| "Ok"), p.server.alive.get()), ctx);
        return p.server.alive.get();
    };
    let klass = if op.wire_valid() { "" } else { ":argument-the-server-calls-invalid" };
    if fe_hung {
        rep.violation(&format!("C02:{}:{sigctx}hang", op.name()), &format!("{:?}: call waits forever", op), ctx);
        return false;
    }
    if log.len() == 1 && log[0] == want {
        if awaited && log_at_return.len() != 1 {
            rep.outcome("delivered-late");
            rep.violation(&format!("C02:{}:{sigctx}returned-before-handler-ran", op.name()), &format!("{:?}: an ack/reply was awaited but the handler had not run when the call returned", op), ctx);
        } else if awaited && r.is_err() {
            rep.violation(&format!("C02:{}:{sigctx}error-after-delivery", op.name()), &format!("{:?}: {:?}", op, r), ctx);
        } else {
            rep.outcome(if awaited { "delivered-before-return" } else { "delivered" });
            rep.nontrivial += 1;
        }
    } else if log.is_empty() {
        rep.outcome("not-delivered");
        rep.violation(
            &format!("C02:{}:{sigctx}handler-not-invoked{klass}", op.name()),
            &format!("{:?}: accepted by the API (result {:?}) but the handler was never invoked (server error: {:?})", op, r.as_ref().map(|_| "Ok"), p.server.last_err.borrow()),
            ctx,
        );
    } else {
        rep.outcome("delivered-differently");
        rep.violation(
            &format!("C02:{}:{sigctx}handler-saw-different-call", op.name()),
            &format!("{:?}: handler saw {:?}, caller passed {:?}", op, log.iter().map(|c| c.json()).collect::<Vec<_>>(), want.json()),
            ctx,
        );
    }
    p.server.alive.get()
}

fn argument_lattice(rep: &mut Report, res: &Resources, ops: &[FeOp]) {
    for reply_ack in [false, true] {
        for need_reply in [false, true] {
            let mut shared = mk_pair(res, reply_ack, need_reply, 256);
            for op in ops {
                let ctx = json!({"check":"C02","part":"arguments","op":format!("{op:?}"),"reply_ack":reply_ack,"need_reply":need_reply});
                if stateful(op) {
                    let mut p = mk_pair(res, reply_ack, need_reply, 256);
                    one_call(&mut p, op, res, reply_ack, need_reply, rep, ctx, "");
                } else if !one_call(&mut shared, op, res, reply_ack, need_reply, rep, ctx, "") {
                    shared = mk_pair(res, reply_ack, need_reply, 256);
                }
            }
        }
    }
}

fn ordered_pairs(rep: &mut Report, res: &Resources) {
    let ops: Vec<FeOp> = all_ops_basic();
    for a in &ops {
        for b in &ops {
            let mut p = mk_pair(res, true, true, 2);
            let _ = invoke(&mut p.fe, a, res);
            p.server.drain();
            if !p.server.alive.get() {
                continue;
            }
            // GET_QUEUE_NUM answers 2 queues here, keep indexes valid
            let ctx = json!({"check":"C02","part":"pairs","first":format!("{a:?}"),"op":format!("{b:?}")});
            one_call(&mut p, b, res, true, true, rep, ctx, "after-other-call:");
        }
    }
}

fn local_rejections(rep: &mut Report, res: &Resources) {
    let big = (0..33).map(|i| (0x1000u64 * i, 0x1000u64, 0x7f00_0000_0000u64 + 0x1000 * i, 0u64, 0usize)).collect::<Vec<_>>();
    let cases: Vec<(&str, FeOp)> = vec![
        ("queue-index-at-max", FeOp::SetVringNum(2, 8)),
        ("queue-index-beyond-max", FeOp::SetVringBase(3, 8)),
        ("queue-index-beyond-max", FeOp::GetVringBase(2)),
        ("queue-index-beyond-max", FeOp::SetVringAddr(2, 0, 0x1000, 0x2000, 0x3000, None)),
        ("queue-index-beyond-max", FeOp::SetVringCall(2)),
        ("queue-index-beyond-max", FeOp::SetVringKick(usize::MAX)),
        ("queue-index-beyond-max", FeOp::SetVringErr(1 << 32)),
        ("queue-index-beyond-max", FeOp::SetVringEnable(2, true)),
        ("empty-region-list", FeOp::SetMemTable(vec![])),
        ("oversized-region-list", FeOp::SetMemTable(big)),
        ("zero-sized-region", FeOp::SetMemTable(vec![(0, 0, 0x7f00_0000_0000, 0, 0)])),
        ("zero-sized-region", FeOp::SetMemTable(vec![(0, 0x1000, 0x7f00_0000_0000, 0, 0), (0x1000, 0, 0x7f00_0000_1000, 0, 1)])),
        ("zero-sized-region", FeOp::AddMemRegion(0, 0, 0x7f00_0000_0000, 0, 0)),
        ("zero-sized-region", FeOp::RemoveMemRegion(0, 0, 0x7f00_0000_0000, 0)),
        ("invalid-config-window", FeOp::GetConfig(0, 0, 0)),
        ("invalid-config-window", FeOp::GetConfig(0xfff, 2, 0)),
        ("invalid-config-window", FeOp::GetConfig(0x1000, 1, 0)),
        ("invalid-config-window", FeOp::GetConfig(u32::MAX, 2, 0)),
        ("invalid-config-window", FeOp::GetConfig(0, 8, 4)),
        ("invalid-config-window", FeOp::SetConfig(0xfff, 0, 2)),
        ("invalid-config-window", FeOp::SetConfig(0, 0, 0)),
        ("invalid-config-window", FeOp::SetConfig(0, 8, 4)),
        ("invalid-config-window", FeOp::SetConfig(0, 0, 4097)),
        ("invalid-vring-flags", FeOp::SetVringAddr(0, 2, 0x1000, 0x2000, 0x3000, None)),
        ("invalid-uuid", FeOp::GetSharedObject([0; 16])),
        ("invalid-uuid", FeOp::GetSharedObject([0xff; 16])),
        ("invalid-inflight", FeOp::SetInflightFd(0, 0, 1, 1)),
        ("invalid-inflight", FeOp::SetInflightFd(0x1000, 0, 0, 1)),
        ("invalid-inflight", FeOp::SetInflightFd(0x1000, 0, 1, 0)),
    ];
    for (why, op) in cases {
        let mut p = mk_pair(res, true, true, 2);
        let before = p.server.log_len();
        let r = invoke(&mut p.fe, &op, res);
        let wire = pending_bytes(p.server.fd);
        p.server.drain();
        let after = p.server.log_len();
        rep.evaluations += 1;
        rep.transitions += 1;
        let ctx = json!({"check":"C02","part":"local_rejection","why":why,"op":format!("{op:?}")});
        if r.is_ok() || wire != 0 || after != before {
            rep.outcome("local-rejection-leaked");
            rep.violation(&format!("C02:{}:{why}:not-rejected-locally", op.name()), &format!("{:?}: result {:?}, {wire} byte(s) on the wire, handler calls {}", op, r.as_ref().map(|_| "Ok"), after - before), ctx);
        } else {
            rep.outcome("rejected-locally");
            rep.nontrivial += 1;
        }
    }
    // un-negotiated feature
    for op in all_ops_basic().into_iter().filter(|o| o.gate().is_some() && !matches!(o, FeOp::SetLogBase(..))) {
        let mut rec = Recorder::new();
        rec.script.features = spec::VIRTIO_F_PROTOCOL_FEATURES | 3;
        rec.script.proto = spec::PF_ALL_DEFINED;
        let mut p = Pair::new(rec, 2);
        negotiate(&mut p, spec::PF_REPLY_ACK).unwrap();
        p.server.rec.lock().unwrap().log.clear();
        let r = invoke(&mut p.fe, &op, res);
        let wire = pending_bytes(p.server.fd);
        rep.evaluations += 1;
        if r.is_ok() || wire != 0 {
            rep.violation(&format!("C02:{}:un-negotiated-feature:not-rejected-locally", op.name()), &format!("{:?}: {:?}, {wire} bytes on the wire", op, r.as_ref().map(|_| "Ok")), json!({"check":"C02","part":"local_rejection","why":"un-negotiated","op":format!("{op:?}")}));
        } else {
            rep.outcome("rejected-locally");
            rep.nontrivial += 1;
        }
    }
}

fn descriptor_kinds(rep: &mut Report, res: &Resources) {
    for k in 0..5usize {
        let fd = res.kind_fd(k);
        let mut p = mk_pair(res, true, true, 2);
        let region = VhostUserMemoryRegionInfo { guest_phys_addr: 0x1000, memory_size: 0x1000, userspace_addr: 0x7f00_0000_0000, mmap_offset: 0, mmap_handle: fd };
        let calls: Vec<(&str, Box<dyn Fn(&mut Pair) -> bool>)> = vec![
            ("set_mem_table", Box::new(move |p: &mut Pair| p.fe.set_mem_table(&[region]).is_ok())),
            ("add_mem_region", Box::new(move |p: &mut Pair| p.fe.add_mem_region(&region).is_ok())),
            ("set_inflight_fd", Box::new(move |p: &mut Pair| p.fe.set_inflight_fd(&vhost::vhost_user::message::VhostUserInflight::new(0x1000, 0, 1, 1), fd).is_ok())),
            ("set_log_base", Box::new(move |p: &mut Pair| p.fe.set_log_base(0, Some(VhostUserDirtyLogRegion { mmap_size: 0x1000, mmap_offset: 0, mmap_handle: fd })).is_ok())),
        ];
        for (name, f) in calls {
            p.server.rec.lock().unwrap().log.clear();
            let ok = f(&mut p);
            p.server.drain();
            let log = p.server.rec.lock().unwrap().log.clone();
            rep.evaluations += 1;
            rep.transitions += 1;
            let good = ok && log.len() == 1 && log[0].op == name && log[0].files == vec![ident(fd)] && crate::rawpeer::is_open(fd);
            if good {
                rep.outcome("descriptor-kind-delivered");
                rep.nontrivial += 1;
            } else {
                rep.violation(&format!("C02:{name}:descriptor-kind"), &format!("descriptor kind {k}: ok={ok}, handler log {:?}", log.iter().map(|c| c.json()).collect::<Vec<_>>()), json!({"check":"C02","part":"descriptor_kinds","kind":k,"op":name}));
            }
            if !p.server.alive.get() {
                p = mk_pair(res, true, true, 2);
            }
        }
    }
}

// ---- the library's RwLock / RefCell adapters ---------------------------------------------------

#[derive(Default)]
struct MutRec {
    log: Vec<(String, Vec<u64>)>,
}

impl MutRec {
    fn rec(&mut self, n: &str, a: Vec<u64>) -> vhost::Result<()> {
        self.log.push((n.to_string(), a));
        Ok(())
    }
}

impl VhostBackendMut for MutRec {
    fn get_features(&mut self) -> vhost::Result<u64> {
        self.log.push(("get_features".into(), vec![]));
        Ok(0x1234_5678_9abc_def0)
    }
    fn set_features(&mut self, f: u64) -> vhost::Result<()> {
        self.rec("set_features", vec![f])
    }
    fn set_owner(&mut self) -> vhost::Result<()> {
        self.rec("set_owner", vec![])
    }
    fn reset_owner(&mut self) -> vhost::Result<()> {
        self.rec("reset_owner", vec![])
    }
    fn set_mem_table(&mut self, r: &[VhostUserMemoryRegionInfo]) -> vhost::Result<()> {
        let mut a = vec![r.len() as u64];
        for x in r {
            a.extend_from_slice(&[x.guest_phys_addr, x.memory_size, x.userspace_addr, x.mmap_offset, x.mmap_handle as u64]);
        }
        self.rec("set_mem_table", a)
    }
    fn set_log_base(&mut self, b: u64, r: Option<VhostUserDirtyLogRegion>) -> vhost::Result<()> {
        self.rec("set_log_base", vec![b, r.map(|r| r.mmap_size).unwrap_or(u64::MAX), r.map(|r| r.mmap_offset).unwrap_or(u64::MAX), r.map(|r| r.mmap_handle as u64).unwrap_or(u64::MAX)])
    }
    fn set_log_fd(&mut self, fd: RawFd) -> vhost::Result<()> {
        self.rec("set_log_fd", vec![fd as u64])
    }
    fn set_vring_num(&mut self, q: usize, n: u16) -> vhost::Result<()> {
        self.rec("set_vring_num", vec![q as u64, n as u64])
    }
    fn set_vring_addr(&mut self, q: usize, c: &VringConfigData) -> vhost::Result<()> {
        self.rec("set_vring_addr", vec![q as u64, c.queue_max_size as u64, c.queue_size as u64, c.flags as u64, c.desc_table_addr, c.used_ring_addr, c.avail_ring_addr, c.log_addr.unwrap_or(u64::MAX)])
    }
    fn set_vring_base(&mut self, q: usize, b: u16) -> vhost::Result<()> {
        self.rec("set_vring_base", vec![q as u64, b as u64])
    }
    fn get_vring_base(&mut self, q: usize) -> vhost::Result<u32> {
        self.log.push(("get_vring_base".into(), vec![q as u64]));
        Ok(0xa1b2_c3d4)
    }
    fn set_vring_call(&mut self, q: usize, fd: &EventFd) -> vhost::Result<()> {
        self.rec("set_vring_call", vec![q as u64, fd.as_raw_fd() as u64])
    }
    fn set_vring_kick(&mut self, q: usize, fd: &EventFd) -> vhost::Result<()> {
        self.rec("set_vring_kick", vec![q as u64, fd.as_raw_fd() as u64])
    }
    fn set_vring_err(&mut self, q: usize, fd: &EventFd) -> vhost::Result<()> {
        self.rec("set_vring_err", vec![q as u64, fd.as_raw_fd() as u64])
    }
}

fn drive_adapter<B: VhostBackend>(b: &B, take: &dyn Fn() -> Vec<(String, Vec<u64>)>, which: &str, rep: &mut Report, res: &Resources) {
    let ev = &res.ev[0];
    let fd = ev.as_raw_fd() as u64;
    let region = VhostUserMemoryRegionInfo { guest_phys_addr: pat64(1), memory_size: pat64(2), userspace_addr: pat64(3), mmap_offset: pat64(4), mmap_handle: 7 };
    let cfg = VringConfigData { queue_max_size: 0x1234, queue_size: 0x4321, flags: 0x55, desc_table_addr: pat64(5), used_ring_addr: pat64(6), avail_ring_addr: pat64(7), log_addr: Some(pat64(8)) };
    let lr = VhostUserDirtyLogRegion { mmap_size: pat64(9), mmap_offset: pat64(10), mmap_handle: 9 };
    let mut check = |name: &str, want: Vec<u64>, ok: bool| {
        let log = take();
        rep.evaluations += 1;
        rep.transitions += 1;
        if ok && log.len() == 1 && log[0].0 == name && log[0].1 == want {
            rep.outcome("adapter-delegated");
            rep.nontrivial += 1;
        } else {
            rep.violation(&format!("C02:adapter:{which}:{name}"), &format!("{which}<T> adapter: called {name}{want:x?}, inner saw {log:x?}"), json!({"check":"C02","part":"adapter","which":which,"op":name}));
        }
    };
    let r = b.get_features();
    check("get_features", vec![], r.ok() == Some(0x1234_5678_9abc_def0));
    let r = b.set_features(pat64(11));
    check("set_features", vec![pat64(11)], r.is_ok());
    let r = b.set_owner();
    check("set_owner", vec![], r.is_ok());
    let r = b.reset_owner();
    check("reset_owner", vec![], r.is_ok());
    let r = b.set_mem_table(&[region, region]);
    check("set_mem_table", vec![2, pat64(1), pat64(2), pat64(3), pat64(4), 7, pat64(1), pat64(2), pat64(3), pat64(4), 7], r.is_ok());
    let r = b.set_log_base(pat64(12), Some(lr));
    check("set_log_base", vec![pat64(12), pat64(9), pat64(10), 9], r.is_ok());
    let r = b.set_log_base(pat64(13), None);
    check("set_log_base", vec![pat64(13), u64::MAX, u64::MAX, u64::MAX], r.is_ok());
    let r = b.set_log_fd(11);
    check("set_log_fd", vec![11], r.is_ok());
    for q in [0usize, 1, 255, 256, usize::MAX] {
        let r = b.set_vring_num(q, 0xabcd);
        check("set_vring_num", vec![q as u64, 0xabcd], r.is_ok());
        let r = b.set_vring_addr(q, &cfg);
        check("set_vring_addr", vec![q as u64, 0x1234, 0x4321, 0x55, pat64(5), pat64(6), pat64(7), pat64(8)], r.is_ok());
        let r = b.set_vring_base(q, 0x1357);
        check("set_vring_base", vec![q as u64, 0x1357], r.is_ok());
        let r = b.get_vring_base(q);
        check("get_vring_base", vec![q as u64], r.ok() == Some(0xa1b2_c3d4));
        let r = b.set_vring_call(q, ev);
        check("set_vring_call", vec![q as u64, fd], r.is_ok());
        let r = b.set_vring_kick(q, ev);
        check("set_vring_kick", vec![q as u64, fd], r.is_ok());
        let r = b.set_vring_err(q, ev);
        check("set_vring_err", vec![q as u64, fd], r.is_ok());
    }
}

fn adapters(rep: &mut Report, res: &Resources) {
    let a = RwLock::new(MutRec::default());
    drive_adapter(&a, &|| std::mem::take(&mut a.write().unwrap().log), "RwLock", rep, res);
    let b = RefCell::new(MutRec::default());
    drive_adapter(&b, &|| std::mem::take(&mut b.borrow_mut().log), "RefCell", rep, res);
}

pub fn run(rep: &mut Report) {
    let level = if rep.is_thorough() { 1 } else { 0 };
    coop::enable();
    let res = Resources::new();
    let ops = fe_variants(level, rep.seed);
    argument_lattice(rep, &res, &ops);
    ordered_pairs(rep, &res);
    local_rejections(rep, &res);
    descriptor_kinds(rep, &res);
    // queue indexes above 255 with a backend that reports up to 0x8000 queues
    for q in [256usize, 257, 511, 0x7fff] {
        for op in [FeOp::SetVringNum(q, 4), FeOp::SetVringBase(q, 4), FeOp::GetVringBase(q), FeOp::SetVringEnable(q, true), FeOp::SetVringAddr(q, 0, 0x1000, 0x2000, 0x3000, None), FeOp::SetVringCall(q), FeOp::SetVringKick(q), FeOp::SetVringErr(q)] {
            let mut p = mk_pair(&res, true, true, 0x8000);
            let ctx = json!({"check":"C02","part":"large_queue_index","op":format!("{op:?}")});
            let sigctx = if matches!(op, FeOp::SetVringCall(_) | FeOp::SetVringKick(_) | FeOp::SetVringErr(_)) { "queue-index-above-255:" } else { "" };
            one_call(&mut p, &op, &res, true, true, rep, ctx, sigctx);
        }
    }
    // operations whose requests the server has no handler operation for
    for op in [FeOp::SetLogFd, FeOp::SetLogBase(0x1000, None)] {
        let mut p = mk_pair(&res, true, true, 2);
        let ctx = json!({"check":"C02","part":"unimplemented","op":format!("{op:?}")});
        one_call(&mut p, &op, &res, true, true, rep, ctx, "");
    }
    adapters(rep, &res);
    coop::disable();
    rep.states = rep.outcomes.len() as u64;
    rep.traces = rep.evaluations;
    rep.exhaustive = true;
    rep.extra.insert("op_variants".into(), json!(ops.len()));
    rep.sample(json!({"op": format!("{:?}", ops[60]), "expected_handler_call": ops[60].expected_call(&res).map(|c| c.json())}));
    rep.sample(json!({"part":"pairs","first":"SetMemTable","op":"GetVringBase(1)","expect":"exactly one get_vring_base(1) call"}));
    rep.sample(json!({"part":"local_rejection","op":"SetVringNum(2,8) with max_queue_num=2","expect":"Err, 0 bytes on the wire"}));
    rep.rule = "every frontend operation x accepted-argument lattice (64-bit patterns, queue indexes 0..=255, config windows/lengths, 1..=32 regions) x (REPLY_ACK negotiated or not) x (NEED_REPLY on/off); all ordered pairs of operations (position in a longer session); every locally rejected argument class; every descriptor kind (memfd, eventfd, socket, pipe, /dev/null); the RwLock/RefCell VhostBackend adapters with a method-name-logging recorder. Oracle: handler log grew by exactly one entry with the same operation, equal arguments/payload and files with the same (st_dev, st_ino), before the call returned whenever an ack/reply was awaited; rejected calls leave 0 bytes on the wire. Non-trivial = calls whose delivery (or local rejection) was verified".into();
    rep.assumptions.push("file identity = (st_dev, st_ino) of distinct memfds/eventfds; server side driven like the daemon thread".into());
}

pub fn replay(case: &Value, rep: &mut Report) {
    println!("replay C02 by re-running the quick enumeration; case: {case}");
    run(rep);
}

#[allow(dead_code)]
fn _unused(_: Call) {}
