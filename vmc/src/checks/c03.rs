//! C03: handler results and failures are reported faithfully to the frontend caller.
//! Engine E3 over scripted handler outcomes, real Frontend <-> real BackendReqHandler in coop
//! mode; "would block forever" is decided exactly by the shim.

use crate::feops::*;
use crate::pair::{negotiate, Pair};
use crate::recorder::{ConfigAns, Recorder, Script};
use crate::report::Report;
use crate::spec;
use crate::sysshim::coop;
use serde_json::{json, Value};
use vhost::vhost_user::message::VhostUserHeaderFlag;
use vhost::VhostBackend;

#[derive(Clone, Debug)]
pub enum Outcome {
    /// handler succeeds with the script variant `n`
    Ok(usize),
    /// handler returns an error
    Fail,
    /// handler succeeds but produces an unusable result (variant `n`)
    Unusable(usize),
}

fn ok_variants(op: &FeOp) -> usize {
    match op {
        FeOp::GetFeatures | FeOp::GetProtocolFeatures | FeOp::GetMaxMemSlots => 6,
        FeOp::GetQueueNum => 6,
        FeOp::GetVringBase(_) => 4,
        FeOp::GetInflightFd(..) => 3,
        FeOp::SetDeviceStateFd(_) => 2,
        FeOp::GetShmemConfig => 4,
        FeOp::GetConfig(..) => 1,
        _ => 1,
    }
}

fn unusable_variants(op: &FeOp) -> usize {
    match op {
        FeOp::GetConfig(..) => 3,
        _ => 0,
    }
}

const U64V: [u64; 6] = [0, 1, 1 << 32, u64::MAX, spec::VIRTIO_F_PROTOCOL_FEATURES | 0x3, 0x8000_0000_0000_0000];

fn apply(op: &FeOp, out: &Outcome, s: &mut Script) {
    match out {
        Outcome::Fail => {
            s.fail.insert(op.name());
        }
        Outcome::Ok(n) => match op {
            FeOp::GetFeatures => s.features = U64V[*n],
            FeOp::GetProtocolFeatures => s.proto = U64V[*n],
            FeOp::GetMaxMemSlots => s.max_slots = U64V[*n],
            FeOp::GetQueueNum => s.queue_num = [0, 1, 2, 0x7fff, 0x8000, 0x8001][*n],
            FeOp::GetVringBase(_) => s.vring_base = [0, 1, 0xffff, 0xffff_ffff][*n],
            FeOp::GetInflightFd(..) => s.inflight = [(0x1000, 0, 2, 256), (u64::MAX, u64::MAX, 0xffff, 0xffff), (1, 1 << 40, 1, 1)][*n],
            FeOp::SetDeviceStateFd(_) => s.state_returns_file = *n == 1,
            FeOp::GetShmemConfig => {
                s.shmem = match n {
                    0 => (0, vec![]),
                    1 => (1, vec![0x1000]),
                    2 => (256, (0..256).map(|i| (i as u64 + 1) << 12).collect()),
                    _ => (3, vec![0x1000, 0, u64::MAX, 0, 0x2000]),
                }
            }
            _ => {}
        },
        Outcome::Unusable(n) => {
            if let FeOp::GetConfig(_, sz, _) = op {
                let l = match n {
                    0 => (*sz as usize).saturating_sub(1),
                    1 => *sz as usize + 1,
                    _ => 0,
                };
                s.config = ConfigAns::Fixed(vec![0xab; l]);
            }
        }
    }
}

#[derive(Clone, Debug)]
pub struct Case {
    pub op: FeOp,
    pub out: Outcome,
    pub reply_ack: bool,
    pub need_reply: bool,
    /// a call made before the observed one: (operation, whether its handler fails)
    pub prefix: Option<(FeOp, bool)>,
    /// negotiation order: 0 = GET/SET_FEATURES then GET/SET_PROTOCOL_FEATURES; 1 = protocol
    /// features negotiated before any SET_FEATURES (QEMU's order); 2 = SET_FEATURES without bit 30;
    /// 3 = like 1 but SET_PROTOCOL_FEATURES without a preceding GET_PROTOCOL_FEATURES
    pub nego: u8,
}

impl Case {
    fn json(&self) -> Value {
        json!({"check": "C03", "op": format!("{:?}", self.op), "outcome": format!("{:?}", self.out), "reply_ack": self.reply_ack, "need_reply": self.need_reply, "prefix": self.prefix.as_ref().map(|p| format!("{:?}", p.0)), "prefix_fails": self.prefix.as_ref().map(|p| p.1), "nego": self.nego})
    }
}

pub fn run_case(c: &Case, rep: &mut Report) {
    coop::enable();
    let res = Resources::new();
    let mut rec = Recorder::new();
    rec.script.features = spec::VIRTIO_F_PROTOCOL_FEATURES | 0x3;
    rec.script.proto = spec::PF_ALL_DEFINED;
    // SAFETY-free dup of the return file
    rec.ret_file = Some(res.ret.try_clone().unwrap());
    let mut p = Pair::new(rec, 2);
    let ack = if c.reply_ack { spec::PF_ALL_DEFINED } else { spec::PF_ALL_DEFINED & !spec::PF_REPLY_ACK };
    let nres = match c.nego {
        0 => negotiate(&mut p, ack),
        n => {
            use vhost::vhost_user::message::VhostUserProtocolFeatures;
            use vhost::vhost_user::VhostUserFrontend;
            (|| -> Result<(), String> {
                let f = p.fe.get_features().map_err(|e| format!("{e:?}"))?;
                if n == 2 {
                    p.fe.set_features(f & !spec::VIRTIO_F_PROTOCOL_FEATURES).map_err(|e| format!("{e:?}"))?;
                    p.server.drain();
                }
                // order 3: a saved negotiation is restored (e.g. after a reconnect) without asking again
                if n != 3 {
                    p.fe.get_protocol_features().map_err(|e| format!("{e:?}"))?;
                }
                p.fe.set_protocol_features(VhostUserProtocolFeatures::from_bits_retain(ack)).map_err(|e| format!("{e:?}"))?;
                p.server.drain();
                Ok(())
            })()
        }
    };
    if let Err(e) = nres {
        // every negotiation step has a succeeding handler, so a failing call is itself a violation
        let (hung, _) = p.hangs();
        rep.evaluations += 1;
        rep.violation(&format!("C03:negotiation:{}", if hung { "indefinite-wait" } else { "error-on-success" }), &format!("negotiation order {} failed although every handler succeeded: {e}", c.nego), c.json());
        drop(p);
        coop::disable();
        return;
    }
    p.fe.set_hdr_flags(if c.need_reply { VhostUserHeaderFlag::NEED_REPLY } else { VhostUserHeaderFlag::empty() });
    let mut session_ended = false;
    if let Some((pop, pfails)) = &c.prefix {
        {
            let mut r = p.server.rec.lock().unwrap();
            if *pfails {
                r.script.fail.insert(pop.name());
            }
        }
        let pres = invoke(&mut p.fe, pop, &res);
        let (hung, _) = p.hangs();
        let pawaited = pop.has_reply() || (c.reply_ack && c.need_reply);
        rep.evaluations += 1;
        let bad = if hung {
            Some("indefinite-wait")
        } else if !*pfails && pres.is_err() {
            Some("error-on-success")
        } else if *pfails && pawaited && pres.is_ok() {
            Some("fabricated-success")
        } else {
            None
        };
        if let Some(kind) = bad {
            rep.violation(&format!("C03:{}:{}:{kind}", pop.name(), if *pfails { "handler_err" } else { "handler_ok" }), &format!("call {pop:?} made after negotiation order {} (reply_ack={}, need_reply={}, handler fails={pfails}) returned {pres:?}", c.nego, c.reply_ack, c.need_reply), c.json());
            drop(p);
            coop::disable();
            return;
        }
        p.server.drain();
        p.server.rec.lock().unwrap().script.fail.remove(pop.name());
        // a failed request ends the session (the server stops serving, as the daemon thread does)
        session_ended = !p.server.alive.get();
    }
    let _ = p.hangs();
    let script = {
        let mut r = p.server.rec.lock().unwrap();
        apply(&c.op, &c.out, &mut r.script);
        r.log.clear();
        r.script.clone()
    };
    let expected = c.op.expected_ret(&script, &res);
    let result = invoke(&mut p.fe, &c.op, &res);
    let (fe_hung, _srv_hung) = p.hangs();
    let alive = p.server.alive.get();
    p.server.drain();
    rep.evaluations += 1;
    rep.transitions += 1;
    rep.traces += 1;
    let awaited = c.op.has_reply() || (c.reply_ack && c.need_reply);
    let cls = match &c.out {
        Outcome::Ok(_) => "handler_ok",
        Outcome::Fail => "handler_err",
        Outcome::Unusable(_) => "unusable_result",
    };
    let sig = |kind: &str| format!("C03:{}:{}:{}", c.op.name(), cls, kind);
    if fe_hung {
        rep.outcome("indefinite-wait");
        rep.violation(
            &sig("indefinite-wait"),
            &format!("{:?} with {:?}: the frontend call would wait forever (server alive at that time: {alive})", c.op, c.out),
            c.json(),
        );
        coop::disable();
        return;
    }
    if p.server.panicked.get() {
        rep.violation(&sig("server-panic"), "backend server panicked", c.json());
    }
    if session_ended {
        // the connection was closed after the failed prefix call: the observed call cannot be served.
        // It must say so when it awaits anything, and must never wait forever (checked above).
        match &result {
            Ok(v) if awaited => {
                rep.outcome("fabricated-success-on-closed-session");
                rep.violation(&sig("fabricated-success-on-closed-session"), &format!("{:?} on a connection the backend closed after a failed request returned Ok({v:?})", c.op), c.json());
            }
            Ok(_) => rep.outcome("unawaited-on-closed-session"),
            Err(_) => {
                rep.outcome("closed-session-reported");
                rep.nontrivial += 1;
            }
        }
        drop(p);
        coop::disable();
        return;
    }
    match (&c.out, &result) {
        (Outcome::Ok(_), Ok(v)) => {
            rep.outcome("ok-value-delivered");
            rep.nontrivial += 1;
            let tolerated = matches!((&c.op, &c.out), (FeOp::GetQueueNum, Outcome::Ok(5)));
            if *v != expected && !tolerated {
                rep.violation(&sig("wrong-value"), &format!("{:?}: returned {v:?}, handler produced {expected:?}", c.op), c.json());
            }
        }
        (Outcome::Ok(n), Err(e)) => {
            // more than 0x8000 queues is not a usable queue count: an error is acceptable there
            let tolerated = matches!(c.op, FeOp::GetQueueNum) && *n == 5;
            rep.outcome("error-on-success");
            if !tolerated {
                rep.violation(&sig("error-on-success"), &format!("{:?}: handler succeeded but the call returned Err({e})", c.op), c.json());
            }
        }
        (Outcome::Fail | Outcome::Unusable(_), Ok(v)) => {
            if awaited {
                rep.outcome("fabricated-success");
                rep.violation(&sig("fabricated-success"), &format!("{:?} with {:?}: the call returned Ok({v:?})", c.op, c.out), c.json());
            } else {
                rep.outcome("unawaited-failure-invisible");
            }
        }
        (Outcome::Fail | Outcome::Unusable(_), Err(_)) => {
            rep.outcome("failure-reported");
            rep.nontrivial += 1;
        }
    }
    drop(p);
    coop::disable();
}

fn ops() -> Vec<FeOp> {
    let mut v = all_ops_basic();
    v.push(FeOp::SetDeviceStateFd(1));
    v.push(FeOp::GetConfig(0, 0x1000 - 12 - 0, 0).clone());
    v.push(FeOp::GetConfig(0xfff, 1, 3));
    v.push(FeOp::SetVringEnable(0, false));
    v
}

/// Calls made before the observed one: none, and every operation with a succeeding and with a
/// failing handler (quick: a reply-bearing and an acknowledged one).
fn prefixes(thorough: bool) -> Vec<Option<(FeOp, bool)>> {
    let mut v: Vec<Option<(FeOp, bool)>> = vec![None];
    let base: Vec<FeOp> = if thorough { ops() } else { vec![FeOp::SetVringNum(0, 64), FeOp::GetQueueNum, FeOp::GetConfig(0x100, 8, 0)] };
    for o in base {
        v.push(Some((o.clone(), false)));
        if !matches!(o, FeOp::SetBackendReqFd) {
            v.push(Some((o, true)));
        }
    }
    v
}

pub fn run(rep: &mut Report) {
    let mut n = 0u64;
    let prefixes = prefixes(rep.is_thorough());
    for op in ops() {
        // GET_CONFIG with a payload that would not fit the 4096-byte message bound is refused
        // locally; keep the largest accepted window
        let op = match op {
            FeOp::GetConfig(0, s, f) if s > 0x1000 - 12 => FeOp::GetConfig(0, 0x1000 - 12, f),
            o => o,
        };
        let mut outs: Vec<Outcome> = (0..ok_variants(&op)).map(Outcome::Ok).collect();
        // the handler's set_backend_req_fd has no way to fail (it returns `()`)
        if !matches!(op, FeOp::SetBackendReqFd) {
            outs.push(Outcome::Fail);
        }
        outs.extend((0..unusable_variants(&op)).map(Outcome::Unusable));
        for out in outs {
            for reply_ack in [false, true] {
                for need_reply in [false, true] {
                    for (pi, nego) in prefixes.iter().flat_map(|p| [0u8, 1, 2, 3].into_iter().map(move |n| (p, n))) {
                        // other negotiation orders: only without a prefix or with the basic one
                        if nego != 0 && !matches!(pi, None | Some((FeOp::SetVringNum(..), false))) {
                            continue;
                        }
                        if nego >= 2 && pi.is_some() {
                            continue;
                        }
                        // without bit 30 acknowledged the frontend refuses ring enabling locally
                        if nego != 0 && (matches!(op, FeOp::SetVringEnable(..)) || matches!(pi, Some((FeOp::SetVringEnable(..), _)))) {
                            continue;
                        }
                        let c = Case { op: op.clone(), out: out.clone(), reply_ack, need_reply, prefix: pi.clone(), nego };
                        if n % 997 == 0 {
                            rep.sample(c.json());
                        }
                        n += 1;
                        run_case(&c, rep);
                    }
                }
            }
        }
    }
    rep.states = rep.outcomes.len() as u64;
    rep.exhaustive = true;
    rep.rule = "every reply-bearing and every acknowledged frontend operation x scripted handler outcome (success values incl. 0/max patterns, with/without returned file, Err, wrong-length config data) x REPLY_ACK negotiated or not x NEED_REPLY on/off x position {first call, after a succeeding call, after a failing call: a reply-bearing, an acknowledged and a config operation at quick, every operation at thorough} x four negotiation orders (incl. SET_PROTOCOL_FEATURES without a preceding GET_PROTOCOL_FEATURES); after a failed request the session is closed and the next call must report that instead of waiting or succeeding; non-trivial = the outcome was observable at the caller (value delivered or failure reported)".into();
    rep.assumptions.push("server side behaves like the daemon thread: serves while handle_request returns Ok, shuts the connection down on Err".into());
}

pub fn replay(case: &Value, rep: &mut Report) {
    // re-run the family of the recorded op (cases are cheap)
    let want = case["op"].as_str().unwrap_or("").to_string();
    let wout = case["outcome"].as_str().unwrap_or("").to_string();
    for op in ops() {
        if format!("{op:?}") != want {
            continue;
        }
        let mut outs: Vec<Outcome> = (0..ok_variants(&op)).map(Outcome::Ok).collect();
        outs.push(Outcome::Fail);
        outs.extend((0..unusable_variants(&op)).map(Outcome::Unusable));
        for out in outs {
            if format!("{out:?}") != wout {
                continue;
            }
            let prefix = case["prefix"].as_str().and_then(|w| ops().into_iter().chain([FeOp::SetVringNum(0, 64), FeOp::GetQueueNum]).find(|o| format!("{o:?}") == w)).map(|o| (o, case["prefix_fails"].as_bool().unwrap_or(false)));
            let c = Case {
                op: op.clone(),
                out,
                reply_ack: case["reply_ack"].as_bool().unwrap_or(false),
                need_reply: case["need_reply"].as_bool().unwrap_or(false),
                prefix,
                nego: case["nego"].as_u64().unwrap_or(0) as u8,
            };
            println!("replaying {:?}", c);
            run_case(&c, rep);
        }
    }
}
