//! C07: feature-dependent operations are impossible before the feature is negotiated.
//! (a) all 2^11 subsets of the gating bits on both endpoints, (b) E1 BFS over negotiation
//! histories on the frontend endpoint (the server-side histories are C04's BFS, whose oracle
//! includes "handler invoked only when gated in"), (c) the proxy's three flags, (d) REPLY_ACK
//! always offered.

use crate::feops::*;
use crate::feraw::*;
use crate::pxops::*;
use crate::recorder::{Recorder, Script};
use crate::report::Report;
use crate::spec::*;
use crate::sysshim::coop;
use crate::wirereq::*;
use crate::xstate::bfs;
use serde_json::{json, Value};
use std::os::unix::io::AsRawFd;
use std::os::unix::net::UnixStream;
use vhost::vhost_user::Backend;

pub const GATES: [u64; 11] = [PF_MQ, PF_LOG_SHMFD, PF_CONFIG, PF_BACKEND_REQ, PF_INFLIGHT_SHMFD, PF_CONFIGURE_MEM_SLOTS, PF_RESET_DEVICE, PF_SHARED_OBJECT, PF_SHMEM, PF_DEVICE_STATE, PF_REPLY_ACK];

fn gated_fe_ops() -> Vec<FeOp> {
    all_ops_basic().into_iter().filter(|o| o.gate().is_some() || matches!(o, FeOp::SetVringEnable(..))).collect()
}

fn subset_word(mask: u32) -> u64 {
    GATES.iter().enumerate().filter(|(i, _)| mask >> i & 1 == 1).map(|(_, b)| *b).sum()
}

/// Observe one frontend call: (result, what was written).
fn fe_call(f: &mut FeRaw, op: &FeOp, res: &Resources, script: &Script) -> (Result<FeRet, String>, crate::rawpeer::Received, bool) {
    f.raw.clear();
    let (rb, rf) = correct_reply(op, script, res);
    f.raw.queue(&rb, &rf, &[]);
    let _ = coop::take_hangs();
    let r = invoke(&mut f.fe, op, res);
    let hang = coop::take_hangs().contains(&f.raw.ep_fd);
    let w = f.raw.take_written();
    f.raw.clear();
    (r, w, hang)
}

fn judge_fe(rep: &mut Report, op: &FeOp, allowed: bool, r: &Result<FeRet, String>, w: &crate::rawpeer::Received, ctx: Value) {
    rep.evaluations += 1;
    rep.transitions += 1;
    let wrote = !w.bytes.is_empty();
    if let FeOp::SetLogBase(_, Some(_)) = op {
        // weak reading: without LOG_SHMFD no descriptor-carrying SET_LOG_BASE may be written
        if !allowed && (w.nfds() > 0 || w.bytes.len() > 20) {
            rep.violation("C07:frontend:set_log_base:shmfd-form-without-feature", "descriptor-carrying SET_LOG_BASE written although LOG_SHMFD was not acknowledged", ctx);
        } else {
            rep.outcome(if allowed { "fe:gated-op-sent" } else { "fe:log-base-fallback" });
            rep.nontrivial += 1;
        }
        return;
    }
    if allowed {
        let code_ok = w.bytes.len() >= 12 && rd32(&w.bytes, 0) == op.code();
        if !wrote || !code_ok {
            rep.violation(&format!("C07:frontend:{}:refused-although-negotiated", op.name()), &format!("{:?} refused ({:?}) although its feature was acknowledged", op, r), ctx);
        } else {
            rep.outcome("fe:gated-op-sent");
        }
    } else if wrote || r.is_ok() {
        rep.outcome("fe:ungated-send");
        rep.violation(&format!("C07:frontend:{}:not-refused", op.name()), &format!("{:?}: result {:?}, {} bytes written although the feature was not acknowledged", op, r.as_ref().map(|_| "Ok"), w.bytes.len()), ctx);
    } else {
        rep.outcome("fe:refused-locally");
        rep.nontrivial += 1;
    }
}

fn subsets_frontend(rep: &mut Report, res: &Resources, masks: &[u32]) {
    let script = Script { queue_num: 256, ..Default::default() };
    let ops = gated_fe_ops();
    for &mask in masks {
        let s = subset_word(mask);
        let mut f = FeRaw::new(256);
        f.negotiate(VIRTIO_F_PROTOCOL_FEATURES | 3, PF_ALL_DEFINED, s).unwrap();
        for op in &ops {
            let allowed = match op {
                FeOp::SetVringEnable(..) => true,
                _ => op.gate().map(|g| s & g != 0).unwrap_or(true),
            };
            let (r, w, _) = fe_call(&mut f, op, res, &script);
            judge_fe(rep, op, allowed, &r, &w, json!({"check":"C07","part":"subsets_frontend","mask":mask,"op":format!("{op:?}")}));
        }
    }
}

fn subsets_server(rep: &mut Report, res: &Resources, masks: &[u32]) {
    let reqs: Vec<WireReq> = wellformed().into_iter().filter(|r| server_gate(r.code).is_some() || r.code == SET_VRING_ENABLE).collect();
    for &mask in masks {
        let s = subset_word(mask);
        for pf_acked in [true, false] {
            if !pf_acked && mask % 64 != 0 {
                continue;
            }
            for req in &reqs {
                let mut rec = Recorder::new();
                rec.script.features = VIRTIO_F_PROTOCOL_FEATURES | 3;
                rec.script.proto = PF_ALL_DEFINED;
                rec.ret_file = Some(res.ret.try_clone().unwrap());
                let sess = RawSession::new(rec);
                sess.negotiate(if pf_acked { VIRTIO_F_PROTOCOL_FEATURES | 3 } else { 3 }, s);
                let (r, _got) = sess.roundtrip(&req.bytes(F_VERSION), &req.raw_fds(res));
                let log = sess.server.rec.lock().unwrap().log.clone();
                rep.evaluations += 1;
                rep.transitions += 1;
                let allowed = if req.code == SET_VRING_ENABLE { pf_acked } else { server_gate(req.code).map(|g| s & g != 0).unwrap_or(true) };
                let ctx = json!({"check":"C07","part":"subsets_server","mask":mask,"pf_acked":pf_acked,"req":req.name()});
                if allowed {
                    if log.len() != 1 {
                        rep.violation(&format!("C07:server:{}:rejected-although-negotiated", frontend_req_name(req.code)), &format!("{}: handler calls {} result {:?}", req.name(), log.len(), r), ctx);
                    } else {
                        rep.outcome("srv:gated-op-dispatched");
                    }
                } else if !log.is_empty() || r.is_ok() {
                    rep.outcome("srv:ungated-dispatch");
                    rep.violation(&format!("C07:server:{}:not-rejected", frontend_req_name(req.code)), &format!("{}: handler calls {} result {:?} although the feature was not acknowledged", req.name(), log.len(), r), ctx);
                } else {
                    rep.outcome("srv:rejected-without-handler");
                    rep.nontrivial += 1;
                }
            }
        }
    }
}

// ---- (b) negotiation histories on the frontend endpoint --------------------------------------

#[derive(Clone, Debug)]
enum HOp {
    GetFeatures(u64),
    SetFeatures(u64),
    GetProto,
    SetProto(u64),
    Gated(FeOp),
}

#[derive(Clone, Debug, Default)]
struct FeModel {
    offered: u64,
    acked_virtio: u64,
    acked_proto: u64,
}

struct FeSys {
    f: FeRaw,
    m: FeModel,
}

fn h_alphabet() -> Vec<HOp> {
    let mut v = vec![HOp::GetFeatures(3), HOp::GetFeatures(VIRTIO_F_PROTOCOL_FEATURES | 3), HOp::SetFeatures(3), HOp::SetFeatures(VIRTIO_F_PROTOCOL_FEATURES | 3), HOp::GetProto, HOp::SetProto(0), HOp::SetProto(PF_ALL_DEFINED)];
    for g in GATES {
        v.push(HOp::SetProto(g));
    }
    v.push(HOp::SetProto(PF_ALL_DEFINED & !PF_CONFIG));
    v.push(HOp::SetProto(PF_ALL_DEFINED & !PF_REPLY_ACK));
    for o in gated_fe_ops() {
        v.push(HOp::Gated(o));
    }
    v
}

fn h_step(sys: &mut FeSys, op: &HOp, hist: &[usize], check: bool, rep: &mut Report, res: &Resources, ops: &[HOp]) -> String {
    let script = Script { queue_num: 256, ..Default::default() };
    let (feop, allowed) = match op {
        HOp::GetFeatures(_) => (FeOp::GetFeatures, true),
        HOp::SetFeatures(v) => (FeOp::SetFeatures(*v), true),
        HOp::GetProto => (FeOp::GetProtocolFeatures, sys.m.offered & VIRTIO_F_PROTOCOL_FEATURES != 0),
        HOp::SetProto(v) => (FeOp::SetProtocolFeatures(*v), sys.m.offered & VIRTIO_F_PROTOCOL_FEATURES != 0),
        HOp::Gated(o) => (
            o.clone(),
            match o {
                FeOp::SetVringEnable(..) => sys.m.acked_virtio & VIRTIO_F_PROTOCOL_FEATURES != 0,
                _ => o.gate().map(|g| sys.m.acked_proto & g != 0).unwrap_or(true),
            },
        ),
    };
    let sc = match op {
        HOp::GetFeatures(v) => Script { features: *v, ..script.clone() },
        _ => Script { proto: PF_ALL_DEFINED, ..script.clone() },
    };
    let (r, w, hang) = fe_call(&mut sys.f, &feop, res, &sc);
    if allowed {
        match op {
            HOp::GetFeatures(v) => sys.m.offered = *v,
            HOp::SetFeatures(v) => sys.m.acked_virtio = *v & sys.m.offered,
            HOp::SetProto(v) => sys.m.acked_proto = *v,
            _ => {}
        }
    }
    let out = format!("{}:{}:{}", feop.name(), if w.bytes.is_empty() { "silent" } else { "sent" }, if r.is_ok() { "Ok" } else { "Err" });
    if check {
        let ctx = json!({"check":"C07","part":"histories_frontend","history": hist.iter().map(|i| format!("{:?}", ops[*i])).collect::<Vec<_>>(), "op": format!("{op:?}"), "model": format!("{:?}", sys.m)});
        if hang {
            rep.violation(&format!("C07:frontend:{}:hang", feop.name()), "call waits forever", ctx.clone());
        }
        match op {
            HOp::GetFeatures(_) | HOp::SetFeatures(_) => {
                rep.evaluations += 1;
                rep.transitions += 1;
            }
            _ => judge_fe(rep, &feop, allowed, &r, &w, ctx),
        }
    }
    out
}

fn histories_frontend(rep: &mut Report, res: &Resources, thorough: bool) {
    let ops = h_alphabet();
    let fresh = || FeSys { f: FeRaw::new(256), m: FeModel::default() };
    let stepf = |s: &mut FeSys, oi: usize, hist: &[usize], check: bool, rep: &mut Report| h_step(s, &ops[oi], hist, check, rep, res, &ops);
    let keyf = |s: &FeSys| format!("{}|{}|{:#x}", s.m.offered & VIRTIO_F_PROTOCOL_FEATURES != 0, s.m.acked_virtio & VIRTIO_F_PROTOCOL_FEATURES != 0, s.m.acked_proto);
    let st = bfs(ops.len(), &fresh, &stepf, &keyf, if thorough { 8 } else { 5 }, if thorough { 120.0 } else { 25.0 }, true, rep);
    rep.states += st.states;
    rep.extra.insert("fe_history_alphabet".into(), json!(ops.len()));
    rep.extra.insert("fe_history_states".into(), json!(st.states));
    rep.extra.insert("fe_history_depth".into(), json!(st.depth_completed));
    rep.extra.insert("fe_history_closure".into(), json!(st.closed));
    let st2 = bfs(ops.len(), &fresh, &stepf, &keyf, 2, 20.0, false, rep);
    rep.extra.insert("fe_history_no_dedup_depth".into(), json!(st2.depth_completed));
    if !(st.closed && !st.capped) {
        rep.caps.push("frontend negotiation histories: closure not reached within the depth bound".into());
    }
}

fn proxy_flags(rep: &mut Report, res: &Resources) {
    for flags in 0..8u32 {
        for op in bp_ops_basic() {
            let (a, b) = UnixStream::pair().unwrap();
            let fd = a.as_raw_fd();
            let p = Backend::from_stream(a);
            p.set_reply_ack_flag(flags & 1 != 0);
            p.set_shared_object_flag(flags & 2 != 0);
            p.set_shmem_flag(flags & 4 != 0);
            let raw = RawScript::attach(fd, b);
            raw.queue(&op.ack(0), &[], &[]);
            let r = invoke_bp(&p, &op, res);
            let w = raw.take_written();
            rep.evaluations += 1;
            rep.transitions += 1;
            let allowed = if op.is_shmem() { flags & 4 != 0 } else { flags & 2 != 0 };
            let ctx = json!({"check":"C07","part":"proxy","flags":flags,"op":format!("{op:?}")});
            if allowed {
                if w.bytes.is_empty() || r.is_err() {
                    rep.violation(&format!("C07:proxy:{}:refused-although-enabled", op.name()), &format!("{:?}", r), ctx);
                } else {
                    rep.outcome("proxy:sent");
                }
            } else if !w.bytes.is_empty() || r.is_ok() {
                rep.violation(&format!("C07:proxy:{}:not-refused", op.name()), &format!("{} bytes written, result {:?}", w.bytes.len(), r), ctx);
            } else {
                rep.outcome("proxy:refused");
                rep.nontrivial += 1;
            }
        }
    }
}

fn reply_ack_always_offered(rep: &mut Report, res: &Resources) {
    // "irrespective of the device's own feature set": the device's protocol features x its virtio
    // features (with and without bit 30) x what preceded the question on this connection
    for dev in [0u64, PF_ALL_DEFINED & !PF_REPLY_ACK, PF_ALL_DEFINED, PF_MQ, 1 << 40] {
        for vf in [VIRTIO_F_PROTOCOL_FEATURES, 0u64, 3, VIRTIO_F_PROTOCOL_FEATURES | 3] {
            // 0: first message of the connection, 1: after GET_FEATURES, 2: after GET_FEATURES and
            // SET_FEATURES(everything offered), 3: after SET_FEATURES(0), 4: asked a second time
            for before in 0..5u8 {
                let mut rec = Recorder::new();
                rec.script.features = vf;
                rec.script.proto = dev;
                let sess = RawSession::new(rec);
                if before == 1 || before == 2 {
                    let (_, _) = sess.roundtrip(&message(GET_FEATURES, F_VERSION, &[]), &[]);
                }
                if before == 2 {
                    let (_, _) = sess.roundtrip(&message(SET_FEATURES, F_VERSION, &vf.to_ne_bytes()), &[]);
                }
                if before == 3 {
                    let (_, _) = sess.roundtrip(&message(SET_FEATURES, F_VERSION, &0u64.to_ne_bytes()), &[]);
                }
                if before == 4 {
                    let (_, _) = sess.roundtrip(&message(GET_PROTOCOL_FEATURES, F_VERSION, &[]), &[]);
                }
                let (r, got) = sess.roundtrip(&message(GET_PROTOCOL_FEATURES, F_VERSION, &[]), &[]);
                rep.evaluations += 1;
                let ok = r.is_ok() && got.bytes.len() == 20 && rd64(&got.bytes, 12) & PF_REPLY_ACK != 0 && rd64(&got.bytes, 12) & !PF_REPLY_ACK == dev & !PF_REPLY_ACK & PF_ALL_DEFINED | (rd64(&got.bytes, 12) & !PF_ALL_DEFINED);
                if !ok {
                    rep.violation("C07:server:reply_ack-not-offered", &format!("device protocol features {dev:#x}, virtio features {vf:#x}, preceding exchange {before}: GET_PROTOCOL_FEATURES answered {:02x?} ({r:?})", got.bytes), json!({"check":"C07","part":"offer","dev":dev,"vf":vf,"before":before}));
                } else {
                    rep.outcome("srv:reply_ack-offered");
                    rep.nontrivial_key(&format!("offer/{dev:x}/{vf:x}/{before}"));
                }
            }
        }
    }
    let _ = res;
}

pub fn run(rep: &mut Report) {
    let thorough = rep.is_thorough();
    coop::enable();
    let res = Resources::new();
    let masks: Vec<u32> = (0..(1u32 << GATES.len())).collect();
    subsets_frontend(rep, &res, &masks);
    let srv_masks: Vec<u32> = if thorough { masks.clone() } else { masks.iter().cloned().filter(|m| m.count_ones() <= 2 || m.count_ones() >= 9 || m % 37 == 0).collect() };
    subsets_server(rep, &res, &srv_masks);
    histories_frontend(rep, &res, thorough);
    proxy_flags(rep, &res);
    reply_ack_always_offered(rep, &res);
    coop::disable();
    rep.traces = rep.evaluations;
    rep.exhaustive = true;
    rep.extra.insert("frontend_subsets".into(), json!(masks.len()));
    rep.extra.insert("server_subsets".into(), json!(srv_masks.len()));
    rep.sample(json!({"part":"subsets_frontend","mask":"0b00000000101","acked":["MQ","CONFIG"],"op":"GetQueueNum","expect":"sent"}));
    rep.sample(json!({"part":"subsets_frontend","mask":"0b00000000101","op":"ResetDevice","expect":"refused, nothing written"}));
    rep.sample(json!({"part":"histories_frontend","history":["GetFeatures(3)","SetProto(all)"],"expect":"refused: PROTOCOL_FEATURES never offered"}));
    rep.rule = "(a) all 2^11 subsets of the gating protocol bits acknowledged after a standard negotiation x every gated operation on the frontend endpoint (all subsets) and every gated request on the backend server (all subsets at thorough; popcount<=2, >=9 and every 37th at quick; also with bit 30 not acknowledged); (b) BFS to closure over negotiation histories {GET_FEATURES answers, SET_FEATURES, GET/SET_PROTOCOL_FEATURES with 0/each single bit/all/all-minus-one, every gated op} on the frontend endpoint (server-side histories: C04); (c) 8 flag combinations x 5 proxy requests; (d) GET_PROTOCOL_FEATURES for 5 device protocol-feature sets x 4 device virtio-feature sets (with / without bit 30) x 5 preceding exchanges (none, GET_FEATURES, + SET_FEATURES(all), SET_FEATURES(0), asked twice). Non-trivial = evaluations in which an operation had to be refused and nothing may reach the wire / the handler".into();
    rep.assumptions.push("'log shmfd' is read as 'no descriptor-carrying SET_LOG_BASE before LOG_SHMFD is acknowledged' (the API falls back to the plain form)".into());
    rep.assumptions.push("'acknowledged' = the value the frontend sent in SET_(PROTOCOL_)FEATURES on this connection, whether or not the backend's handler accepted it".into());
}

pub fn replay(case: &Value, rep: &mut Report) {
    println!("replay C07 by re-running the quick enumeration; case: {case}");
    run(rep);
}
