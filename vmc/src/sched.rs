//! E2 `sched`: stateless exploration of thread interleavings of the real code (CHESS style).
//!
//! Real OS threads are serialised by a controller: exactly one participant runs between two
//! scheduling points (libc-level calls intercepted by `sysshim`, the library's lock / atomic
//! hooks, and harness `User` points). Environment actors (guest, raw frontend, shutdown callers
//! written as scripts) are executed atomically by the explorer thread itself. Schedules are
//! enumerated depth-first by replaying a choice prefix and then always taking the first choice
//! (keep running the current actor), charging one preemption whenever the explorer switches away
//! from an actor that is still enabled; the bound is iterated 0,1,2,...

use crate::report::Report;
use crate::sysshim::{self, Point, SchedHook};
use std::collections::{BTreeSet, HashMap};
use std::sync::{Arc, Condvar, Mutex};
use std::time::{Duration, Instant};

#[derive(Clone, Debug, PartialEq)]
pub enum PState {
    Running,
    Parked,
    Exited,
    /// blocked inside the kernel on something the controller does not own (a lock, a join)
    Blocked,
}

pub struct Part {
    pub name: String,
    pub tid: i32,
    pub state: PState,
    pub point: Option<Point>,
    ready: Option<*const (dyn Fn() -> bool + 'static)>,
    pub steps: u64,
}

// SAFETY: the raw closure pointer is only dereferenced while its owner thread is parked inside
// `point()`, where the closure is alive on that thread's stack.
unsafe impl Send for Part {}

#[derive(Default)]
pub struct Inner {
    pub parts: Vec<Part>,
    by_tid: HashMap<i32, usize>,
    name_count: HashMap<String, usize>,
    granted: Option<usize>,
    active: bool,
}

pub struct Ctl {
    inner: Mutex<Inner>,
    cv: Condvar,
}

fn gettid() -> i32 {
    // SAFETY: plain syscall.
    unsafe { libc::syscall(libc::SYS_gettid) as i32 }
}

fn thread_alive(tid: i32) -> bool {
    std::path::Path::new(&format!("/proc/self/task/{tid}")).exists()
}

/// (state letter, current syscall number, first syscall argument) of a thread of this process
fn thread_kstate(tid: i32) -> (char, i64, u64) {
    let st = std::fs::read_to_string(format!("/proc/self/task/{tid}/stat")).unwrap_or_default();
    let state = st.rsplit(')').next().and_then(|r| r.trim().chars().next()).unwrap_or('?');
    let sc = std::fs::read_to_string(format!("/proc/self/task/{tid}/syscall")).unwrap_or_default();
    let mut it = sc.split_whitespace();
    let nr = it.next().and_then(|t| t.parse::<i64>().ok()).unwrap_or(-1);
    let a0 = it.next().and_then(|t| u64::from_str_radix(t.trim_start_matches("0x"), 16).ok()).unwrap_or(0);
    (state, nr, a0)
}

impl SchedHook for Ctl {
    fn point(&self, p: Point, ready: &dyn Fn() -> bool) {
        let tid = gettid();
        let mut g = self.inner.lock().unwrap();
        if !g.active {
            return;
        }
        let idx = match g.by_tid.get(&tid) {
            Some(i) => *i,
            None => {
                let base = std::thread::current().name().unwrap_or("thread").to_string();
                let n = g.name_count.entry(base.clone()).or_insert(0);
                let name = format!("{base}#{n}");
                *n += 1;
                let i = g.parts.len();
                g.parts.push(Part { name, tid, state: PState::Running, point: None, ready: None, steps: 0 });
                g.by_tid.insert(tid, i);
                i
            }
        };
        // SAFETY: lifetime erasure; see the Send impl above.
        let rp: *const (dyn Fn() -> bool + 'static) = unsafe { std::mem::transmute::<*const (dyn Fn() -> bool + '_), *const (dyn Fn() -> bool + 'static)>(ready as *const _) };
        g.parts[idx].state = PState::Parked;
        g.parts[idx].point = Some(p);
        g.parts[idx].ready = Some(rp);
        self.cv.notify_all();
        while g.active && g.granted != Some(idx) {
            g = self.cv.wait(g).unwrap();
        }
        if g.granted == Some(idx) {
            g.granted = None;
        }
        g.parts[idx].state = PState::Running;
        g.parts[idx].ready = None;
        g.parts[idx].steps += 1;
    }

    fn release(&self) {
        self.deactivate();
    }
}

impl Ctl {
    pub fn new() -> Arc<Ctl> {
        Arc::new(Ctl { inner: Mutex::new(Inner::default()), cv: Condvar::new() })
    }

    pub fn activate(self: &Arc<Self>) {
        {
            let mut g = self.inner.lock().unwrap();
            *g = Inner::default();
            g.active = true;
        }
        sysshim::set_exempt(true);
        sysshim::sched_install(self.clone());
    }

    /// Switch the controller off: every parked participant continues freely (teardown).
    pub fn deactivate(&self) {
        let mut g = self.inner.lock().unwrap();
        g.active = false;
        self.cv.notify_all();
        drop(g);
        sysshim::sched_remove();
    }

    /// Mark the calling (harness-spawned) thread as finished.
    pub fn exited(&self) {
        let tid = gettid();
        let mut g = self.inner.lock().unwrap();
        if let Some(i) = g.by_tid.get(&tid).cloned() {
            g.parts[i].state = PState::Exited;
            g.parts[i].point = None;
        }
        self.cv.notify_all();
    }

    /// Wait until at least `expected` participants exist and none is running. Returns Err on a
    /// participant that neither parks, exits nor blocks (machinery failure).
    pub fn quiesce(&self, expected: usize) -> Result<(), String> {
        let start = Instant::now();
        let mut g = self.inner.lock().unwrap();
        let mut suspicious: HashMap<usize, u32> = HashMap::new();
        loop {
            let running: Vec<usize> = g.parts.iter().enumerate().filter(|(_, p)| p.state == PState::Running).map(|(i, _)| i).collect();
            if running.is_empty() && g.parts.len() >= expected && g.granted.is_none() {
                return Ok(());
            }
            let (ng, to) = self.cv.wait_timeout(g, Duration::from_micros(300)).unwrap();
            g = ng;
            if to.timed_out() {
                // sample the kernel state of the running participants WITHOUT holding the controller's
                // lock: a participant that is merely waiting for that lock (to park or to report its
                // exit) must not be mistaken for one blocked inside the library
                let tids: Vec<(usize, i32)> = running.iter().filter(|i| g.parts[**i].state == PState::Running).map(|i| (*i, g.parts[*i].tid)).collect();
                drop(g);
                let own = &self.inner as *const _ as u64;
                let samples: Vec<(usize, bool, char, i64, u64)> = tids.iter().map(|(i, tid)| {
                    let alive = thread_alive(*tid);
                    let (st, nr, a0) = if alive { thread_kstate(*tid) } else { ('?', -1, 0) };
                    (*i, alive, st, nr, a0)
                }).collect();
                g = self.inner.lock().unwrap();
                for (i, alive, st, nr, a0) in samples {
                    if g.parts[i].state != PState::Running {
                        continue;
                    }
                    if !alive {
                        g.parts[i].state = PState::Exited;
                        g.parts[i].point = None;
                        continue;
                    }
                    // 202 = futex (x86-64): waiting for a lock / join we do not control - unless it is
                    // the controller's own mutex (futex word inside `self.inner`)
                    let on_own_lock = a0 >= own && a0 < own + 64;
                    if st == 'S' && (nr == 202 || nr == 449) && !on_own_lock {
                        let c = suspicious.entry(i).or_insert(0);
                        *c += 1;
                        if *c >= 6 {
                            g.parts[i].state = PState::Blocked;
                        }
                    } else {
                        suspicious.remove(&i);
                    }
                }
                if start.elapsed() > Duration::from_secs(10) {
                    let d: Vec<String> = g.parts.iter().map(|p| format!("{}:{:?}:{:?}", p.name, p.state, p.point)).collect();
                    return Err(format!("participants did not quiesce within 10 s (expected {expected}): {d:?}"));
                }
            }
        }
    }

    /// Blocked participants may have become runnable after somebody else's step: give them a
    /// moment to reach their next point (they run uncontrolled only between a lock release and
    /// their next scheduling point).
    pub fn recheck_blocked(&self) {
        let mut g = self.inner.lock().unwrap();
        let blocked: Vec<usize> = g.parts.iter().enumerate().filter(|(_, p)| p.state == PState::Blocked).map(|(i, _)| i).collect();
        if blocked.is_empty() {
            return;
        }
        for i in blocked {
            let tid = g.parts[i].tid;
            let mut still = 0;
            for _ in 0..6 {
                if g.parts[i].state != PState::Blocked {
                    break;
                }
                if !thread_alive(tid) {
                    g.parts[i].state = PState::Exited;
                    break;
                }
                let (st, nr, _) = thread_kstate(tid);
                if st == 'S' && (nr == 202 || nr == 449) {
                    still += 1;
                    if still >= 3 {
                        break;
                    }
                } else {
                    // it moved: wait for it to park
                    g.parts[i].state = PState::Running;
                    let (ng, _) = self.cv.wait_timeout(g, Duration::from_millis(2)).unwrap();
                    g = ng;
                    if g.parts[i].state == PState::Running {
                        // still on its way; let quiesce() sort it out
                        break;
                    }
                }
                let (ng, _) = self.cv.wait_timeout(g, Duration::from_micros(200)).unwrap();
                g = ng;
            }
        }
    }

    /// Indices of parked participants whose operation can complete now.
    pub fn enabled(&self) -> Vec<usize> {
        let g = self.inner.lock().unwrap();
        let mut v = Vec::new();
        for (i, p) in g.parts.iter().enumerate() {
            if p.state == PState::Parked {
                let ok = match p.ready {
                    // SAFETY: owner thread is parked inside point(); closure alive.
                    Some(r) => unsafe { (*r)() },
                    None => true,
                };
                if ok {
                    v.push(i);
                }
            }
        }
        v
    }

    pub fn grant(&self, i: usize) {
        let mut g = self.inner.lock().unwrap();
        g.granted = Some(i);
        g.parts[i].state = PState::Running;
        self.cv.notify_all();
    }

    pub fn snapshot(&self) -> Vec<(String, PState, Option<Point>, u64)> {
        let g = self.inner.lock().unwrap();
        g.parts.iter().map(|p| (p.name.clone(), p.state.clone(), p.point.clone(), p.steps)).collect()
    }

    pub fn index_of(&self, name: &str) -> Option<usize> {
        self.inner.lock().unwrap().parts.iter().position(|p| p.name == name)
    }
}

// ------------------------------------------------------------------------------------------------
// scenarios and the explorer

#[derive(Clone, Debug, PartialEq)]
pub enum Actor {
    /// library / harness thread, by participant name
    Thread(String),
    /// environment actor, by index
    Env(usize),
}

pub struct StepInfo {
    pub actor: Actor,
    /// for threads: the point the thread was parked at when it was granted
    pub point: Option<Point>,
    pub label: String,
}

pub trait Scenario {
    type S;
    fn name(&self) -> String;
    /// Build the system with the controller already active; run the deterministic set-up prefix
    /// through `x.run_quiet()`.
    fn setup(&self, x: &mut Exec) -> Result<Self::S, String>;
    /// Names of the environment actors.
    fn env_names(&self) -> Vec<String>;
    /// Is environment actor `i` able to take its next step?
    fn env_enabled(&self, s: &Self::S, i: usize) -> bool;
    /// Perform the next step of environment actor `i`; returns a label for the trace.
    fn env_step(&self, s: &mut Self::S, i: usize, x: &mut Exec) -> String;
    /// Called after every step of the branching phase (oracle on states).
    fn after_step(&self, s: &mut Self::S, info: &StepInfo, x: &mut Exec);
    /// Called when no actor is enabled any more (or the horizon was hit). `x.ctl` is still active.
    fn finish(&self, s: &mut Self::S, x: &mut Exec);
    /// Tear the system down (controller already switched off).
    fn teardown(&self, s: Self::S);
    fn expected_threads(&self) -> usize;
}

#[derive(Clone, Debug)]
pub struct Decision {
    pub n: usize,
    pub chosen: usize,
    pub cur_enabled: bool,
    pub labels: Vec<String>,
}

pub struct Exec {
    pub ctl: Arc<Ctl>,
    pub trace: Vec<String>,
    pub violations: Vec<(String, String)>,
    pub fingerprints: BTreeSet<String>,
    pub steps: u64,
    pub machinery: Option<String>,
    pub expected: usize,
    /// threads that were still enabled at the end but only spinning (livelock)
    pub spinners: Vec<String>,
}

impl Exec {
    pub fn violation(&mut self, sig: &str, what: &str) {
        self.violations.push((sig.to_string(), what.to_string()));
    }

    /// Deterministic mode: run every enabled thread (lowest name first) until none is enabled.
    pub fn run_quiet(&mut self) -> Result<(), String> {
        let mut guard = 0;
        loop {
            self.ctl.quiesce(self.expected)?;
            let en = self.ctl.enabled();
            if en.is_empty() {
                return Ok(());
            }
            // canonical: lowest participant name
            let snap = self.ctl.snapshot();
            let pick = *en.iter().min_by_key(|i| snap[**i].0.clone()).unwrap();
            self.ctl.grant(pick);
            self.ctl.quiesce(self.expected)?;
            self.ctl.recheck_blocked();
            guard += 1;
            if guard > 20_000 {
                return Err("set-up prefix did not quiesce within 20000 steps (livelock?)".into());
            }
        }
    }
}

pub struct RunResult {
    pub decisions: Vec<Decision>,
    pub trace: Vec<String>,
    pub violations: Vec<(String, String)>,
    pub fingerprints: BTreeSet<String>,
    pub steps: u64,
    pub horizon_hit: bool,
    pub preemptions: usize,
}

/// Execute one schedule: follow `prefix`, then always choice 0.
pub fn run_schedule<Sc: Scenario>(sc: &Sc, prefix: &[usize], horizon: usize) -> Result<RunResult, String> {
    let ctl = Ctl::new();
    ctl.activate();
    let mut x = Exec { ctl: ctl.clone(), trace: vec![], violations: vec![], fingerprints: BTreeSet::new(), steps: 0, machinery: None, expected: sc.expected_threads(), spinners: vec![] };
    let mut s = match sc.setup(&mut x) {
        Ok(s) => s,
        Err(e) => {
            ctl.deactivate();
            return Err(format!("setup failed: {e}"));
        }
    };
    let envs = sc.env_names();
    let mut decisions: Vec<Decision> = Vec::new();
    let mut current: Option<Actor> = None;
    let mut horizon_hit = false;
    let mut preemptions = 0;
    // fairness: a thread that went round its epoll loop without anybody else taking a step in
    // between is treated as yielding until another actor has moved
    let mut epoll_iters: HashMap<String, u32> = HashMap::new();
    let res: Result<(), String> = (|| {
        loop {
            ctl.quiesce(x.expected)?;
            ctl.recheck_blocked();
            ctl.quiesce(x.expected)?;
            let snap = ctl.snapshot();
            let en_threads = ctl.enabled();
            let mut names: Vec<(String, usize)> = en_threads.iter().map(|i| (snap[*i].0.clone(), *i)).collect();
            names.sort();
            let yielded: Vec<String> = names.iter().filter(|(n, i)| matches!(snap[*i].2, Some(Point::EpollWait(_))) && epoll_iters.get(n).cloned().unwrap_or(0) >= 2).map(|(n, _)| n.clone()).collect();
            names.retain(|(n, _)| !yielded.contains(n));
            let mut choices: Vec<Actor> = Vec::new();
            let mut cur_enabled = false;
            if let Some(c) = &current {
                let en = match c {
                    Actor::Thread(n) => names.iter().any(|(m, _)| m == n),
                    Actor::Env(i) => sc.env_enabled(&s, *i),
                };
                if en {
                    choices.push(c.clone());
                    cur_enabled = true;
                }
            }
            for (n, _) in &names {
                let a = Actor::Thread(n.clone());
                if !choices.contains(&a) {
                    choices.push(a);
                }
            }
            for i in 0..envs.len() {
                let a = Actor::Env(i);
                if sc.env_enabled(&s, i) && !choices.contains(&a) {
                    choices.push(a);
                }
            }
            if choices.is_empty() {
                x.spinners = yielded;
                return Ok(());
            }
            if decisions.len() >= horizon {
                horizon_hit = true;
                return Ok(());
            }
            let k = decisions.len();
            let pick = if k < prefix.len() { prefix[k] } else { 0 };
            if pick >= choices.len() {
                return Err(format!("replay divergence: decision {k} has {} choices, schedule asks for {pick}", choices.len()));
            }
            if cur_enabled && pick != 0 {
                preemptions += 1;
            }
            let labels: Vec<String> = choices
                .iter()
                .map(|c| match c {
                    Actor::Thread(n) => n.clone(),
                    Actor::Env(i) => envs[*i].clone(),
                })
                .collect();
            decisions.push(Decision { n: choices.len(), chosen: pick, cur_enabled, labels });
            let actor = choices[pick].clone();
            let info = match &actor {
                Actor::Thread(n) => {
                    let idx = names.iter().find(|(m, _)| m == n).unwrap().1;
                    let pt = snap[idx].2.clone();
                    if matches!(pt, Some(Point::EpollWait(_))) {
                        *epoll_iters.entry(n.clone()).or_insert(0) += 1;
                    }
                    for (k, v) in epoll_iters.iter_mut() {
                        if k != n {
                            *v = 0;
                        }
                    }
                    ctl.grant(idx);
                    ctl.quiesce(x.expected)?;
                    StepInfo { actor: actor.clone(), point: pt.clone(), label: format!("{n}:{}", point_label(&pt)) }
                }
                Actor::Env(i) => {
                    for v in epoll_iters.values_mut() {
                        *v = 0;
                    }
                    let l = sc.env_step(&mut s, *i, &mut x);
                    StepInfo { actor: actor.clone(), point: None, label: format!("{}:{l}", envs[*i]) }
                }
            };
            x.steps += 1;
            x.trace.push(info.label.clone());
            sc.after_step(&mut s, &info, &mut x);
            // per-participant progress counters only: when a thread that waits in the kernel (a join, a
            // lock) is recognised as blocked or as exited is a matter of timing
            let mut fp: Vec<String> = ctl.snapshot().iter().map(|p| format!("{}@{}", p.0, p.3)).collect();
            fp.sort(); // registration order of the participants is not deterministic
            x.fingerprints.insert(format!("{}|{}", fp.join(","), x.trace.len()));
            current = Some(actor);
        }
    })();
    if let Err(e) = res {
        ctl.deactivate();
        sc.teardown(s);
        return Err(e);
    }
    sc.finish(&mut s, &mut x);
    ctl.deactivate();
    sc.teardown(s);
    Ok(RunResult { decisions, trace: x.trace, violations: x.violations, fingerprints: x.fingerprints, steps: x.steps, horizon_hit, preemptions })
}

pub fn point_label(p: &Option<Point>) -> String {
    match p {
        Some(Point::Recv(_)) => "recvmsg".into(),
        Some(Point::Send(_)) => "sendmsg".into(),
        Some(Point::EpollWait(_)) => "epoll_wait".into(),
        Some(Point::EpollReturned(_, n)) => format!("epoll_returned({n})"),
        Some(Point::EpollCtl(_, op, _)) => format!("epoll_ctl({})", match *op {
            1 => "ADD",
            2 => "DEL",
            3 => "MOD",
            _ => "?",
        }),
        Some(Point::Shutdown(_)) => "shutdown".into(),
        Some(Point::Lock(s)) => format!("lock({s})"),
        Some(Point::Atomic(op, _)) => format!("atomic({op})"),
        Some(Point::User(s)) => s.to_string(),
        None => "-".into(),
    }
}

pub struct ExploreStats {
    pub schedules: u64,
    pub steps: u64,
    pub states: u64,
    pub by_preemptions: Vec<u64>,
    pub bound_completed: Option<usize>,
    pub capped: bool,
    pub horizon_hits: u64,
    pub outcomes: BTreeSet<String>,
}

/// The explorer lost control of an execution. Verdicts recorded before that stand (exit 1); without
/// any, the run is a machinery failure (exit 2).
fn machinery_exit(rep: &mut Report) -> ! {
    if rep.violations > 0 {
        eprintln!("note: the exploration was abandoned; {} violation instance(s) recorded before that stand", rep.violations);
        rep.caps.push("exploration abandoned after a machinery failure; earlier verdicts stand".into());
        rep.exhaustive = false;
        let code = rep.finish_mut();
        std::process::exit(code);
    }
    std::process::exit(2);
}

/// Iterated preemption-bounded DFS. Violations are reported through `rep` with a replayable
/// schedule; each violating schedule is re-executed once and must reproduce its trace.
#[allow(clippy::too_many_arguments)]
pub fn explore<Sc: Scenario>(sc: &Sc, max_bound: usize, horizon: usize, budget_s: f64, rep: &mut Report, prop: &str, outcome_of: &dyn Fn(&RunResult) -> String) -> ExploreStats {
    let start = Instant::now();
    let mut st = ExploreStats { schedules: 0, steps: 0, states: 0, by_preemptions: vec![0; max_bound + 1], bound_completed: None, capped: false, horizon_hits: 0, outcomes: BTreeSet::new() };
    let mut all_fp: BTreeSet<String> = BTreeSet::new();
    let mut reported: BTreeSet<String> = BTreeSet::new();
    for bound in 0..=max_bound {
        // DFS over schedules with at most `bound` preemptions; only those with exactly `bound`
        // are new at this iteration
        let mut stack: Vec<Vec<usize>> = vec![vec![]];
        let mut found = false;
        while let Some(prefix) = stack.pop() {
            if start.elapsed().as_secs_f64() > budget_s {
                st.capped = true;
                rep.caps.push(format!("{}: wall budget {budget_s}s hit at preemption bound {bound} after {} schedules (bounds below {bound} fully covered)", sc.name(), st.schedules));
                st.states = all_fp.len() as u64;
                return st;
            }
            // (a divergence while replaying a prefix is retried: recognising a thread that waits in the
            // kernel is timing based, and a heavily loaded machine can disturb a single execution; a
            // harness that really is non-deterministic fails all three attempts)
            let mut attempt = 0;
            let r = loop {
                match run_schedule(sc, &prefix, horizon) {
                    Ok(r) => break r,
                    Err(e) => {
                        attempt += 1;
                        if attempt >= 3 {
                            eprintln!("MACHINERY FAILURE: {} schedule {:?}: {e}", sc.name(), prefix);
                            machinery_exit(rep);
                        }
                    }
                }
            };
            // children: alternatives at decisions beyond the prefix
            let mut cost = 0usize;
            for (i, d) in r.decisions.iter().enumerate() {
                if i >= prefix.len() {
                    for alt in 1..d.n {
                        let c = cost + if d.cur_enabled { 1 } else { 0 };
                        if c <= bound {
                            let mut p: Vec<usize> = r.decisions[..i].iter().map(|d| d.chosen).collect();
                            p.push(alt);
                            stack.push(p);
                        }
                    }
                }
                if d.cur_enabled && d.chosen != 0 {
                    cost += 1;
                }
            }
            if r.preemptions != bound {
                continue; // already counted at a lower bound
            }
            st.schedules += 1;
            st.steps += r.steps;
            st.by_preemptions[bound] += 1;
            if r.horizon_hit {
                st.horizon_hits += 1;
            }
            for f in &r.fingerprints {
                all_fp.insert(f.clone());
            }
            rep.evaluations += 1;
            rep.transitions += r.steps;
            let oc = outcome_of(&r);
            st.outcomes.insert(oc.clone());
            rep.outcome(&format!("{}:{}", sc.name(), oc));
            if rep.samples.len() < 6 && (st.schedules == 1 || st.schedules == 7 || st.schedules == 40) {
                rep.sample(serde_json::json!({"scenario": sc.name(), "schedule": r.decisions.iter().map(|d| d.chosen).collect::<Vec<_>>(), "trace": r.trace, "preemptions": r.preemptions}));
            }
            // non-trivial = the schedule preempts a runnable thread at least once (it is not one of the
            // run-to-completion orders); schedules are distinct by construction
            if r.preemptions >= 1 {
                rep.nontrivial += 1;
            }
            if !r.violations.is_empty() {
                found = true;
                let sched: Vec<usize> = r.decisions.iter().map(|d| d.chosen).collect();
                for (sig, what) in &r.violations {
                    if reported.contains(sig) && reported.len() > 50 {
                        continue;
                    }
                    // determinism: the same schedule must reproduce the same trace
                    if !reported.contains(sig) {
                        // (up to three attempts: recognising a thread that waits in the kernel as blocked
                        // is timing based, and a machine under heavy load can disturb a single re-run)
                        let mut reproduced = false;
                        let mut last: Vec<String> = Vec::new();
                        for _ in 0..3 {
                            match run_schedule(sc, &sched, horizon) {
                                Ok(r2) if r2.trace == r.trace && r2.violations.iter().any(|(s, _)| s == sig) => {
                                    reproduced = true;
                                    break;
                                }
                                Ok(r2) => last = r2.trace,
                                Err(e) => last = vec![format!("re-execution failed: {e}")],
                            }
                        }
                        if !reproduced {
                            eprintln!("MACHINERY FAILURE: schedule {:?} of {} is not reproducible:\n first: {:?}\n again: {:?}", sched, sc.name(), r.trace, last);
                            machinery_exit(rep);
                        }
                        reported.insert(sig.clone());
                    }
                    rep.violation(sig, &format!("{what} [scenario {}, {} preemption(s), schedule {:?}]", sc.name(), r.preemptions, sched), serde_json::json!({"check": prop, "scenario": sc.name(), "schedule": sched, "trace": r.trace, "preemptions": r.preemptions}));
                }
            }
        }
        st.bound_completed = Some(bound);
        let _ = found;
    }
    st.states = all_fp.len() as u64;
    if let Ok(d) = std::env::var("VMC_DUMP_FP") {
        use std::io::Write;
        if let Ok(mut f) = std::fs::OpenOptions::new().create(true).append(true).open(d) {
            for x in &all_fp {
                let _ = writeln!(f, "{} {x}", sc.name());
            }
        }
    }
    st
}
