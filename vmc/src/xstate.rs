//! E1 `xstate`: replay-based explicit-state breadth-first search over real objects.
//!
//! A state is identified by the operation history that reaches it: every expansion builds a
//! fresh system, replays the history (any divergence from the outcomes recorded the first time is
//! a machinery error), applies one more operation to the implementation and to the reference
//! model (`step`, which also evaluates the oracle), and deduplicates on a canonical key.

use crate::report::Report;
use std::collections::HashMap;
use std::time::Instant;

pub struct BfsStats {
    pub states: u64,
    pub transitions: u64,
    pub depth_completed: usize,
    pub closed: bool,
    pub capped: bool,
    pub max_frontier: usize,
}

pub struct Node {
    pub hist: Vec<usize>,
    pub outs: Vec<String>,
}

/// `fresh()` builds the system; `step(sys, op_index, history_so_far, check, rep)` applies one
/// operation and returns its observable outcome digest (oracle evaluated only when `check`);
/// `key(sys)` is the canonical state key.
pub fn bfs<S>(
    n_ops: usize,
    fresh: &dyn Fn() -> S,
    step: &dyn Fn(&mut S, usize, &[usize], bool, &mut Report) -> String,
    key: &dyn Fn(&S) -> String,
    max_depth: usize,
    budget_s: f64,
    dedup: bool,
    rep: &mut Report,
) -> BfsStats {
    let start = Instant::now();
    let mut seen: HashMap<String, usize> = HashMap::new();
    let s0 = fresh();
    seen.insert(key(&s0), 0);
    drop(s0);
    let mut frontier = vec![Node { hist: vec![], outs: vec![] }];
    let mut stats = BfsStats { states: 1, transitions: 0, depth_completed: 0, closed: false, capped: false, max_frontier: 1 };
    for depth in 0..max_depth {
        let mut next: Vec<Node> = Vec::new();
        for node in frontier.iter() {
            for oi in 0..n_ops {
                if start.elapsed().as_secs_f64() > budget_s {
                    stats.capped = true;
                    rep.caps.push(format!("wall budget {budget_s}s hit at depth {depth} (fully covered below depth {depth})"));
                    return stats;
                }
                let mut sys = fresh();
                for (i, h) in node.hist.iter().enumerate() {
                    let o = step(&mut sys, *h, &node.hist[..i], false, rep);
                    if o != node.outs[i] {
                        eprintln!("MACHINERY FAILURE: replay divergence at step {i} of history {:?}: recorded {:?}, now {:?}", node.hist, node.outs[i], o);
                        std::process::exit(2);
                    }
                }
                let o = step(&mut sys, oi, &node.hist, true, rep);
                stats.transitions += 1;
                rep.outcome(&o);
                let k = if dedup { key(&sys) } else { format!("{:?}+{oi}", node.hist) };
                if !seen.contains_key(&k) {
                    seen.insert(k, depth + 1);
                    stats.states += 1;
                    let mut hist = node.hist.clone();
                    hist.push(oi);
                    let mut outs = node.outs.clone();
                    outs.push(o);
                    next.push(Node { hist, outs });
                }
            }
        }
        stats.depth_completed = depth + 1;
        stats.max_frontier = stats.max_frontier.max(next.len());
        if next.is_empty() {
            stats.closed = true;
            break;
        }
        frontier = next;
    }
    stats
}
