//! The frontend API as a finite alphabet of operations: invocation on the real `Frontend`,
//! the handler call the protocol prescribes for it, its gating feature, its reply kind.

#![allow(dead_code)]

use crate::rawpeer::{eventfd, ident, memfd};
use crate::recorder::{config_pattern, Call, Script};
use crate::spec;
use serde_json::{json, Value};
use std::os::unix::io::{AsRawFd, FromRawFd, OwnedFd, RawFd};
use std::os::unix::net::UnixStream;
use vhost::vhost_user::message::*;
use vhost::vhost_user::{Frontend, VhostUserFrontend};
use vhost::{VhostBackend, VhostUserDirtyLogRegion, VhostUserMemoryRegionInfo, VringConfigData};
use vm_memory::ByteValued;
use vmm_sys_util::eventfd::EventFd;

/// Descriptors used as call arguments; all distinct files so identity is exact.
pub struct Resources {
    pub mem: Vec<OwnedFd>,
    pub ev: Vec<EventFd>,
    pub sock: (UnixStream, UnixStream),
    pub pipe: (OwnedFd, OwnedFd),
    pub null: std::fs::File,
    pub ret: OwnedFd,
}

impl Resources {
    pub fn new() -> Self {
        let mut p = [0i32; 2];
        // SAFETY: pipe2 with a valid array.
        unsafe { assert_eq!(libc::pipe2(p.as_mut_ptr(), libc::O_CLOEXEC), 0) };
        Resources {
            mem: (0..4).map(|i| memfd(&format!("res{i}"), 0x4000)).collect(),
            ev: (0..3).map(|_| EventFd::new(libc::EFD_NONBLOCK).unwrap()).collect(),
            sock: UnixStream::pair().unwrap(),
            // SAFETY: descriptors just created by pipe2.
            pipe: unsafe { (OwnedFd::from_raw_fd(p[0]), OwnedFd::from_raw_fd(p[1])) },
            null: std::fs::File::open("/dev/null").unwrap(),
            ret: memfd("ret", 0x1000),
        }
    }
    /// descriptor "kinds" for the every-descriptor-kind sweep
    pub fn kind_fd(&self, k: usize) -> RawFd {
        match k % 5 {
            0 => self.mem[0].as_raw_fd(),
            1 => self.ev[0].as_raw_fd(),
            2 => self.sock.0.as_raw_fd(),
            3 => self.pipe.0.as_raw_fd(),
            _ => self.null.as_raw_fd(),
        }
    }
}

#[derive(Clone, Debug, PartialEq)]
pub enum FeOp {
    GetFeatures,
    SetFeatures(u64),
    SetOwner,
    ResetOwner,
    /// regions (gpa,size,user,offset, memfd index)
    SetMemTable(Vec<(u64, u64, u64, u64, usize)>),
    /// with shared-memory region (size, offset) or plain base
    SetLogBase(u64, Option<(u64, u64)>),
    SetLogFd,
    SetVringNum(usize, u16),
    /// q, flags, desc, used, avail, log
    SetVringAddr(usize, u32, u64, u64, u64, Option<u64>),
    SetVringBase(usize, u16),
    GetVringBase(usize),
    SetVringCall(usize),
    SetVringKick(usize),
    SetVringErr(usize),
    GetProtocolFeatures,
    SetProtocolFeatures(u64),
    GetQueueNum,
    ResetDevice,
    SetVringEnable(usize, bool),
    GetConfig(u32, u32, u32),
    /// offset, flags, payload length
    SetConfig(u32, u32, usize),
    SetBackendReqFd,
    GetSharedObject([u8; 16]),
    GetInflightFd(u64, u64, u16, u16),
    SetInflightFd(u64, u64, u16, u16),
    GetMaxMemSlots,
    AddMemRegion(u64, u64, u64, u64, usize),
    RemoveMemRegion(u64, u64, u64, u64),
    /// the same request issued with `mmap_handle: -1` (REM_MEM_REG carries no descriptor)
    RemoveMemRegionNoFd(u64, u64, u64, u64),
    GetShmemConfig,
    SetDeviceStateFd(u32),
    CheckDeviceState,
}

#[derive(Clone, Debug, PartialEq)]
pub enum FeRet {
    Unit,
    U64(u64),
    U32(u32),
    Config(u32, u32, u32, Vec<u8>),
    Inflight(u64, u64, u16, u16, (u64, u64)),
    File((u64, u64)),
    OptFile(Option<(u64, u64)>),
    Shmem(u32, Vec<u64>),
}

pub const UUID_A: [u8; 16] = [0x11, 0x22, 0x33, 0x44, 0x55, 0x66, 0x77, 0x88, 0x99, 0xaa, 0xbb, 0xcc, 0xdd, 0xee, 0xf0, 0x01];

impl FeOp {
    pub fn name(&self) -> &'static str {
        match self {
            FeOp::GetFeatures => "get_features",
            FeOp::SetFeatures(_) => "set_features",
            FeOp::SetOwner => "set_owner",
            FeOp::ResetOwner => "reset_owner",
            FeOp::SetMemTable(_) => "set_mem_table",
            FeOp::SetLogBase(..) => "set_log_base",
            FeOp::SetLogFd => "set_log_fd",
            FeOp::SetVringNum(..) => "set_vring_num",
            FeOp::SetVringAddr(..) => "set_vring_addr",
            FeOp::SetVringBase(..) => "set_vring_base",
            FeOp::GetVringBase(_) => "get_vring_base",
            FeOp::SetVringCall(_) => "set_vring_call",
            FeOp::SetVringKick(_) => "set_vring_kick",
            FeOp::SetVringErr(_) => "set_vring_err",
            FeOp::GetProtocolFeatures => "get_protocol_features",
            FeOp::SetProtocolFeatures(_) => "set_protocol_features",
            FeOp::GetQueueNum => "get_queue_num",
            FeOp::ResetDevice => "reset_device",
            FeOp::SetVringEnable(..) => "set_vring_enable",
            FeOp::GetConfig(..) => "get_config",
            FeOp::SetConfig(..) => "set_config",
            FeOp::SetBackendReqFd => "set_backend_req_fd",
            FeOp::GetSharedObject(_) => "get_shared_object",
            FeOp::GetInflightFd(..) => "get_inflight_fd",
            FeOp::SetInflightFd(..) => "set_inflight_fd",
            FeOp::GetMaxMemSlots => "get_max_mem_slots",
            FeOp::AddMemRegion(..) => "add_mem_region",
            FeOp::RemoveMemRegion(..) | FeOp::RemoveMemRegionNoFd(..) => "remove_mem_region",
            FeOp::GetShmemConfig => "get_shmem_config",
            FeOp::SetDeviceStateFd(_) => "set_device_state_fd",
            FeOp::CheckDeviceState => "check_device_state",
        }
    }

    pub fn json(&self) -> Value {
        json!(format!("{self:?}"))
    }

    /// Wire request code of the operation (specification numbers).
    pub fn code(&self) -> u32 {
        match self {
            FeOp::GetFeatures => spec::GET_FEATURES,
            FeOp::SetFeatures(_) => spec::SET_FEATURES,
            FeOp::SetOwner => spec::SET_OWNER,
            FeOp::ResetOwner => spec::RESET_OWNER,
            FeOp::SetMemTable(_) => spec::SET_MEM_TABLE,
            FeOp::SetLogBase(..) => spec::SET_LOG_BASE,
            FeOp::SetLogFd => spec::SET_LOG_FD,
            FeOp::SetVringNum(..) => spec::SET_VRING_NUM,
            FeOp::SetVringAddr(..) => spec::SET_VRING_ADDR,
            FeOp::SetVringBase(..) => spec::SET_VRING_BASE,
            FeOp::GetVringBase(_) => spec::GET_VRING_BASE,
            FeOp::SetVringCall(_) => spec::SET_VRING_CALL,
            FeOp::SetVringKick(_) => spec::SET_VRING_KICK,
            FeOp::SetVringErr(_) => spec::SET_VRING_ERR,
            FeOp::GetProtocolFeatures => spec::GET_PROTOCOL_FEATURES,
            FeOp::SetProtocolFeatures(_) => spec::SET_PROTOCOL_FEATURES,
            FeOp::GetQueueNum => spec::GET_QUEUE_NUM,
            FeOp::ResetDevice => spec::RESET_DEVICE,
            FeOp::SetVringEnable(..) => spec::SET_VRING_ENABLE,
            FeOp::GetConfig(..) => spec::GET_CONFIG,
            FeOp::SetConfig(..) => spec::SET_CONFIG,
            FeOp::SetBackendReqFd => spec::SET_BACKEND_REQ_FD,
            FeOp::GetSharedObject(_) => spec::GET_SHARED_OBJECT,
            FeOp::GetInflightFd(..) => spec::GET_INFLIGHT_FD,
            FeOp::SetInflightFd(..) => spec::SET_INFLIGHT_FD,
            FeOp::GetMaxMemSlots => spec::GET_MAX_MEM_SLOTS,
            FeOp::AddMemRegion(..) => spec::ADD_MEM_REG,
            FeOp::RemoveMemRegion(..) | FeOp::RemoveMemRegionNoFd(..) => spec::REM_MEM_REG,
            FeOp::GetShmemConfig => spec::GET_SHMEM_CONFIG,
            FeOp::SetDeviceStateFd(_) => spec::SET_DEVICE_STATE_FD,
            FeOp::CheckDeviceState => spec::CHECK_DEVICE_STATE,
        }
    }

    /// Protocol feature the specification ties the operation to (None = ungated).
    pub fn gate(&self) -> Option<u64> {
        match self {
            FeOp::GetQueueNum => Some(spec::PF_MQ),
            FeOp::GetConfig(..) | FeOp::SetConfig(..) => Some(spec::PF_CONFIG),
            FeOp::SetBackendReqFd => Some(spec::PF_BACKEND_REQ),
            FeOp::GetInflightFd(..) | FeOp::SetInflightFd(..) => Some(spec::PF_INFLIGHT_SHMFD),
            FeOp::GetMaxMemSlots | FeOp::AddMemRegion(..) | FeOp::RemoveMemRegion(..) | FeOp::RemoveMemRegionNoFd(..) => Some(spec::PF_CONFIGURE_MEM_SLOTS),
            FeOp::ResetDevice => Some(spec::PF_RESET_DEVICE),
            FeOp::GetSharedObject(_) => Some(spec::PF_SHARED_OBJECT),
            FeOp::GetShmemConfig => Some(spec::PF_SHMEM),
            FeOp::SetDeviceStateFd(_) | FeOp::CheckDeviceState => Some(spec::PF_DEVICE_STATE),
            FeOp::SetLogBase(_, Some(_)) => Some(spec::PF_LOG_SHMFD),
            _ => None,
        }
    }

    /// true if the operation has a defined reply (as opposed to an optional acknowledgement)
    pub fn has_reply(&self) -> bool {
        match self {
            FeOp::SetLogBase(_, Some(_)) => true,
            FeOp::SetLogBase(_, None) => false,
            _ => spec::reply_kind(self.code()) == spec::ReplyKind::Reply,
        }
    }

    /// The handler invocation the protocol prescribes for this call.
    pub fn expected_call(&self, res: &Resources) -> Option<Call> {
        let m = |i: usize| ident(res.mem[i % res.mem.len()].as_raw_fd());
        Some(match self {
            FeOp::GetFeatures => Call::new("get_features", vec![]),
            FeOp::SetFeatures(v) => Call::new("set_features", vec![*v]),
            FeOp::SetOwner => Call::new("set_owner", vec![]),
            FeOp::ResetOwner => Call::new("reset_owner", vec![]),
            FeOp::SetMemTable(rs) => {
                let mut c = Call::new("set_mem_table", vec![rs.len() as u64]);
                for r in rs {
                    c.a.extend_from_slice(&[r.0, r.1, r.2, r.3]);
                    c.files.push(m(r.4));
                }
                c
            }
            FeOp::SetLogBase(_, Some((s, o))) => {
                let mut c = Call::new("set_log_base", vec![*s, *o]);
                c.files.push(m(1));
                c
            }
            FeOp::SetLogBase(_, None) => return None,
            FeOp::SetLogFd => return None,
            FeOp::SetVringNum(q, n) => Call::new("set_vring_num", vec![*q as u64, *n as u64]),
            FeOp::SetVringAddr(q, f, d, u, a, l) => Call::new("set_vring_addr", vec![*q as u64, *f as u64, *d, *u, *a, l.unwrap_or(0)]),
            FeOp::SetVringBase(q, b) => Call::new("set_vring_base", vec![*q as u64, *b as u64]),
            FeOp::GetVringBase(q) => Call::new("get_vring_base", vec![*q as u64]),
            FeOp::SetVringCall(q) => {
                let mut c = Call::new("set_vring_call", vec![*q as u64]);
                c.files.push(ident(res.ev[0].as_raw_fd()));
                c
            }
            FeOp::SetVringKick(q) => {
                let mut c = Call::new("set_vring_kick", vec![*q as u64]);
                c.files.push(ident(res.ev[1].as_raw_fd()));
                c
            }
            FeOp::SetVringErr(q) => {
                let mut c = Call::new("set_vring_err", vec![*q as u64]);
                c.files.push(ident(res.ev[2].as_raw_fd()));
                c
            }
            FeOp::GetProtocolFeatures => Call::new("get_protocol_features", vec![]),
            FeOp::SetProtocolFeatures(v) => Call::new("set_protocol_features", vec![*v]),
            FeOp::GetQueueNum => Call::new("get_queue_num", vec![]),
            FeOp::ResetDevice => Call::new("reset_device", vec![]),
            FeOp::SetVringEnable(q, e) => Call::new("set_vring_enable", vec![*q as u64, *e as u64]),
            FeOp::GetConfig(o, s, f) => Call::new("get_config", vec![*o as u64, *s as u64, *f as u64]),
            FeOp::SetConfig(o, f, len) => {
                let mut c = Call::new("set_config", vec![*o as u64, *f as u64]);
                c.bytes = set_config_payload(*o, *len);
                c
            }
            FeOp::SetBackendReqFd => Call::new("set_backend_req_fd", vec![]),
            FeOp::GetSharedObject(u) => {
                let mut c = Call::new("get_shared_object", vec![]);
                c.bytes = u.to_vec();
                c
            }
            FeOp::GetInflightFd(a, b, c_, d) => Call::new("get_inflight_fd", vec![*a, *b, *c_ as u64, *d as u64]),
            FeOp::SetInflightFd(a, b, c_, d) => {
                let mut c = Call::new("set_inflight_fd", vec![*a, *b, *c_ as u64, *d as u64]);
                c.files.push(m(2));
                c
            }
            FeOp::GetMaxMemSlots => Call::new("get_max_mem_slots", vec![]),
            FeOp::AddMemRegion(g, s, u, o, i) => {
                let mut c = Call::new("add_mem_region", vec![*g, *s, *u, *o]);
                c.files.push(m(*i));
                c
            }
            FeOp::RemoveMemRegion(g, s, u, o) | FeOp::RemoveMemRegionNoFd(g, s, u, o) => Call::new("remove_mem_region", vec![*g, *s, *u, *o]),
            FeOp::GetShmemConfig => Call::new("get_shmem_config", vec![]),
            FeOp::SetDeviceStateFd(d) => {
                let mut c = Call::new("set_device_state_fd", vec![*d as u64, 0]);
                c.files.push(m(3));
                c
            }
            FeOp::CheckDeviceState => Call::new("check_device_state", vec![]),
        })
    }

    /// Value the call must return when the scripted handler succeeds.
    pub fn expected_ret(&self, s: &Script, res: &Resources) -> FeRet {
        let rid = ident(res.ret.as_raw_fd());
        match self {
            FeOp::GetFeatures => FeRet::U64(s.features),
            FeOp::GetProtocolFeatures => FeRet::U64((s.proto | spec::PF_REPLY_ACK) & spec::PF_ALL_DEFINED),
            FeOp::GetQueueNum => FeRet::U64(s.queue_num),
            FeOp::GetVringBase(_) => FeRet::U32(s.vring_base),
            FeOp::GetConfig(o, sz, f) => FeRet::Config(*o, *sz, *f, config_pattern(*o, *sz)),
            FeOp::GetInflightFd(..) => FeRet::Inflight(s.inflight.0, s.inflight.1, s.inflight.2, s.inflight.3, rid),
            FeOp::GetSharedObject(_) => FeRet::File(rid),
            FeOp::SetDeviceStateFd(_) => FeRet::OptFile(if s.state_returns_file { Some(rid) } else { None }),
            FeOp::GetShmemConfig => {
                let mut v = s.shmem.1.clone();
                v.resize(256, 0);
                FeRet::Shmem(s.shmem.0, v)
            }
            FeOp::GetMaxMemSlots => FeRet::U64(s.max_slots),
            _ => FeRet::Unit,
        }
    }
}

pub fn set_config_payload(offset: u32, len: usize) -> Vec<u8> {
    (0..len).map(|i| (offset as usize + i * 7 + 3) as u8).collect()
}

fn region_info(r: &(u64, u64, u64, u64, usize), res: &Resources) -> VhostUserMemoryRegionInfo {
    VhostUserMemoryRegionInfo {
        guest_phys_addr: r.0,
        memory_size: r.1,
        userspace_addr: r.2,
        mmap_offset: r.3,
        mmap_handle: res.mem[r.4 % res.mem.len()].as_raw_fd(),
    }
}

fn dup_owned(fd: RawFd) -> OwnedFd {
    // SAFETY: dup of a valid descriptor.
    let d = unsafe { libc::fcntl(fd, libc::F_DUPFD_CLOEXEC, 3) };
    assert!(d >= 0);
    unsafe { OwnedFd::from_raw_fd(d) }
}

/// Invoke the operation on the real frontend endpoint.
pub fn invoke(fe: &mut Frontend, op: &FeOp, res: &Resources) -> Result<FeRet, String> {
    crate::crash::set_op(format!("Frontend::{op:?}"));
    let e = |e: vhost::Error| format!("{e:?}");
    match op {
        FeOp::GetFeatures => fe.get_features().map(FeRet::U64).map_err(e),
        FeOp::SetFeatures(v) => fe.set_features(*v).map(|_| FeRet::Unit).map_err(e),
        FeOp::SetOwner => fe.set_owner().map(|_| FeRet::Unit).map_err(e),
        FeOp::ResetOwner => fe.reset_owner().map(|_| FeRet::Unit).map_err(e),
        FeOp::SetMemTable(rs) => {
            let v: Vec<VhostUserMemoryRegionInfo> = rs.iter().map(|r| region_info(r, res)).collect();
            fe.set_mem_table(&v).map(|_| FeRet::Unit).map_err(e)
        }
        FeOp::SetLogBase(b, r) => fe
            .set_log_base(*b, r.map(|(s, o)| VhostUserDirtyLogRegion { mmap_size: s, mmap_offset: o, mmap_handle: res.mem[1].as_raw_fd() }))
            .map(|_| FeRet::Unit)
            .map_err(e),
        FeOp::SetLogFd => fe.set_log_fd(res.ev[0].as_raw_fd()).map(|_| FeRet::Unit).map_err(e),
        FeOp::SetVringNum(q, n) => fe.set_vring_num(*q, *n).map(|_| FeRet::Unit).map_err(e),
        FeOp::SetVringAddr(q, f, d, u, a, l) => {
            let c = VringConfigData { queue_max_size: 256, queue_size: 128, flags: *f, desc_table_addr: *d, used_ring_addr: *u, avail_ring_addr: *a, log_addr: *l };
            fe.set_vring_addr(*q, &c).map(|_| FeRet::Unit).map_err(e)
        }
        FeOp::SetVringBase(q, b) => fe.set_vring_base(*q, *b).map(|_| FeRet::Unit).map_err(e),
        FeOp::GetVringBase(q) => fe.get_vring_base(*q).map(FeRet::U32).map_err(e),
        FeOp::SetVringCall(q) => fe.set_vring_call(*q, &res.ev[0]).map(|_| FeRet::Unit).map_err(e),
        FeOp::SetVringKick(q) => fe.set_vring_kick(*q, &res.ev[1]).map(|_| FeRet::Unit).map_err(e),
        FeOp::SetVringErr(q) => fe.set_vring_err(*q, &res.ev[2]).map(|_| FeRet::Unit).map_err(e),
        FeOp::GetProtocolFeatures => fe.get_protocol_features().map(|f| FeRet::U64(f.bits())).map_err(e),
        FeOp::SetProtocolFeatures(v) => fe.set_protocol_features(VhostUserProtocolFeatures::from_bits_retain(*v)).map(|_| FeRet::Unit).map_err(e),
        FeOp::GetQueueNum => fe.get_queue_num().map(FeRet::U64).map_err(e),
        FeOp::ResetDevice => fe.reset_device().map(|_| FeRet::Unit).map_err(e),
        FeOp::SetVringEnable(q, en) => fe.set_vring_enable(*q, *en).map(|_| FeRet::Unit).map_err(e),
        FeOp::GetConfig(o, s, f) => {
            let buf = vec![0u8; *s as usize];
            fe.get_config(*o, *s, VhostUserConfigFlags::from_bits_retain(*f), &buf)
                .map(|(c, p)| FeRet::Config(c.offset, c.size, c.flags, p))
                .map_err(e)
        }
        FeOp::SetConfig(o, f, len) => fe.set_config(*o, VhostUserConfigFlags::from_bits_retain(*f), &set_config_payload(*o, *len)).map(|_| FeRet::Unit).map_err(e),
        FeOp::SetBackendReqFd => fe.set_backend_request_fd(&res.sock.1).map(|_| FeRet::Unit).map_err(e),
        FeOp::GetSharedObject(u) => {
            let mut m = VhostUserSharedMsg::default();
            m.as_mut_slice().copy_from_slice(u);
            fe.get_shared_object(&m).map(|f| FeRet::File(ident(f.as_raw_fd()))).map_err(e)
        }
        FeOp::GetInflightFd(a, b, c, d) => fe
            .get_inflight_fd(&VhostUserInflight::new(*a, *b, *c, *d))
            .map(|(i, f)| FeRet::Inflight(i.mmap_size, i.mmap_offset, i.num_queues, i.queue_size, ident(f.as_raw_fd())))
            .map_err(e),
        FeOp::SetInflightFd(a, b, c, d) => fe.set_inflight_fd(&VhostUserInflight::new(*a, *b, *c, *d), res.mem[2].as_raw_fd()).map(|_| FeRet::Unit).map_err(e),
        FeOp::GetMaxMemSlots => fe.get_max_mem_slots().map(FeRet::U64).map_err(e),
        FeOp::AddMemRegion(g, s, u, o, i) => fe.add_mem_region(&region_info(&(*g, *s, *u, *o, *i), res)).map(|_| FeRet::Unit).map_err(e),
        FeOp::RemoveMemRegion(g, s, u, o) => fe.remove_mem_region(&region_info(&(*g, *s, *u, *o, 0), res)).map(|_| FeRet::Unit).map_err(e),
        FeOp::RemoveMemRegionNoFd(g, s, u, o) => fe.remove_mem_region(&VhostUserMemoryRegionInfo { mmap_handle: -1, ..region_info(&(*g, *s, *u, *o, 0), res) }).map(|_| FeRet::Unit).map_err(e),
        FeOp::GetShmemConfig => fe.get_shmem_config().map(|c| FeRet::Shmem(c.nregions, c.memory_sizes.to_vec())).map_err(e),
        FeOp::SetDeviceStateFd(d) => {
            let dir = if *d == 0 { VhostTransferStateDirection::SAVE } else { VhostTransferStateDirection::LOAD };
            fe.set_device_state_fd(dir, VhostTransferStatePhase::STOPPED, dup_owned(res.mem[3].as_raw_fd()))
                .map(|f| FeRet::OptFile(f.map(|f| ident(f.as_raw_fd()))))
                .map_err(e)
        }
        FeOp::CheckDeviceState => fe.check_device_state().map(|_| FeRet::Unit).map_err(e),
    }
}

/// One representative, well-formed instance of every frontend operation.
pub fn all_ops_basic() -> Vec<FeOp> {
    vec![
        FeOp::GetFeatures,
        FeOp::SetFeatures(spec::VIRTIO_F_PROTOCOL_FEATURES | 0x3),
        FeOp::SetOwner,
        FeOp::ResetOwner,
        FeOp::SetMemTable(vec![(0x0, 0x2000, 0x7f00_0000_0000, 0x0, 0), (0x10_0000, 0x1000, 0x7f00_1000_0000, 0x1000, 1)]),
        FeOp::SetLogBase(0x1000, Some((0x1000, 0x0))),
        FeOp::SetVringNum(0, 128),
        FeOp::SetVringAddr(1, 1, 0x1000, 0x2000, 0x3000, Some(0x4000)),
        FeOp::SetVringBase(0, 5),
        FeOp::GetVringBase(1),
        FeOp::SetVringCall(0),
        FeOp::SetVringKick(1),
        FeOp::SetVringErr(0),
        FeOp::GetProtocolFeatures,
        FeOp::GetQueueNum,
        FeOp::ResetDevice,
        FeOp::SetVringEnable(1, true),
        FeOp::GetConfig(0x100, 8, 0),
        FeOp::SetConfig(0x100, 1, 4),
        FeOp::SetBackendReqFd,
        FeOp::GetSharedObject(UUID_A),
        FeOp::GetInflightFd(0x1000, 0x0, 2, 256),
        FeOp::SetInflightFd(0x1000, 0x0, 2, 256),
        FeOp::GetMaxMemSlots,
        FeOp::AddMemRegion(0x20_0000, 0x1000, 0x7f00_2000_0000, 0x0, 2),
        FeOp::RemoveMemRegion(0x20_0000, 0x1000, 0x7f00_2000_0000, 0x0),
        FeOp::GetShmemConfig,
        FeOp::SetDeviceStateFd(0),
        FeOp::CheckDeviceState,
        FeOp::RemoveMemRegionNoFd(0x30_0000, 0x2000, 0x7f00_3000_0000, 0x1000),
    ]
}

/// Byte-asymmetric, pairwise distinct 64-bit patterns (any swap / shift / width error shows).
pub fn pat64(k: u64) -> u64 {
    0x0102_0304_0506_0708u64.wrapping_mul(2 * k + 1) ^ (k << 56) ^ 0x8070_6050_4030_2010
}

/// Like `pat64` but below 2^62 and 16-byte aligned: sums of two do not wrap and ring addresses
/// are aligned, so the pattern assignments stay protocol-valid.
pub fn patv(k: u64) -> u64 {
    (pat64(k) >> 2) & !0xf
}

/// Argument lattice of the frontend API: (a) pattern assignments, (b) per-field boundary sweeps,
/// (c) every variable length. `level` 0 = quick, 1 = thorough. Only arguments the API accepts.
pub fn fe_variants(level: u8, seed: u64) -> Vec<FeOp> {
    use crate::lattice::*;
    let l64 = rotate(&u64_lattice(level, seed), seed);
    let l16 = u16_lattice(level);
    let qs: Vec<usize> = if level == 0 { vec![0, 1, 2, 127, 254, 255] } else { (0..=255).collect() };
    let mut v = Vec::new();
    v.extend([FeOp::GetFeatures, FeOp::SetOwner, FeOp::ResetOwner, FeOp::GetProtocolFeatures, FeOp::GetQueueNum, FeOp::ResetDevice, FeOp::GetMaxMemSlots, FeOp::GetShmemConfig, FeOp::CheckDeviceState, FeOp::SetBackendReqFd]);
    v.extend([FeOp::SetDeviceStateFd(0), FeOp::SetDeviceStateFd(1)]);
    for &x in &l64 {
        v.push(FeOp::SetFeatures(x));
        v.push(FeOp::SetProtocolFeatures(x));
    }
    // memory tables: every region count 1..=32 with pattern values
    for n in 1..=32usize {
        let rs = (0..n).map(|i| (patv(4 * i as u64), patv(4 * i as u64 + 1) | 1, patv(4 * i as u64 + 2), patv(4 * i as u64 + 3), i)).collect();
        v.push(FeOp::SetMemTable(rs));
    }
    // per-field sweeps on one region (size must be non-zero for the API to accept it)
    for &x in &l64 {
        v.push(FeOp::SetMemTable(vec![(x, 0x1000, 0x7f00_0000_0000, 0, 0)]));
        v.push(FeOp::SetMemTable(vec![(0x1000, 0x1000, x, 0, 1)]));
        v.push(FeOp::SetMemTable(vec![(0x1000, 0x1000, 0x7f00_0000_0000, x, 2)]));
        v.push(FeOp::AddMemRegion(x, patv(1) | 1, patv(2), patv(3), 0));
        v.push(FeOp::AddMemRegion(patv(4), patv(5) | 1, x, patv(6), 1));
        v.push(FeOp::AddMemRegion(patv(7), patv(8) | 1, patv(9), x, 2));
        v.push(FeOp::RemoveMemRegion(x, patv(1) | 1, patv(2), patv(3)));
        v.push(FeOp::RemoveMemRegion(patv(4), patv(5) | 1, patv(6), x));
        v.push(FeOp::RemoveMemRegionNoFd(patv(7), patv(8) | 1, x, patv(9)));
        if x != 0 {
            v.push(FeOp::SetMemTable(vec![(0x1000, x, 0x7f00_0000_0000, 0, 3)]));
            v.push(FeOp::AddMemRegion(patv(10), x, patv(11), patv(12), 3));
            v.push(FeOp::RemoveMemRegion(patv(10), x, patv(11), patv(12)));
            v.push(FeOp::SetLogBase(0, Some((x, patv(13)))));
            v.push(FeOp::SetInflightFd(x, patv(14), 3, 7));
        }
        v.push(FeOp::SetLogBase(0, Some((patv(15) | 1, x))));
        v.push(FeOp::GetInflightFd(x, patv(16), 5, 9));
        v.push(FeOp::GetInflightFd(patv(17), x, 5, 9));
        v.push(FeOp::SetInflightFd(patv(18) | 1, x, 3, 7));
        v.push(FeOp::SetVringAddr(1, 0, x, patv(19), patv(20), None));
        v.push(FeOp::SetVringAddr(1, 1, patv(21), x, patv(22), Some(patv(23))));
        v.push(FeOp::SetVringAddr(2, 1, patv(24), patv(25), x, Some(patv(26))));
        v.push(FeOp::SetVringAddr(3, 1, patv(27), patv(28), patv(29), Some(x)));
    }
    for &n in &l16 {
        v.push(FeOp::SetVringNum(1, n));
        v.push(FeOp::SetVringBase(2, n));
        if n != 0 {
            v.push(FeOp::GetInflightFd(patv(30), patv(31), n, 11));
            v.push(FeOp::GetInflightFd(patv(30), patv(31), 11, n));
            v.push(FeOp::SetInflightFd(patv(32) | 1, patv(33), n, 13));
            v.push(FeOp::SetInflightFd(patv(32) | 1, patv(33), 13, n));
        }
    }
    for &q in &qs {
        v.push(FeOp::SetVringNum(q, 0x1234));
        v.push(FeOp::SetVringBase(q, 0x4321));
        v.push(FeOp::GetVringBase(q));
        v.push(FeOp::SetVringCall(q));
        v.push(FeOp::SetVringKick(q));
        v.push(FeOp::SetVringErr(q));
        v.push(FeOp::SetVringEnable(q, q % 2 == 0));
        v.push(FeOp::SetVringAddr(q, (q % 2) as u32, patv(40), patv(41), patv(42), Some(patv(43))));
    }
    // config window: offsets/lengths over the whole window (payload bounded by the 4096-byte message)
    let offs: Vec<u32> = vec![0, 1, 2, 0xff, 0x100, 0x101, 0x7ff, 0x800, 0xffe, 0xfff];
    let lens: Vec<u32> = if level == 0 { vec![1, 2, 3, 8, 255, 256, 257, 4083, 4084] } else { (1..=4084).collect() };
    for &o in &offs {
        for &l in &lens {
            if o as u64 + l as u64 <= 0x1000 {
                for f in 0..4u32 {
                    if level == 0 && f != 0 && l > 8 && l < 4083 {
                        continue;
                    }
                    if level == 1 && f != 0 && l % 97 != 0 && l > 16 && l < 4080 {
                        continue;
                    }
                    v.push(FeOp::GetConfig(o, l, f));
                    v.push(FeOp::SetConfig(o, f, l as usize));
                }
            }
        }
    }
    for k in 0..6u64 {
        let mut u = [0u8; 16];
        u[..8].copy_from_slice(&pat64(50 + k).to_ne_bytes());
        u[8..].copy_from_slice(&pat64(60 + k).to_ne_bytes());
        v.push(FeOp::GetSharedObject(u));
    }
    let mut one = [0u8; 16];
    one[15] = 1;
    v.push(FeOp::GetSharedObject(one));
    let mut almost = [0xffu8; 16];
    almost[0] = 0xfe;
    v.push(FeOp::GetSharedObject(almost));
    v.push(FeOp::SetLogBase(0x1234_5678_9abc_def0, Some((0x1000, 0))));
    v
}

impl FeOp {
    /// The queue index of a per-ring operation.
    pub fn queue_index(&self) -> Option<u64> {
        match self {
            FeOp::SetVringNum(i, _) | FeOp::SetVringBase(i, _) => Some(*i as u64),
            FeOp::SetVringAddr(i, ..) => Some(*i as u64),
            FeOp::GetVringBase(i) | FeOp::SetVringCall(i) | FeOp::SetVringKick(i) | FeOp::SetVringErr(i) => Some(*i as u64),
            FeOp::SetVringEnable(i, _) => Some(*i as u64),
            _ => None,
        }
    }

    /// Is the request this call produces valid by the protocol's rules (reference predicates)?
    /// The frontend API accepts more than that (e.g. unaligned ring addresses, wrapping regions).
    pub fn wire_valid(&self) -> bool {
        use crate::model::validators as v;
        match self {
            FeOp::SetMemTable(rs) => !rs.is_empty() && rs.len() <= 32 && rs.iter().all(|r| v::region_valid(r.0, r.1, r.2, r.3)),
            FeOp::AddMemRegion(g, s, u, o, _) | FeOp::RemoveMemRegion(g, s, u, o) | FeOp::RemoveMemRegionNoFd(g, s, u, o) => v::region_valid(*g, *s, *u, *o),
            FeOp::SetVringAddr(_, f, d, u, a, _) => v::vring_addr_valid(*f, *d, *u, *a),
            FeOp::SetLogBase(_, Some((s, o))) => v::log_valid(*s, *o),
            FeOp::GetConfig(o, s, f) => v::config_valid(*o, *s, *f),
            FeOp::SetConfig(o, f, l) => v::config_valid(*o, *l as u32, *f),
            FeOp::GetInflightFd(_, _, n, q) | FeOp::SetInflightFd(_, _, n, q) => *n != 0 && *q != 0,
            FeOp::GetSharedObject(u) => v::uuid_bytes_valid(u),
            _ => true,
        }
    }
}
