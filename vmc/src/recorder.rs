//! Recording / scripted request handlers placed behind the real servers.

#![allow(dead_code)]

use crate::rawpeer::ident;
use std::collections::HashSet;
use std::fs::File;
use std::io;
use std::os::unix::io::{AsRawFd, FromRawFd, OwnedFd};
use vhost::vhost_user::message::*;
use vhost::vhost_user::{Backend, Error, GpuBackend, HandlerResult, Result, VhostUserBackendReqHandlerMut, VhostUserFrontendReqHandlerMut};
use vm_memory::ByteValued;

#[derive(Clone, Debug, PartialEq, Eq)]
pub struct Call {
    pub op: &'static str,
    pub a: Vec<u64>,
    pub bytes: Vec<u8>,
    /// identity (st_dev, st_ino) of each file received with the call
    pub files: Vec<(u64, u64)>,
}

impl Call {
    pub fn new(op: &'static str, a: Vec<u64>) -> Self {
        Call { op, a, bytes: vec![], files: vec![] }
    }
    pub fn json(&self) -> serde_json::Value {
        serde_json::json!({"op": self.op, "args": self.a.iter().map(|x| format!("{x:#x}")).collect::<Vec<_>>(), "bytes": self.bytes.len(), "files": self.files.len()})
    }
}

#[derive(Clone, Debug)]
pub enum ConfigAns {
    /// bytes offset+i (mod 251) of the requested size
    Pattern,
    Fixed(Vec<u8>),
}

pub fn config_pattern(offset: u32, size: u32) -> Vec<u8> {
    (0..size).map(|i| ((offset.wrapping_add(i)) % 251) as u8 ^ 0x5a).collect()
}

#[derive(Clone, Debug)]
pub struct Script {
    pub fail_all: bool,
    pub fail: HashSet<&'static str>,
    pub features: u64,
    pub proto: u64,
    pub queue_num: u64,
    pub vring_base: u32,
    pub config: ConfigAns,
    pub max_slots: u64,
    pub shmem: (u32, Vec<u64>),
    pub inflight: (u64, u64, u16, u16),
    /// set_device_state_fd returns Some(file) instead of None
    pub state_returns_file: bool,
}

impl Default for Script {
    fn default() -> Self {
        Script {
            fail_all: false,
            fail: HashSet::new(),
            features: 0,
            proto: 0,
            queue_num: 2,
            vring_base: 0,
            config: ConfigAns::Pattern,
            max_slots: 32,
            shmem: (0, vec![]),
            inflight: (0x1000, 0, 2, 256),
            state_returns_file: false,
        }
    }
}

#[derive(Default)]
pub struct Recorder {
    pub log: Vec<Call>,
    pub script: Script,
    /// files received by value are kept here (the application "still holds" them) when set
    pub keep_files: bool,
    pub held: Vec<File>,
    pub backend: Option<Backend>,
    pub gpu: Option<GpuBackend>,
    /// file handed out by get_shared_object / get_inflight_fd / set_device_state_fd
    pub ret_file: Option<OwnedFd>,
}

impl Recorder {
    pub fn new() -> Self {
        Self::default()
    }
    fn res(&self, op: &'static str) -> Result<()> {
        if self.script.fail_all || self.script.fail.contains(op) {
            Err(Error::ReqHandlerError(io::Error::other("scripted failure")))
        } else {
            Ok(())
        }
    }
    fn take(&mut self, f: File) -> (u64, u64) {
        let id = ident(f.as_raw_fd());
        if self.keep_files {
            self.held.push(f);
        }
        id
    }
    fn out_file(&self) -> Option<File> {
        self.ret_file.as_ref().map(|f| {
            // SAFETY: dup of a descriptor we own.
            let d = unsafe { libc::fcntl(f.as_raw_fd(), libc::F_DUPFD_CLOEXEC, 3) };
            assert!(d >= 0);
            unsafe { File::from_raw_fd(d) }
        })
    }
}

impl VhostUserBackendReqHandlerMut for Recorder {
    fn set_owner(&mut self) -> Result<()> {
        self.log.push(Call::new("set_owner", vec![]));
        self.res("set_owner")
    }
    fn reset_owner(&mut self) -> Result<()> {
        self.log.push(Call::new("reset_owner", vec![]));
        self.res("reset_owner")
    }
    fn reset_device(&mut self) -> Result<()> {
        self.log.push(Call::new("reset_device", vec![]));
        self.res("reset_device")
    }
    fn get_features(&mut self) -> Result<u64> {
        self.log.push(Call::new("get_features", vec![]));
        self.res("get_features")?;
        Ok(self.script.features)
    }
    fn set_features(&mut self, features: u64) -> Result<()> {
        self.log.push(Call::new("set_features", vec![features]));
        self.res("set_features")
    }
    fn set_mem_table(&mut self, ctx: &[VhostUserMemoryRegion], files: Vec<File>) -> Result<()> {
        let mut c = Call::new("set_mem_table", vec![ctx.len() as u64]);
        for r in ctx {
            c.a.extend_from_slice(&[r.guest_phys_addr, r.memory_size, r.user_addr, r.mmap_offset]);
        }
        for f in files {
            let id = self.take(f);
            c.files.push(id);
        }
        self.log.push(c);
        self.res("set_mem_table")
    }
    fn set_vring_num(&mut self, index: u32, num: u32) -> Result<()> {
        self.log.push(Call::new("set_vring_num", vec![index as u64, num as u64]));
        self.res("set_vring_num")
    }
    fn set_vring_addr(&mut self, index: u32, flags: VhostUserVringAddrFlags, descriptor: u64, used: u64, available: u64, log: u64) -> Result<()> {
        self.log.push(Call::new("set_vring_addr", vec![index as u64, flags.bits() as u64, descriptor, used, available, log]));
        self.res("set_vring_addr")
    }
    fn set_vring_base(&mut self, index: u32, base: u32) -> Result<()> {
        self.log.push(Call::new("set_vring_base", vec![index as u64, base as u64]));
        self.res("set_vring_base")
    }
    fn get_vring_base(&mut self, index: u32) -> Result<VhostUserVringState> {
        self.log.push(Call::new("get_vring_base", vec![index as u64]));
        self.res("get_vring_base")?;
        Ok(VhostUserVringState::new(index, self.script.vring_base))
    }
    fn set_vring_kick(&mut self, index: u8, fd: Option<File>) -> Result<()> {
        let mut c = Call::new("set_vring_kick", vec![index as u64]);
        if let Some(f) = fd {
            let id = self.take(f);
            c.files.push(id);
        }
        self.log.push(c);
        self.res("set_vring_kick")
    }
    fn set_vring_call(&mut self, index: u8, fd: Option<File>) -> Result<()> {
        let mut c = Call::new("set_vring_call", vec![index as u64]);
        if let Some(f) = fd {
            let id = self.take(f);
            c.files.push(id);
        }
        self.log.push(c);
        self.res("set_vring_call")
    }
    fn set_vring_err(&mut self, index: u8, fd: Option<File>) -> Result<()> {
        let mut c = Call::new("set_vring_err", vec![index as u64]);
        if let Some(f) = fd {
            let id = self.take(f);
            c.files.push(id);
        }
        self.log.push(c);
        self.res("set_vring_err")
    }
    fn get_protocol_features(&mut self) -> Result<VhostUserProtocolFeatures> {
        self.log.push(Call::new("get_protocol_features", vec![]));
        self.res("get_protocol_features")?;
        Ok(VhostUserProtocolFeatures::from_bits_retain(self.script.proto))
    }
    fn set_protocol_features(&mut self, features: u64) -> Result<()> {
        self.log.push(Call::new("set_protocol_features", vec![features]));
        self.res("set_protocol_features")
    }
    fn get_queue_num(&mut self) -> Result<u64> {
        self.log.push(Call::new("get_queue_num", vec![]));
        self.res("get_queue_num")?;
        Ok(self.script.queue_num)
    }
    fn set_vring_enable(&mut self, index: u32, enable: bool) -> Result<()> {
        self.log.push(Call::new("set_vring_enable", vec![index as u64, enable as u64]));
        self.res("set_vring_enable")
    }
    fn get_config(&mut self, offset: u32, size: u32, flags: VhostUserConfigFlags) -> Result<Vec<u8>> {
        self.log.push(Call::new("get_config", vec![offset as u64, size as u64, flags.bits() as u64]));
        self.res("get_config")?;
        Ok(match &self.script.config {
            ConfigAns::Pattern => config_pattern(offset, size),
            ConfigAns::Fixed(v) => v.clone(),
        })
    }
    fn set_config(&mut self, offset: u32, buf: &[u8], flags: VhostUserConfigFlags) -> Result<()> {
        let mut c = Call::new("set_config", vec![offset as u64, flags.bits() as u64]);
        c.bytes = buf.to_vec();
        self.log.push(c);
        self.res("set_config")
    }
    fn set_backend_req_fd(&mut self, backend: Backend) {
        self.log.push(Call::new("set_backend_req_fd", vec![]));
        self.backend = Some(backend);
    }
    fn set_gpu_socket(&mut self, gpu_backend: GpuBackend) -> Result<()> {
        self.log.push(Call::new("set_gpu_socket", vec![]));
        self.gpu = Some(gpu_backend);
        self.res("set_gpu_socket")
    }
    fn get_shared_object(&mut self, uuid: VhostUserSharedMsg) -> Result<File> {
        let mut c = Call::new("get_shared_object", vec![]);
        c.bytes = uuid.as_slice().to_vec();
        self.log.push(c);
        self.res("get_shared_object")?;
        self.out_file().ok_or(Error::InvalidOperation("no file scripted"))
    }
    fn get_inflight_fd(&mut self, inflight: &VhostUserInflight) -> Result<(VhostUserInflight, File)> {
        self.log.push(Call::new("get_inflight_fd", vec![inflight.mmap_size, inflight.mmap_offset, inflight.num_queues as u64, inflight.queue_size as u64]));
        self.res("get_inflight_fd")?;
        let (a, b, c, d) = self.script.inflight;
        let f = self.out_file().ok_or(Error::InvalidOperation("no file scripted"))?;
        Ok((VhostUserInflight::new(a, b, c, d), f))
    }
    fn set_inflight_fd(&mut self, inflight: &VhostUserInflight, file: File) -> Result<()> {
        let mut c = Call::new("set_inflight_fd", vec![inflight.mmap_size, inflight.mmap_offset, inflight.num_queues as u64, inflight.queue_size as u64]);
        let id = self.take(file);
        c.files.push(id);
        self.log.push(c);
        self.res("set_inflight_fd")
    }
    fn get_max_mem_slots(&mut self) -> Result<u64> {
        self.log.push(Call::new("get_max_mem_slots", vec![]));
        self.res("get_max_mem_slots")?;
        Ok(self.script.max_slots)
    }
    fn add_mem_region(&mut self, region: &VhostUserSingleMemoryRegion, fd: File) -> Result<()> {
        let mut c = Call::new("add_mem_region", vec![region.guest_phys_addr, region.memory_size, region.user_addr, region.mmap_offset]);
        let id = self.take(fd);
        c.files.push(id);
        self.log.push(c);
        self.res("add_mem_region")
    }
    fn remove_mem_region(&mut self, region: &VhostUserSingleMemoryRegion) -> Result<()> {
        self.log.push(Call::new("remove_mem_region", vec![region.guest_phys_addr, region.memory_size, region.user_addr, region.mmap_offset]));
        self.res("remove_mem_region")
    }
    fn set_device_state_fd(&mut self, direction: VhostTransferStateDirection, phase: VhostTransferStatePhase, fd: File) -> Result<Option<File>> {
        let mut c = Call::new("set_device_state_fd", vec![direction as u32 as u64, phase as u32 as u64]);
        let id = self.take(fd);
        c.files.push(id);
        self.log.push(c);
        self.res("set_device_state_fd")?;
        if self.script.state_returns_file {
            Ok(self.out_file())
        } else {
            Ok(None)
        }
    }
    fn check_device_state(&mut self) -> Result<()> {
        self.log.push(Call::new("check_device_state", vec![]));
        self.res("check_device_state")
    }
    fn get_shmem_config(&mut self) -> Result<VhostUserShMemConfig> {
        self.log.push(Call::new("get_shmem_config", vec![]));
        self.res("get_shmem_config")?;
        Ok(VhostUserShMemConfig::new(self.script.shmem.0, &self.script.shmem.1))
    }
    fn set_log_base(&mut self, log: &VhostUserLog, file: File) -> Result<()> {
        let mut c = Call::new("set_log_base", vec![log.mmap_size, log.mmap_offset]);
        let id = self.take(file);
        c.files.push(id);
        self.log.push(c);
        self.res("set_log_base")
    }
}

/// Scripted result of a frontend-side (backend-initiated request) handler call.
#[derive(Clone, Debug)]
pub enum FrRes {
    Ok(u64),
    Errno(i32),
    ErrNoErrno,
}

#[derive(Default)]
pub struct FrRecorder {
    pub log: Vec<Call>,
    pub results: std::collections::VecDeque<FrRes>,
}

impl FrRecorder {
    fn res(&mut self) -> HandlerResult<u64> {
        match self.results.pop_front().unwrap_or(FrRes::Ok(0)) {
            FrRes::Ok(v) => Ok(v),
            FrRes::Errno(e) => Err(io::Error::from_raw_os_error(e)),
            FrRes::ErrNoErrno => Err(io::Error::other("no errno")),
        }
    }
}

fn mmap_args(r: &VhostUserMMap) -> Vec<u64> {
    vec![r.shmid as u64, r.fd_offset, r.shm_offset, r.len, r.flags]
}

impl VhostUserFrontendReqHandlerMut for FrRecorder {
    fn handle_config_change(&mut self) -> HandlerResult<u64> {
        self.log.push(Call::new("handle_config_change", vec![]));
        self.res()
    }
    fn shared_object_add(&mut self, uuid: &VhostUserSharedMsg) -> HandlerResult<u64> {
        let mut c = Call::new("shared_object_add", vec![]);
        c.bytes = uuid.as_slice().to_vec();
        self.log.push(c);
        self.res()
    }
    fn shared_object_remove(&mut self, uuid: &VhostUserSharedMsg) -> HandlerResult<u64> {
        let mut c = Call::new("shared_object_remove", vec![]);
        c.bytes = uuid.as_slice().to_vec();
        self.log.push(c);
        self.res()
    }
    fn shared_object_lookup(&mut self, uuid: &VhostUserSharedMsg, fd: &dyn AsRawFd) -> HandlerResult<u64> {
        let mut c = Call::new("shared_object_lookup", vec![]);
        c.bytes = uuid.as_slice().to_vec();
        c.files.push(ident(fd.as_raw_fd()));
        self.log.push(c);
        self.res()
    }
    fn shmem_map(&mut self, req: &VhostUserMMap, fd: &dyn AsRawFd) -> HandlerResult<u64> {
        let mut c = Call::new("shmem_map", mmap_args(req));
        c.files.push(ident(fd.as_raw_fd()));
        self.log.push(c);
        self.res()
    }
    fn shmem_unmap(&mut self, req: &VhostUserMMap) -> HandlerResult<u64> {
        self.log.push(Call::new("shmem_unmap", mmap_args(req)));
        self.res()
    }
}
