//! Harness around a real `VhostUserDaemon`: a recording backend (which always supplies exit
//! events), a raw frontend speaking the independent codec, a per-worker probe listener used as an
//! ordering barrier and as the way to look at the rings, and reconnect support.

#![allow(dead_code)]

use crate::rawpeer::{ident, recv_once, send_with_fds};
use crate::spec::*;
use std::collections::VecDeque;
use std::marker::PhantomData;
use std::os::unix::io::{AsRawFd, OwnedFd, RawFd};
use std::os::unix::net::UnixStream;
use std::sync::atomic::{AtomicBool, AtomicU64, Ordering};
use std::sync::{Arc, Condvar, Mutex};
use std::time::{Duration, Instant};
use vhost::vhost_user::message::VhostUserProtocolFeatures;
use vhost::vhost_user::{Backend, Listener};
use vhost_user_backend::bitmap::BitmapReplace;
use vhost_user_backend::{VhostUserBackend, VhostUserDaemon, VringT};
use virtio_queue::QueueT;
use vm_memory::bitmap::Bitmap;
use vm_memory::mmap::NewBitmap;
use vm_memory::{GuestAddressSpace, GuestMemory, GuestMemoryAtomic, GuestMemoryMmap, GuestMemoryRegion};
use vmm_sys_util::epoll::EventSet;
use vmm_sys_util::event::{new_event_consumer_and_notifier, EventConsumer, EventFlag, EventNotifier};
use vmm_sys_util::eventfd::EventFd;

pub type GM<B> = GuestMemoryAtomic<GuestMemoryMmap<B>>;

#[derive(Clone, Debug, PartialEq, Eq, Default)]
pub struct QSnap {
    pub size: u16,
    pub max_size: u16,
    pub ready: bool,
    pub next_avail: u16,
    pub next_used: u16,
    pub desc: u64,
    pub avail: u64,
    pub used: u64,
    pub event_idx: bool,
    pub enabled: bool,
    pub has_kick: bool,
    pub has_call: bool,
}

#[derive(Clone, Debug, PartialEq, Eq)]
pub struct Dispatch {
    pub thread: usize,
    pub event: u16,
    pub nrings: usize,
    /// configured size of vrings[event] (rings are made distinguishable by distinct sizes)
    pub ring_size: Option<u16>,
    pub seq: u64,
}

#[derive(Clone, Debug, PartialEq, Eq)]
pub struct MemRegionObs {
    pub gpa: u64,
    pub len: u64,
    pub file: (u64, u64),
    pub offset: u64,
}

#[derive(Clone, Debug)]
pub enum Action {
    /// in the next dispatch of ring `event` on this thread: add_used(head, len) + signal_used_queue
    AddUsedSignal(u16, u32),
    /// write `len` bytes at guest address through the memory handed to the backend
    WriteMem(u64, usize),
    /// stay inside the handler until the harness releases the gate (bounded): "this worker is busy"
    Hold,
}

#[derive(Default)]
pub struct Shared {
    pub dispatches: Vec<Dispatch>,
    pub probes: Vec<u64>,
    pub snaps: Vec<Vec<QSnap>>,
    pub update_memory: Vec<Vec<MemRegionObs>>,
    pub acked_features: Vec<u64>,
    pub event_idx: Vec<bool>,
    pub resets: u64,
    pub configs: Vec<(u32, Vec<u8>)>,
    pub backend_req: Option<Backend>,
    pub actions: VecDeque<Action>,
    pub action_results: Vec<String>,
    pub fail_update_memory: bool,
    pub seq: u64,
    /// thread id of the worker currently held inside the handler by `Action::Hold`
    pub held: Option<usize>,
    pub release: bool,
}

#[derive(Clone)]
pub struct Cfg {
    pub num_queues: usize,
    pub max_queue_size: usize,
    pub features: u64,
    pub proto: u64,
    pub masks: Vec<u64>,
}

impl Default for Cfg {
    fn default() -> Self {
        Cfg { num_queues: 2, max_queue_size: 256, features: VIRTIO_F_PROTOCOL_FEATURES | (1 << 29) | (1 << 32) | 0x3, proto: PF_ALL_DEFINED & !PF_INFLIGHT_SHMFD, masks: vec![0b11] }
    }
}

pub struct TBackend<V, B: Bitmap + 'static> {
    pub cfg: Arc<Cfg>,
    pub sh: Arc<(Mutex<Shared>, Condvar)>,
    exits: Arc<Vec<(EventConsumer, EventNotifier)>>,
    pub mem: Arc<Mutex<Option<GM<B>>>>,
    pub vrings: Arc<Mutex<Vec<Vec<V>>>>,
    probe_fds: Arc<Vec<EventFd>>,
    /// custom listeners: delivered id -> descriptor to drain when the event is dispatched
    pub listeners: Arc<Mutex<std::collections::HashMap<u16, RawFd>>>,
    /// raw numbers of the exit-event consumer clones handed to the library (which leaks them:
    /// `VringEpollHandler::new` turns the consumer into a raw descriptor and never closes it)
    pub leaked_exit_fds: Arc<Mutex<Vec<RawFd>>>,
    _p: PhantomData<(V, B)>,
}

impl<V, B: Bitmap + 'static> Clone for TBackend<V, B> {
    fn clone(&self) -> Self {
        TBackend { cfg: self.cfg.clone(), sh: self.sh.clone(), exits: self.exits.clone(), mem: self.mem.clone(), vrings: self.vrings.clone(), probe_fds: self.probe_fds.clone(), listeners: self.listeners.clone(), leaked_exit_fds: self.leaked_exit_fds.clone(), _p: PhantomData }
    }
}

pub fn qsnap<V, B>(v: &V) -> QSnap
where
    V: VringT<GM<B>>,
    B: Bitmap + 'static,
{
    let g = v.get_ref();
    let q = g.get_queue();
    QSnap {
        size: q.size(),
        max_size: q.max_size(),
        ready: q.ready(),
        next_avail: q.next_avail(),
        next_used: q.next_used(),
        desc: q.desc_table(),
        avail: q.avail_ring(),
        used: q.used_ring(),
        event_idx: q.event_idx_enabled(),
        enabled: g.is_enabled(),
        has_kick: g.get_kick().is_some(),
        has_call: g.get_call().is_some(),
    }
}

impl<V, B> TBackend<V, B>
where
    V: VringT<GM<B>> + Clone + Send + Sync + 'static,
    B: Bitmap + 'static,
{
    pub fn new(cfg: Cfg) -> Self {
        let n = cfg.masks.len();
        let exits = (0..n).map(|_| new_event_consumer_and_notifier(EventFlag::NONBLOCK).expect("exit event")).collect();
        let probe_fds = (0..n).map(|_| EventFd::new(libc::EFD_NONBLOCK).unwrap()).collect();
        let mut sh = Shared::default();
        sh.probes = vec![0; n];
        sh.snaps = vec![vec![]; n];
        TBackend { cfg: Arc::new(cfg), sh: Arc::new((Mutex::new(sh), Condvar::new())), exits: Arc::new(exits), mem: Arc::new(Mutex::new(None)), vrings: Arc::new(Mutex::new(vec![vec![]; n])), probe_fds: Arc::new(probe_fds), listeners: Arc::new(Mutex::new(Default::default())), leaked_exit_fds: Arc::new(Mutex::new(Vec::new())), _p: PhantomData }
    }
    pub fn probe_id(&self) -> u16 {
        // far away from the queue / exit range and from the boundary ids the checks register
        0xfff0
    }
    pub fn probe_fd(&self, t: usize) -> RawFd {
        self.probe_fds[t].as_raw_fd()
    }
    pub fn dispatches(&self) -> Vec<Dispatch> {
        self.sh.0.lock().unwrap().dispatches.clone()
    }
    pub fn take_dispatches(&self) -> Vec<Dispatch> {
        std::mem::take(&mut self.sh.0.lock().unwrap().dispatches)
    }
}

impl<V, B> VhostUserBackend for TBackend<V, B>
where
    V: VringT<GM<B>> + Clone + Send + Sync + 'static,
    B: Bitmap + Clone + Send + Sync + 'static,
{
    type Bitmap = B;
    type Vring = V;

    fn num_queues(&self) -> usize {
        self.cfg.num_queues
    }
    fn max_queue_size(&self) -> usize {
        self.cfg.max_queue_size
    }
    fn features(&self) -> u64 {
        self.cfg.features
    }
    fn acked_features(&self, f: u64) {
        self.sh.0.lock().unwrap().acked_features.push(f);
    }
    fn protocol_features(&self) -> VhostUserProtocolFeatures {
        VhostUserProtocolFeatures::from_bits_retain(self.cfg.proto)
    }
    fn reset_device(&self) {
        self.sh.0.lock().unwrap().resets += 1;
    }
    fn set_event_idx(&self, enabled: bool) {
        self.sh.0.lock().unwrap().event_idx.push(enabled);
    }
    fn get_config(&self, offset: u32, size: u32) -> Vec<u8> {
        crate::recorder::config_pattern(offset, size)
    }
    fn set_config(&self, offset: u32, buf: &[u8]) -> std::io::Result<()> {
        self.sh.0.lock().unwrap().configs.push((offset, buf.to_vec()));
        Ok(())
    }
    fn update_memory(&self, mem: GM<B>) -> std::io::Result<()> {
        let regions: Vec<MemRegionObs> = mem
            .memory()
            .iter()
            .map(|r| MemRegionObs {
                gpa: r.start_addr().0,
                len: r.len(),
                file: r.file_offset().map(|f| ident(f.file().as_raw_fd())).unwrap_or((0, 0)),
                offset: r.file_offset().map(|f| f.start()).unwrap_or(0),
            })
            .collect();
        let mut s = self.sh.0.lock().unwrap();
        if s.fail_update_memory {
            return Err(std::io::Error::other("scripted update_memory failure"));
        }
        s.update_memory.push(regions);
        drop(s);
        *self.mem.lock().unwrap() = Some(mem);
        Ok(())
    }
    fn set_backend_req_fd(&self, backend: Backend) {
        self.sh.0.lock().unwrap().backend_req = Some(backend);
    }
    fn queues_per_thread(&self) -> Vec<u64> {
        self.cfg.masks.clone()
    }
    fn exit_event(&self, t: usize) -> Option<(EventConsumer, EventNotifier)> {
        self.exits.get(t).map(|(c, n)| {
            let c2 = c.try_clone().unwrap();
            self.leaked_exit_fds.lock().unwrap().push(c2.as_raw_fd());
            (c2, n.try_clone().unwrap())
        })
    }
    fn handle_event(&self, device_event: u16, evset: EventSet, vrings: &[V], thread_id: usize) -> std::io::Result<()> {
        IN_HARNESS.with(|f| f.set(true));
        let r = self.handle_event_inner(device_event, evset, vrings, thread_id);
        IN_HARNESS.with(|f| f.set(false));
        r
    }
}

impl<V, B> TBackend<V, B>
where
    V: VringT<GM<B>> + Clone + Send + Sync + 'static,
    B: Bitmap + Clone + Send + Sync + 'static,
{
    fn handle_event_inner(&self, device_event: u16, _evset: EventSet, vrings: &[V], thread_id: usize) -> std::io::Result<()> {
        if device_event == self.probe_id() {
            let _ = self.probe_fds[thread_id].read();
            let snaps: Vec<QSnap> = vrings.iter().map(|v| qsnap::<V, B>(v)).collect();
            self.vrings.lock().unwrap()[thread_id] = vrings.to_vec();
            let (m, cv) = &*self.sh;
            let mut s = m.lock().unwrap();
            s.snaps[thread_id] = snaps;
            s.probes[thread_id] += 1;
            cv.notify_all();
            return Ok(());
        }
        if let Some(fd) = self.listeners.lock().unwrap().get(&device_event) {
            let mut b = [0u8; 8];
            // SAFETY: read from an eventfd owned by the harness.
            unsafe { libc::read(*fd, b.as_mut_ptr() as *mut libc::c_void, 8) };
        }
        // E2: the entry of the backend's handler is a scheduling point of its own (a preemption
        // between the library's enabled-check and the call); no-op without a controller
        let site: &'static str = match device_event {
            0 => "handle_event",
            1 => "handle_event#1",
            2 => "handle_event#2",
            _ => "handle_event#n",
        };
        crate::sysshim::sched_point(crate::sysshim::Point::User(site), &|| true);
        let ring_size = vrings.get(device_event as usize).map(|v| v.get_ref().get_queue().size());
        let action = {
            let (m, _) = &*self.sh;
            let mut s = m.lock().unwrap();
            s.seq += 1;
            let seq = s.seq;
            s.dispatches.push(Dispatch { thread: thread_id, event: device_event, nrings: vrings.len(), ring_size, seq });
            s.actions.pop_front()
        };
        if let Some(a) = action {
            let res = match a {
                Action::AddUsedSignal(head, len) => match vrings.get(device_event as usize) {
                    Some(v) => {
                        let r = v.add_used(head, len);
                        let s = v.signal_used_queue();
                        format!("add_used={:?} signal={:?}", r.is_ok(), s.is_ok())
                    }
                    None => "no ring".into(),
                },
                Action::Hold => {
                    let (m, cv) = &*self.sh;
                    let mut s = m.lock().unwrap();
                    s.held = Some(thread_id);
                    s.release = false;
                    cv.notify_all();
                    let start = Instant::now();
                    while !s.release && start.elapsed() < Duration::from_secs(20) {
                        s = cv.wait_timeout(s, Duration::from_millis(50)).unwrap().0;
                    }
                    s.held = None;
                    cv.notify_all();
                    "held".into()
                }
                Action::WriteMem(gpa, len) => {
                    use vm_memory::{Bytes, GuestAddress};
                    let mem = self.mem.lock().unwrap().clone();
                    match mem {
                        Some(m) => format!("write={:?}", m.memory().write_slice(&vec![0x5a; len], GuestAddress(gpa)).is_ok()),
                        None => "no memory".into(),
                    }
                }
            };
            self.sh.0.lock().unwrap().action_results.push(res);
        }
        Ok(())
    }
}

// ------------------------------------------------------------------------------------------------

thread_local! {
    /// set while harness code (the recording backend's callbacks) runs on a library thread: ring
    /// lock acquisitions made by the harness itself are not scheduling points
    pub static IN_HARNESS: std::cell::Cell<bool> = const { std::cell::Cell::new(false) };
}

static RING_HOOK: std::sync::Once = std::sync::Once::new();

/// Make the ring state lock acquisitions of library threads other than the daemon thread (i.e.
/// of the vring workers) scheduling points of the E2 controller. The daemon thread is cut at its
/// system calls; cutting the worker between its lock-protected steps is what exposes a check
/// made under one lock acquisition and acted upon under another.
pub fn install_ring_lock_hook() {
    RING_HOOK.call_once(|| {
        vhost_user_backend::verif::set_ring_lock_point(Box::new(|_site, ready| {
            if IN_HARNESS.with(|f| f.get()) {
                return;
            }
            let t = std::thread::current();
            let name = t.name().unwrap_or("");
            if name.starts_with("vmc-daemon") || name == "main" {
                return;
            }
            crate::sysshim::sched_point(crate::sysshim::Point::Lock("ring"), ready);
        }));
    });
}

/// set when a daemon thread was found stuck (see `recv_msg`); `Report::violation` ends the run then
pub static STUCK: AtomicBool = AtomicBool::new(false);

static PANICS: Mutex<Vec<String>> = Mutex::new(Vec::new());
static HOOKED: AtomicBool = AtomicBool::new(false);
static SOCK_SEQ: AtomicU64 = AtomicU64::new(0);

/// Record panics of library-spawned threads (daemon thread, vring workers).
pub fn install_panic_watch() {
    if HOOKED.swap(true, Ordering::SeqCst) {
        return;
    }
    let prev = std::panic::take_hook();
    std::panic::set_hook(Box::new(move |info| {
        let t = std::thread::current();
        let name = t.name().unwrap_or("?").to_string();
        let msg = format!("thread '{name}': {info}");
        PANICS.lock().unwrap().push(msg);
        if name == "main" {
            prev(info);
        }
    }));
}

pub fn take_panics() -> Vec<String> {
    std::mem::take(&mut PANICS.lock().unwrap())
}

pub struct DaemonH<V, B>
where
    V: VringT<GM<B>> + Clone + Send + Sync + 'static,
    B: Bitmap + BitmapReplace + NewBitmap + Clone + Send + Sync + 'static,
{
    pub daemon: Option<VhostUserDaemon<TBackend<V, B>>>,
    pub be: TBackend<V, B>,
    pub peer: Option<UnixStream>,
    /// a thread of this daemon did not answer: it must not be joined
    pub stuck: std::cell::Cell<bool>,
    listener: Listener,
    path: String,
    pub reply_ack: bool,
    pub pending_fds: Vec<OwnedFd>,
}

#[derive(Debug, Clone, PartialEq)]
pub enum ReqOut {
    /// reply / acknowledgement message
    Msg(Decoded, usize),
    /// connection closed by the daemon
    Closed,
    /// nothing arrived and the daemon thread is gone or panicked
    Dead(String),
}

impl<V, B> DaemonH<V, B>
where
    V: VringT<GM<B>> + Clone + Send + Sync + 'static,
    B: Bitmap + BitmapReplace + NewBitmap + Clone + Send + Sync + 'static,
{
    pub fn new(cfg: Cfg) -> Self {
        install_panic_watch();
        let be = TBackend::<V, B>::new(cfg);
        let mem: GM<B> = GuestMemoryAtomic::new(GuestMemoryMmap::<B>::new());
        let daemon = VhostUserDaemon::new("vmc-daemon".to_string(), be.clone(), mem).expect("daemon");
        let path = format!("/tmp/vmc-{}-{}.sock", std::process::id(), SOCK_SEQ.fetch_add(1, Ordering::SeqCst));
        let listener = Listener::new(&path, true).expect("listener");
        let mut h = DaemonH { daemon: Some(daemon), be, peer: None, listener, path, reply_ack: false, pending_fds: vec![], stuck: std::cell::Cell::new(false) };
        // probe listeners on every worker
        for (t, hdl) in h.daemon.as_ref().unwrap().get_epoll_handlers().iter().enumerate() {
            hdl.register_listener(h.be.probe_fd(t), EventSet::IN, h.be.probe_id() as u64).expect("probe listener");
        }
        h.connect();
        h
    }

    pub fn connect(&mut self) {
        let s = UnixStream::connect(&self.path).expect("connect");
        self.daemon.as_mut().unwrap().start(&mut self.listener).expect("start");
        self.peer = Some(s);
        self.reply_ack = false;
    }

    /// wait() of the current session, then a fresh connection. Returns wait()'s result text.
    pub fn reconnect(&mut self) -> String {
        self.peer = None; // closes our end
        let r = self.daemon.as_mut().unwrap().wait();
        let txt = match r {
            Ok(()) => "Ok".to_string(),
            Err(e) => format!("{e:?}"),
        };
        self.connect();
        txt
    }

    pub fn fd(&self) -> RawFd {
        self.peer.as_ref().map(|p| p.as_raw_fd()).unwrap_or(-1)
    }

    pub fn send(&self, code: u32, flags: u32, payload: &[u8], fds: &[RawFd]) {
        if let Some(p) = &self.peer {
            send_with_fds(p.as_raw_fd(), &message(code, flags, payload), fds);
        }
    }

    /// Receive exactly one message (blocking with liveness checks).
    pub fn recv_msg(&mut self) -> ReqOut {
        let fd = self.fd();
        let start = Instant::now();
        let mut buf: Vec<u8> = Vec::new();
        let mut nfds = 0;
        loop {
            let need = if buf.len() < 12 { 12 - buf.len() } else { 12 + rd32(&buf, 8) as usize - buf.len() };
            if buf.len() >= 12 && need == 0 {
                let d = Decoded { code: rd32(&buf, 0), flags: rd32(&buf, 4), size: rd32(&buf, 8), payload: buf[12..].to_vec() };
                return ReqOut::Msg(d, nfds);
            }
            let mut p = libc::pollfd { fd, events: libc::POLLIN, revents: 0 };
            // SAFETY: valid pollfd.
            let r = unsafe { libc::poll(&mut p, 1, 20) };
            if r > 0 {
                match recv_once(fd, need) {
                    Some((b, f)) => {
                        if b.is_empty() {
                            return ReqOut::Closed;
                        }
                        nfds += f.len();
                        self.pending_fds.extend(f);
                        buf.extend_from_slice(&b);
                    }
                    None => {}
                }
            } else {
                let pn = PANICS.lock().unwrap().clone();
                if !pn.is_empty() {
                    return ReqOut::Dead(pn.join("; "));
                }
                if start.elapsed() > Duration::from_secs(6) {
                    // the daemon thread neither answers nor closes nor panics: it is stuck (e.g. a
                    // self-deadlock). Nothing that needs this daemon can be decided any more, and
                    // joining it would hang: the run is ended by the next recorded violation.
                    STUCK.store(true, Ordering::SeqCst);
                    self.stuck.set(true);
                    return ReqOut::Dead("no answer within 6 s, connection still open, no panic recorded: the daemon thread is stuck".into());
                }
            }
        }
    }

    /// Non-blocking: one complete message if it is already there (sched mode).
    /// Is a complete message (or end-of-stream) waiting? The library may write a message with
    /// several sendmsg calls, so "readable" is not enough.
    pub fn msg_ready(&self) -> bool {
        let fd = self.fd();
        let mut buf = vec![0u8; 12 + 4096 + 64];
        // SAFETY: recv with MSG_PEEK|MSG_DONTWAIT into a local buffer.
        let n = unsafe { libc::recv(fd, buf.as_mut_ptr() as *mut libc::c_void, buf.len(), libc::MSG_PEEK | libc::MSG_DONTWAIT) };
        if n == 0 {
            return true; // end of stream
        }
        if n < 12 {
            // nothing yet, or a partial header; a hang-up with a partial message counts as ready
            return n > 0 && crate::sysshim::hung_up(fd);
        }
        let size = rd32(&buf, 8) as usize;
        (n as usize) >= 12 + size.min(4096 + 52) || crate::sysshim::hung_up(fd)
    }

    pub fn try_recv_msg(&mut self) -> Option<ReqOut> {
        let fd = self.fd();
        if !crate::sysshim::readable(fd) || !self.msg_ready() {
            return None;
        }
        let mut buf: Vec<u8> = Vec::new();
        let mut nfds = 0;
        loop {
            let need = if buf.len() < 12 { 12 - buf.len() } else { 12 + rd32(&buf, 8) as usize - buf.len() };
            if buf.len() >= 12 && need == 0 {
                return Some(ReqOut::Msg(Decoded { code: rd32(&buf, 0), flags: rd32(&buf, 4), size: rd32(&buf, 8), payload: buf[12..].to_vec() }, nfds));
            }
            match recv_once(fd, need) {
                Some((b, f)) => {
                    if b.is_empty() {
                        return Some(ReqOut::Closed);
                    }
                    nfds += f.len();
                    self.pending_fds.extend(f);
                    buf.extend_from_slice(&b);
                }
                None => return Some(ReqOut::Dead("partial message".into())),
            }
        }
    }

    /// Send a request that will be answered (reply-bearing, or NEED_REPLY under REPLY_ACK) and
    /// wait for the answer.
    pub fn req(&mut self, code: u32, payload: &[u8], fds: &[RawFd]) -> ReqOut {
        self.send(code, F_VERSION | F_NEED_REPLY, payload, fds);
        self.recv_msg()
    }

    /// Acknowledged request: Ok(true) success ack, Ok(false) failure ack, Err on close/death.
    pub fn ack(&mut self, code: u32, payload: &[u8], fds: &[RawFd]) -> Result<bool, String> {
        match self.req(code, payload, fds) {
            ReqOut::Msg(d, _) => Ok(d.size == 8 && rd64(&d.payload, 0) == 0),
            ReqOut::Closed => Err("closed".into()),
            ReqOut::Dead(s) => Err(format!("dead: {s}")),
        }
    }

    /// GET_FEATURES / SET_FEATURES(virtio) / GET_PROTOCOL_FEATURES / SET_PROTOCOL_FEATURES(proto)
    pub fn negotiate(&mut self, virtio: u64, proto: u64) -> Result<(), String> {
        let e = |o: ReqOut| format!("{o:?}");
        match self.req(GET_FEATURES, &[], &[]) {
            ReqOut::Msg(..) => {}
            o => return Err(e(o)),
        }
        match self.req(GET_PROTOCOL_FEATURES, &[], &[]) {
            ReqOut::Msg(..) => {}
            o => return Err(e(o)),
        }
        // REPLY_ACK becomes effective with this very message
        self.send(SET_PROTOCOL_FEATURES, F_VERSION | F_NEED_REPLY, &p_u64(proto), &[]);
        if proto & PF_REPLY_ACK != 0 {
            match self.recv_msg() {
                ReqOut::Msg(..) => {}
                o => return Err(e(o)),
            }
            self.reply_ack = true;
        }
        if self.reply_ack {
            self.ack(SET_FEATURES, &p_u64(virtio), &[]).map(|_| ())
        } else {
            self.send(SET_FEATURES, F_VERSION, &p_u64(virtio), &[]);
            // synchronise with a reply-bearing request
            match self.req(GET_FEATURES, &[], &[]) {
                ReqOut::Msg(..) => Ok(()),
                o => Err(e(o)),
            }
        }
    }

    /// Ordering barrier on worker `t`: everything that was pending on its epoll set before this
    /// call has been handled when it returns. Returns the ring snapshot taken by the worker.
    ///
    /// Two rounds are needed: epoll is level-triggered, so the entry of the previous probe can
    /// still sit at the head of the ready list (re-queued, not yet re-polled) and be reported
    /// *before* a kick that became ready earlier; everything reported in the same batch as the
    /// first probe has been handled once a second probe is handled.
    pub fn probe(&self, t: usize) -> Result<Vec<QSnap>, String> {
        self.probe_once(t)?;
        self.probe_once(t)
    }

    fn probe_once(&self, t: usize) -> Result<Vec<QSnap>, String> {
        let (m, cv) = &*self.be.sh;
        let before = m.lock().unwrap().probes[t];
        // SAFETY: write to our own eventfd.
        let one: u64 = 1;
        unsafe { libc::write(self.be.probe_fd(t), &one as *const u64 as *const libc::c_void, 8) };
        let mut g = m.lock().unwrap();
        let start = Instant::now();
        while g.probes[t] == before {
            let (ng, to) = cv.wait_timeout(g, Duration::from_millis(50)).unwrap();
            g = ng;
            if to.timed_out() {
                if !PANICS.lock().unwrap().is_empty() {
                    return Err(format!("worker {t} panicked: {:?}", PANICS.lock().unwrap()));
                }
                if start.elapsed() > Duration::from_secs(6) {
                    // exited or stuck: in the second case dropping the daemon (which joins its workers)
                    // would hang, so it is leaked instead
                    STUCK.store(true, Ordering::SeqCst);
                    self.stuck.set(true);
                    return Err(format!("worker {t} did not handle the probe within 6 s (exited or stuck)"));
                }
            }
        }
        Ok(g.snaps[t].clone())
    }

    pub fn probe_all(&self) -> Result<Vec<Vec<QSnap>>, String> {
        (0..self.be.cfg.masks.len()).map(|t| self.probe(t)).collect()
    }

    pub fn workers(&self) -> usize {
        self.be.cfg.masks.len()
    }

    /// registrations of worker `t`'s epoll set: (data, inode) pairs, sorted
    pub fn epoll_regs(&self, t: usize) -> Vec<(u64, u64)> {
        let hs = self.daemon.as_ref().unwrap().get_epoll_handlers();
        let mut v: Vec<(u64, u64)> = crate::rawpeer::epoll_set(hs[t].as_raw_fd()).into_iter().map(|(_, _, data, ino)| (data, ino)).collect();
        v.sort();
        v
    }
}

impl<V, B> Drop for DaemonH<V, B>
where
    V: VringT<GM<B>> + Clone + Send + Sync + 'static,
    B: Bitmap + BitmapReplace + NewBitmap + Clone + Send + Sync + 'static,
{
    fn drop(&mut self) {
        // joining the daemon's threads below needs them to run freely
        crate::sysshim::sched_release();
        self.peer = None;
        if let Some(mut d) = self.daemon.take() {
            if self.stuck.get() {
                // joining a stuck daemon thread would hang for ever: leak it
                std::mem::forget(d);
                return;
            }
            let _ = d.wait();
            drop(d);
        }
        // The library leaks one exit-event descriptor per worker (see `leaked_exit_fds`); it is not
        // a descriptor received over a socket, so it is outside C09 - but thousands of daemon
        // instances would exhaust the table, so the harness closes its clones itself.
        for fd in self.be.leaked_exit_fds.lock().unwrap().drain(..) {
            // SAFETY: the clone was created by the harness and is referenced by nothing any more.
            unsafe { libc::close(fd) };
        }
        let _ = std::fs::remove_file(&self.path);
    }
}
