//! Evidence, violation reporting, known findings and replay artefacts.
//!
//! Exit codes: 0 = held on everything explored (known findings allowed), 1 = at least one
//! violation that is not a listed known finding, 2 = machinery failure (never a verdict).

use serde_json::{json, Map, Value};
use std::collections::{BTreeMap, BTreeSet};
use std::fs;
use std::io::Write;
use std::path::PathBuf;
use std::time::Instant;

pub fn verif_root() -> PathBuf {
    if let Ok(p) = std::env::var("VERIF_ROOT") {
        return PathBuf::from(p);
    }
    PathBuf::from("/verif")
}

#[derive(Clone, Debug)]
pub struct Known {
    pub property: String,
    pub signature: String,
    pub what: String,
}

pub fn load_known() -> Vec<Known> {
    let p = verif_root().join("known_findings.jsonl");
    let mut out = Vec::new();
    if let Ok(s) = fs::read_to_string(&p) {
        for line in s.lines() {
            let line = line.trim();
            if line.is_empty() || line.starts_with('#') || line.starts_with("fixed:") {
                continue; // `fixed:` entries suppress nothing
            }
            if let Ok(v) = serde_json::from_str::<Value>(line) {
                out.push(Known {
                    property: v["property"].as_str().unwrap_or("").to_string(),
                    signature: v["signature"].as_str().unwrap_or("").to_string(),
                    what: v["what"].as_str().unwrap_or("").to_string(),
                });
            }
        }
    }
    out
}

pub struct Report {
    pub id: String,
    pub tier: String,
    pub seed: u64,
    pub level: &'static str,
    start: Instant,
    known: Vec<Known>,
    known_hit: BTreeMap<String, u64>,
    viol_sigs: BTreeMap<String, u64>,
    pub violations: u64,
    replay_n: u64,
    // coverage
    pub states: u64,
    pub transitions: u64,
    pub traces: u64,
    pub evaluations: u64,
    pub nontrivial: u64,
    /// hashes of keyed non-trivial cases (counted once however often they are executed)
    pub nt_keys: std::collections::HashSet<u64>,
    pub rule: String,
    pub samples: Vec<Value>,
    pub exhaustive: bool,
    pub outcomes: BTreeSet<String>,
    pub extra: Map<String, Value>,
    pub assumptions: Vec<String>,
    pub caps: Vec<String>,
    max_samples: usize,
}

impl Report {
    pub fn new(id: &str, tier: &str, level: &'static str) -> Self {
        let seed = std::env::var("VERIF_SEED")
            .ok()
            .and_then(|s| s.parse::<u64>().ok())
            .unwrap_or(0);
        Report {
            id: id.to_string(),
            tier: tier.to_string(),
            seed,
            level,
            start: Instant::now(),
            known: load_known().into_iter().filter(|k| k.property == id).collect(),
            known_hit: BTreeMap::new(),
            viol_sigs: BTreeMap::new(),
            violations: 0,
            replay_n: 0,
            states: 0,
            transitions: 0,
            traces: 0,
            evaluations: 0,
            nontrivial: 0,
            nt_keys: std::collections::HashSet::new(),
            rule: String::new(),
            samples: Vec::new(),
            exhaustive: false,
            outcomes: BTreeSet::new(),
            extra: Map::new(),
            assumptions: Vec::new(),
            caps: Vec::new(),
            max_samples: 8,
        }
    }

    pub fn elapsed(&self) -> f64 {
        self.start.elapsed().as_secs_f64()
    }

    pub fn is_thorough(&self) -> bool {
        self.tier == "thorough"
    }

    pub fn sample(&mut self, v: Value) {
        if self.samples.len() < self.max_samples {
            self.samples.push(v);
        }
    }

    /// Keep a sample only for every `stride`-th call (spreads the samples over the run).
    pub fn sample_spread(&mut self, n: u64, v: impl FnOnce() -> Value) {
        let want = [0u64, 1, 10, 100, 1000, 10_000, 100_000, 1_000_000];
        if want.contains(&n) {
            let val = v();
            self.samples.push(val);
        }
    }

    /// Count a non-trivial case identified by `key` once, however often it is executed.
    pub fn nontrivial_key(&mut self, key: &str) {
        use std::hash::{Hash, Hasher};
        let mut h = std::collections::hash_map::DefaultHasher::new();
        key.hash(&mut h);
        self.nt_keys.insert(h.finish());
    }

    pub fn outcome(&mut self, o: &str) {
        if !self.outcomes.contains(o) {
            self.outcomes.insert(o.to_string());
        }
    }

    /// Report a violation. `signature` identifies the failing call site / input class /
    /// history; `case` is the replayable description of the concrete failing case.
    pub fn violation(&mut self, signature: &str, what: &str, case: Value) {
        if let Some(k) = self.known.iter().find(|k| k.signature == signature) {
            let n = self.known_hit.entry(signature.to_string()).or_insert(0);
            if *n == 0 {
                println!(
                    "KNOWN-FINDING: property={} {} [{}] (first instance: {})",
                    self.id, k.what, signature, what
                );
            }
            *n += 1;
            return;
        }
        self.violations += 1;
        let n = self.viol_sigs.entry(signature.to_string()).or_insert(0);
        *n += 1;
        if *n > 3 {
            // at most three artefacts per signature. A flood of violations means the property is
            // thoroughly broken: stop there instead of enumerating (slowly, e.g. with thousands of
            // leaked descriptors) to the end
            if self.violations >= 5000 {
                self.caps.push("stopped after 5000 violation instances".into());
                self.exhaustive = false;
                let code = self.finish_mut();
                std::process::exit(code);
            }
            return;
        }
        let dir = verif_root().join("replays").join(&self.id);
        let _ = fs::create_dir_all(&dir);
        self.replay_n += 1;
        let path = dir.join(format!("{}-{}.json", self.tier, self.replay_n));
        let body = json!({
            "property": self.id,
            "signature": signature,
            "what": what,
            "case": case,
        });
        let _ = fs::write(&path, serde_json::to_string_pretty(&body).unwrap());
        println!("VIOLATION property={} replay={}", self.id, path.display());
        println!("  signature: {signature}");
        println!("  what: {what}");
        let _ = std::io::stdout().flush();
        // a library thread was found stuck (it neither answers, exits nor panics): every further case
        // that needs a daemon would wait for its time-out, so the run ends with this verdict
        // the same holds for a violation that itself says that a library thread never finished (it may
        // be spinning: every leaked spinner takes a core, and each further case waits for its time-out)
        let thread_lost = ["never-returns", "never-exits", "never-completes", "caller-stuck"].iter().any(|w| signature.contains(w));
        if thread_lost || crate::daemonh::STUCK.load(std::sync::atomic::Ordering::SeqCst) {
            self.caps.push("stopped: a daemon or worker thread is stuck".into());
            self.exhaustive = false;
            let code = self.finish_mut();
            std::process::exit(code);
        }
    }

    pub fn known_hits(&self) -> u64 {
        self.known_hit.values().sum()
    }

    /// Write the evidence file and return the process exit code.
    pub fn finish(mut self) -> i32 {
        self.finish_mut()
    }

    pub fn finish_mut(&mut self) -> i32 {
        // Vacuity guard: an exploration with a single observed outcome means nothing collided.
        let mut machinery_fail = None;
        if self.outcomes.len() < 2 && self.evaluations > 1 {
            machinery_fail = Some(format!(
                "vacuous run: {} distinct outcome(s) from {} evaluations",
                self.outcomes.len(),
                self.evaluations
            ));
        }
        for k in &self.known {
            if !self.known_hit.contains_key(&k.signature) {
                println!(
                    "note: known finding [{}] of {} was not observed in this run",
                    k.signature, self.id
                );
            }
        }
        let wall = self.elapsed();
        let mut cov = Map::new();
        cov.insert("states".into(), json!(self.states.max(1)));
        cov.insert("transitions".into(), json!(self.transitions.max(1)));
        cov.insert("traces_validated_against_impl".into(), json!(self.traces));
        cov.insert("evaluations".into(), json!(self.evaluations.max(1)));
        cov.insert("distinct_nontrivial".into(), json!(self.nontrivial + self.nt_keys.len() as u64));
        cov.insert("rule".into(), json!(self.rule));
        if self.samples.is_empty() {
            self.samples.push(json!("no sample recorded"));
        }
        cov.insert("samples".into(), Value::Array(self.samples.clone()));
        cov.insert("exhaustive".into(), json!(self.exhaustive && self.caps.is_empty()));
        cov.insert(
            "distinct_outcomes".into(),
            json!(self.outcomes.iter().take(40).cloned().collect::<Vec<_>>()),
        );
        cov.insert("n_distinct_outcomes".into(), json!(self.outcomes.len()));
        cov.insert("caps_hit".into(), json!(self.caps));
        cov.insert(
            "known_findings_observed".into(),
            json!(self
                .known_hit
                .iter()
                .map(|(k, v)| json!({"signature": k, "instances": v}))
                .collect::<Vec<_>>()),
        );
        cov.insert(
            "violation_signatures".into(),
            json!(self
                .viol_sigs
                .iter()
                .map(|(k, v)| json!({"signature": k, "instances": v}))
                .collect::<Vec<_>>()),
        );
        for (k, v) in self.extra.iter() {
            cov.insert(k.clone(), v.clone());
        }
        let ev = json!({
            "property_id": self.id,
            "tier": self.tier,
            "seed": self.seed,
            "level": self.level,
            "coverage": Value::Object(cov),
            "assumptions": self.assumptions,
            "wall_s": (wall * 1000.0).round() / 1000.0,
            "violations": self.violations,
        });
        let dir = verif_root().join("evidence");
        let _ = fs::create_dir_all(&dir);
        let path = dir.join(format!("{}.json", self.id));
        if let Err(e) = fs::write(&path, serde_json::to_string_pretty(&ev).unwrap()) {
            eprintln!("cannot write evidence {}: {e}", path.display());
            return 2;
        }
        println!(
            "{} tier={} evaluations={} states={} transitions={} nontrivial={} outcomes={} violations={} known_hits={} exhaustive={} wall={:.2}s",
            self.id,
            self.tier,
            self.evaluations,
            self.states,
            self.transitions,
            self.nontrivial + self.nt_keys.len() as u64,
            self.outcomes.len(),
            self.violations,
            self.known_hits(),
            self.exhaustive && self.caps.is_empty(),
            wall
        );
        // a run that found violations is a verdict even if it explored little
        if self.violations > 0 {
            return 1;
        }
        if let Some(m) = machinery_fail {
            eprintln!("MACHINERY FAILURE: {m}");
            return 2;
        }
        0
    }
}

/// Budget helper: wall clock cap inside the engines (never a failure, reported as a cap).
pub struct Budget {
    start: Instant,
    limit_s: f64,
}

impl Budget {
    pub fn new(limit_s: f64) -> Self {
        Budget { start: Instant::now(), limit_s }
    }
    pub fn exceeded(&self) -> bool {
        self.start.elapsed().as_secs_f64() > self.limit_s
    }
}

/// Per-thread accumulator merged into the report afterwards (checks that fan out over threads).
#[derive(Default)]
pub struct Acc {
    pub evaluations: u64,
    pub transitions: u64,
    pub nontrivial: u64,
    pub outcomes: BTreeSet<String>,
    pub violations: Vec<(String, String, Value)>,
    pub per_sig: BTreeMap<String, u64>,
}

impl Acc {
    pub fn outcome(&mut self, o: &str) {
        if !self.outcomes.contains(o) {
            self.outcomes.insert(o.to_string());
        }
    }
    pub fn violation(&mut self, sig: &str, what: &str, case: Value) {
        let n = self.per_sig.entry(sig.to_string()).or_insert(0);
        *n += 1;
        if *n <= 3 {
            self.violations.push((sig.to_string(), what.to_string(), case));
        } else {
            self.violations.push((sig.to_string(), String::new(), Value::Null));
        }
    }
    pub fn merge_into(self, rep: &mut Report) {
        rep.evaluations += self.evaluations;
        rep.transitions += self.transitions;
        rep.nontrivial += self.nontrivial;
        for o in self.outcomes {
            rep.outcome(&o);
        }
        for (s, w, c) in self.violations {
            rep.violation(&s, &w, c);
        }
    }
}
