//! Real `Frontend` (and the two proxies) against a scripted raw peer: replies are encoded by the
//! independent codec and queued; the coop pump delivers them (possibly in segments) when the
//! endpoint starts waiting.

#![allow(dead_code)]

use crate::feops::{FeOp, Resources};
use crate::rawpeer::{drain, send_with_fds, Received};
use crate::recorder::{config_pattern, Script};
use crate::spec::*;
use crate::sysshim::coop;
use std::cell::{Cell, RefCell};
use std::collections::VecDeque;
use std::os::unix::io::{AsRawFd, RawFd};
use std::os::unix::net::UnixStream;
use std::rc::Rc;
use vhost::vhost_user::message::VhostUserProtocolFeatures;
use vhost::vhost_user::{Frontend, VhostUserFrontend};
use vhost::VhostBackend;

pub type SegQueue = Rc<RefCell<VecDeque<(Vec<u8>, Vec<RawFd>)>>>;

/// A scripted raw peer attached to some library endpoint whose socket is `ep_fd`.
pub struct RawScript {
    pub ep_fd: RawFd,
    pub peer: UnixStream,
    pub queue: SegQueue,
    /// once the queue is empty, close the peer's write side instead of letting the endpoint wait
    pub eof_when_empty: Rc<Cell<bool>>,
}

impl RawScript {
    pub fn attach(ep_fd: RawFd, peer: UnixStream) -> Self {
        let queue: SegQueue = Rc::new(RefCell::new(VecDeque::new()));
        let eof = Rc::new(Cell::new(false));
        let q = queue.clone();
        let e = eof.clone();
        let pfd = peer.as_raw_fd();
        coop::set_pump(ep_fd, move || {
            let seg = q.borrow_mut().pop_front();
            match seg {
                Some((b, f)) => {
                    send_with_fds(pfd, &b, &f);
                }
                None => {
                    if e.get() {
                        // SAFETY: shutdown on our own socket.
                        unsafe { libc::syscall(libc::SYS_shutdown, pfd as libc::c_long, libc::SHUT_RDWR as libc::c_long) };
                    }
                }
            }
        });
        RawScript { ep_fd, peer, queue, eof_when_empty: eof }
    }

    pub fn queue(&self, bytes: &[u8], fds: &[RawFd], cuts: &[usize]) {
        let mut q = self.queue.borrow_mut();
        let mut prev = 0;
        let mut first = true;
        for &c in cuts.iter().chain(std::iter::once(&bytes.len())) {
            if c <= prev || c > bytes.len() {
                continue;
            }
            q.push_back((bytes[prev..c].to_vec(), if first { fds.to_vec() } else { vec![] }));
            first = false;
            prev = c;
        }
        if bytes.is_empty() && !fds.is_empty() {
            // descriptors cannot travel without a byte; nothing queued
        }
    }

    pub fn pending(&self) -> usize {
        self.queue.borrow().len()
    }

    pub fn clear(&self) {
        self.queue.borrow_mut().clear();
    }

    /// What the endpoint wrote to us so far.
    pub fn take_written(&self) -> Received {
        drain(self.peer.as_raw_fd(), 65536)
    }
}

impl Drop for RawScript {
    fn drop(&mut self) {
        coop::unwatch(self.ep_fd);
    }
}

pub struct FeRaw {
    pub fe: Frontend,
    pub raw: RawScript,
}

impl FeRaw {
    pub fn new(max_queues: u64) -> Self {
        let (a, b) = UnixStream::pair().unwrap();
        let fd = a.as_raw_fd();
        let fe = Frontend::from_stream(a, max_queues);
        FeRaw { fe, raw: RawScript::attach(fd, b) }
    }

    /// Drive the real negotiation API against scripted replies.
    pub fn negotiate(&mut self, virtio: u64, proto_offered: u64, proto_ack: u64) -> Result<(), String> {
        self.raw.queue(&message(GET_FEATURES, F_REPLY | F_VERSION, &p_u64(virtio)), &[], &[]);
        let f = self.fe.get_features().map_err(|e| format!("{e:?}"))?;
        self.fe.set_features(f).map_err(|e| format!("{e:?}"))?;
        if virtio & VIRTIO_F_PROTOCOL_FEATURES != 0 {
            self.raw.queue(&message(GET_PROTOCOL_FEATURES, F_REPLY | F_VERSION, &p_u64(proto_offered)), &[], &[]);
            self.fe.get_protocol_features().map_err(|e| format!("{e:?}"))?;
            self.fe.set_protocol_features(VhostUserProtocolFeatures::from_bits_retain(proto_ack)).map_err(|e| format!("{e:?}"))?;
        }
        let _ = self.raw.take_written();
        Ok(())
    }
}

/// The specification's reply to `op` carrying the values of `s` (what a conformant backend
/// whose handler produced `s` would write). Returns (bytes, descriptors).
pub fn correct_reply(op: &FeOp, s: &Script, res: &Resources) -> (Vec<u8>, Vec<RawFd>) {
    let fl = F_REPLY | F_VERSION;
    let code = op.code();
    let retfd = res.ret.as_raw_fd();
    match op {
        FeOp::GetFeatures => (message(code, fl, &p_u64(s.features)), vec![]),
        FeOp::GetProtocolFeatures => (message(code, fl, &p_u64(s.proto | PF_REPLY_ACK)), vec![]),
        FeOp::GetQueueNum => (message(code, fl, &p_u64(s.queue_num)), vec![]),
        FeOp::GetMaxMemSlots => (message(code, fl, &p_u64(s.max_slots)), vec![]),
        FeOp::GetVringBase(q) => (message(code, fl, &p_vring_state(*q as u32, s.vring_base)), vec![]),
        FeOp::GetConfig(o, sz, f) => (message(code, fl, &p_config(*o, *sz, *f, &config_pattern(*o, *sz))), vec![]),
        FeOp::GetInflightFd(..) => (message(code, fl, &p_inflight(s.inflight.0, s.inflight.1, s.inflight.2, s.inflight.3)), vec![retfd]),
        FeOp::GetSharedObject(_) => (message(code, fl, &[]), vec![retfd]),
        FeOp::SetDeviceStateFd(_) => {
            if s.state_returns_file {
                (message(code, fl, &p_u64(0)), vec![retfd])
            } else {
                (message(code, fl, &p_u64(0x100)), vec![])
            }
        }
        FeOp::CheckDeviceState => (message(code, fl, &p_u64(0)), vec![]),
        FeOp::GetShmemConfig => (message(code, fl, &p_shmem_config(s.shmem.0, &s.shmem.1)), vec![]),
        FeOp::SetLogBase(_, Some((sz, off))) => (message(code, fl, &p_log(*sz, *off)), vec![]),
        // everything else: the REPLY_ACK acknowledgement
        _ => (message(code, fl, &p_u64(0)), vec![]),
    }
}

/// The specification's encoding of the request `op` (header flags `flags`), with descriptors.
pub fn correct_request(op: &FeOp, flags: u32, res: &Resources) -> (Vec<u8>, Vec<RawFd>) {
    use crate::feops::set_config_payload;
    let code = op.code();
    let m = |i: usize| res.mem[i % res.mem.len()].as_raw_fd();
    let (payload, fds): (Vec<u8>, Vec<RawFd>) = match op {
        FeOp::GetFeatures | FeOp::SetOwner | FeOp::ResetOwner | FeOp::GetProtocolFeatures | FeOp::GetQueueNum | FeOp::ResetDevice
        | FeOp::GetMaxMemSlots | FeOp::GetShmemConfig | FeOp::CheckDeviceState => (vec![], vec![]),
        FeOp::SetFeatures(v) | FeOp::SetProtocolFeatures(v) => (p_u64(*v), vec![]),
        FeOp::SetMemTable(rs) => (
            p_mem_table(&rs.iter().map(|r| Region { gpa: r.0, size: r.1, user: r.2, offset: r.3 }).collect::<Vec<_>>()),
            rs.iter().map(|r| m(r.4)).collect(),
        ),
        FeOp::SetLogBase(_, Some((s, o))) => (p_log(*s, *o), vec![m(1)]),
        FeOp::SetLogBase(b, None) => (p_u64(*b), vec![]),
        FeOp::SetLogFd => (vec![], vec![res.ev[0].as_raw_fd()]),
        FeOp::SetVringNum(q, n) => (p_vring_state(*q as u32, *n as u32), vec![]),
        FeOp::SetVringBase(q, n) => (p_vring_state(*q as u32, *n as u32), vec![]),
        FeOp::GetVringBase(q) => (p_vring_state(*q as u32, 0), vec![]),
        FeOp::SetVringAddr(q, f, d, u, a, l) => (p_vring_addr(*q as u32, *f, *d, *u, *a, l.unwrap_or(0)), vec![]),
        FeOp::SetVringCall(q) => (p_u64(*q as u64), vec![res.ev[0].as_raw_fd()]),
        FeOp::SetVringKick(q) => (p_u64(*q as u64), vec![res.ev[1].as_raw_fd()]),
        FeOp::SetVringErr(q) => (p_u64(*q as u64), vec![res.ev[2].as_raw_fd()]),
        FeOp::SetVringEnable(q, e) => (p_vring_state(*q as u32, *e as u32), vec![]),
        FeOp::GetConfig(o, s, f) => (p_config(*o, *s, *f, &vec![0u8; *s as usize]), vec![]),
        FeOp::SetConfig(o, f, len) => (p_config(*o, *len as u32, *f, &set_config_payload(*o, *len)), vec![]),
        FeOp::SetBackendReqFd => (vec![], vec![res.sock.1.as_raw_fd()]),
        FeOp::GetSharedObject(u) => (p_uuid(u), vec![]),
        FeOp::GetInflightFd(a, b, c, d) => (p_inflight(*a, *b, *c, *d), vec![]),
        FeOp::SetInflightFd(a, b, c, d) => (p_inflight(*a, *b, *c, *d), vec![m(2)]),
        FeOp::AddMemRegion(g, s, u, o, i) => (p_single_region(&Region { gpa: *g, size: *s, user: *u, offset: *o }), vec![m(*i)]),
        FeOp::RemoveMemRegion(g, s, u, o) | FeOp::RemoveMemRegionNoFd(g, s, u, o) => (p_single_region(&Region { gpa: *g, size: *s, user: *u, offset: *o }), vec![]),
        FeOp::SetDeviceStateFd(d) => (p_transfer(*d, 0), vec![m(3)]),
    };
    (message(code, flags, &payload), fds)
}

/// Byte ranges of a request that the specification leaves unspecified (compared as don't-care).
pub fn dont_care_ranges(op: &FeOp) -> Vec<(usize, usize)> {
    match op {
        // 4 bytes of tail padding of the 24-byte inflight descriptor
        FeOp::GetInflightFd(..) | FeOp::SetInflightFd(..) => vec![(12 + 20, 12 + 24)],
        _ => vec![],
    }
}
