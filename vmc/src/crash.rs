//! Fatal-signal trap: a check that feeds hostile input to the library registers the case it is
//! about to execute; if the process then dies on SIGSEGV/SIGBUS/SIGABRT/SIGILL/SIGFPE (memory
//! fault, allocation failure, std's I/O-safety abort, ...) the handler writes that case as a
//! replay artefact and reports it as a violation. Only async-signal-safe calls are used.

use std::sync::atomic::{AtomicUsize, Ordering};

const CAP: usize = 2048;
static mut CASE: [u8; CAP] = [0; CAP];
static CASE_LEN: AtomicUsize = AtomicUsize::new(0);
static mut PATH: [u8; 256] = [0; 256];
static mut LINE: [u8; 320] = [0; 320];
static LINE_LEN: AtomicUsize = AtomicUsize::new(0);

extern "C" fn handler(sig: libc::c_int) {
    // SAFETY: only reads statics written before the signal, and async-signal-safe syscalls.
    unsafe {
        let path = std::ptr::addr_of!(PATH) as *const libc::c_char;
        let fd = libc::open(path, libc::O_WRONLY | libc::O_CREAT | libc::O_TRUNC, 0o644);
        if fd >= 0 {
            let n = CASE_LEN.load(Ordering::Relaxed).min(CAP);
            libc::write(fd, std::ptr::addr_of!(CASE) as *const libc::c_void, n);
            libc::close(fd);
        }
        libc::write(1, std::ptr::addr_of!(LINE) as *const libc::c_void, LINE_LEN.load(Ordering::Relaxed));
        let _ = sig;
        libc::_exit(1);
    }
}

/// Install the trap for property `prop` (e.g. "C05").
pub fn install(prop: &str) {
    let dir = crate::report::verif_root().join("replays").join(prop);
    let _ = std::fs::create_dir_all(&dir);
    let path = dir.join("crash.json");
    let p = path.to_string_lossy().to_string();
    let line = format!("VIOLATION property={prop} replay={p}\n  signature: {prop}:process-killed-by-signal\n");
    // SAFETY: single-threaded initialisation before any case runs.
    unsafe {
        let pb = p.as_bytes();
        let dst = std::ptr::addr_of_mut!(PATH) as *mut u8;
        std::ptr::copy_nonoverlapping(pb.as_ptr(), dst, pb.len().min(255));
        *dst.add(pb.len().min(255)) = 0;
        let lb = line.as_bytes();
        let dst = std::ptr::addr_of_mut!(LINE) as *mut u8;
        std::ptr::copy_nonoverlapping(lb.as_ptr(), dst, lb.len().min(320));
        LINE_LEN.store(lb.len().min(320), Ordering::Relaxed);
        for s in [libc::SIGSEGV, libc::SIGBUS, libc::SIGABRT, libc::SIGILL, libc::SIGFPE] {
            libc::signal(s, handler as usize);
        }
    }
    set_case(&format!("{{\"property\":\"{prop}\",\"signature\":\"{prop}:process-killed-by-signal\",\"case\":\"(no case registered yet)\"}}"));
}

/// Register the case about to be executed (JSON text).
pub fn set_case(json: &str) {
    let b = json.as_bytes();
    let n = b.len().min(CAP);
    // SAFETY: plain copy into the static buffer; a torn read in the handler only garbles the text.
    unsafe {
        std::ptr::copy_nonoverlapping(b.as_ptr(), std::ptr::addr_of_mut!(CASE) as *mut u8, n);
    }
    CASE_LEN.store(n, Ordering::Relaxed);
}

// ------------------------------------------------------------------------------------------------
// A caller that can never acquire an endpoint mutex (outside the E2 controller, which treats the
// same situation as "no actor enabled"): the check's thread would hang for ever, so the verdict is
// written here and the process ends.

static PROP: std::sync::Mutex<String> = std::sync::Mutex::new(String::new());
static CURRENT_OP: std::sync::Mutex<String> = std::sync::Mutex::new(String::new());

/// The library call the check is about to make (text for the replay artefact).
pub fn set_op(text: String) {
    *CURRENT_OP.lock().unwrap() = text;
}

/// Install the process-wide lock-point callback of the `vhost` crate: under the E2 controller the
/// acquisition is a scheduling point; elsewhere a mutex that stays unavailable for 6 s (every
/// check outside E2 calls the endpoints from one thread at a time, so nobody can release it) is a
/// caller that dead-locked itself.
pub fn install_lock_hook(prop: &str) {
    *PROP.lock().unwrap() = prop.to_string();
    vhost::vhost_user::verif::set_lock_point(Box::new(|site, free| {
        if crate::sysshim::sched_on() {
            crate::sysshim::sched_point(crate::sysshim::Point::Lock(site), free);
            return;
        }
        if free() {
            return;
        }
        let start = std::time::Instant::now();
        while !free() {
            if start.elapsed() > std::time::Duration::from_secs(6) {
                never_acquired(site);
            }
            std::thread::sleep(std::time::Duration::from_millis(2));
        }
    }));
}

fn never_acquired(site: &str) -> ! {
    let prop = PROP.lock().unwrap().clone();
    let op = CURRENT_OP.lock().unwrap().clone();
    let dir = crate::report::verif_root().join("replays").join(&prop);
    let _ = std::fs::create_dir_all(&dir);
    let path = dir.join("blocked.json");
    let sig = format!("{prop}:call-never-completes:endpoint-mutex:{site}");
    let what = format!("the calling thread waits for the `{site}` endpoint mutex, which stayed unavailable for 6 s although no other thread uses the endpoint (the caller holds it itself); last library call started by the check: {op}");
    let body = serde_json::json!({"property": prop, "signature": sig, "what": what, "case": {"check": prop, "last_call": op, "site": site}});
    let _ = std::fs::write(&path, serde_json::to_string_pretty(&body).unwrap());
    println!("VIOLATION property={prop} replay={}", path.display());
    println!("  signature: {sig}");
    println!("  what: {what}");
    use std::io::Write;
    let _ = std::io::stdout().flush();
    // SAFETY: immediate exit; the blocked thread cannot unwind.
    unsafe { libc::_exit(1) }
}
