//! Fatal-signal trap: a check that feeds hostile input to the library registers the case it is
//! about to execute; if the process then dies on SIGSEGV/SIGBUS/SIGABRT/SIGILL/SIGFPE (memory
//! fault, allocation failure, std's I/O-safety abort, ...) the handler writes that case as a
//! replay artefact and reports it as a violation. Only async-signal-safe calls are used.

use std::sync::atomic::{AtomicUsize, Ordering};

const CAP: usize = 2048;
static mut CASE: [u8; CAP] = [0; CAP];
static CASE_LEN: AtomicUsize = AtomicUsize::new(0);
static mut PATH: [u8; 256] = [0; 256];
static mut LINE: [u8; 320] = [0; 320];
static LINE_LEN: AtomicUsize = AtomicUsize::new(0);

extern "C" fn handler(sig: libc::c_int) {
    // SAFETY: only reads statics written before the signal, and async-signal-safe syscalls.
    unsafe {
        let path = std::ptr::addr_of!(PATH) as *const libc::c_char;
        let fd = libc::open(path, libc::O_WRONLY | libc::O_CREAT | libc::O_TRUNC, 0o644);
        if fd >= 0 {
            let n = CASE_LEN.load(Ordering::Relaxed).min(CAP);
            libc::write(fd, std::ptr::addr_of!(CASE) as *const libc::c_void, n);
            libc::close(fd);
        }
        libc::write(1, std::ptr::addr_of!(LINE) as *const libc::c_void, LINE_LEN.load(Ordering::Relaxed));
        let _ = sig;
        libc::_exit(1);
    }
}

/// Install the trap for property `prop` (e.g. "C05").
pub fn install(prop: &str) {
    let dir = crate::report::verif_root().join("replays").join(prop);
    let _ = std::fs::create_dir_all(&dir);
    let path = dir.join("crash.json");
    let p = path.to_string_lossy().to_string();
    let line = format!("VIOLATION property={prop} replay={p}\n  signature: {prop}:process-killed-by-signal\n");
    // SAFETY: single-threaded initialisation before any case runs.
    unsafe {
        let pb = p.as_bytes();
        let dst = std::ptr::addr_of_mut!(PATH) as *mut u8;
        std::ptr::copy_nonoverlapping(pb.as_ptr(), dst, pb.len().min(255));
        *dst.add(pb.len().min(255)) = 0;
        let lb = line.as_bytes();
        let dst = std::ptr::addr_of_mut!(LINE) as *mut u8;
        std::ptr::copy_nonoverlapping(lb.as_ptr(), dst, lb.len().min(320));
        LINE_LEN.store(lb.len().min(320), Ordering::Relaxed);
        for s in [libc::SIGSEGV, libc::SIGBUS, libc::SIGABRT, libc::SIGILL, libc::SIGFPE] {
            libc::signal(s, handler as usize);
        }
    }
    set_case(&format!("{{\"property\":\"{prop}\",\"signature\":\"{prop}:process-killed-by-signal\",\"case\":\"(no case registered yet)\"}}"));
}

/// Register the case about to be executed (JSON text).
pub fn set_case(json: &str) {
    let b = json.as_bytes();
    let n = b.len().min(CAP);
    // SAFETY: plain copy into the static buffer; a torn read in the handler only garbles the text.
    unsafe {
        std::ptr::copy_nonoverlapping(b.as_ptr(), std::ptr::addr_of_mut!(CASE) as *mut u8, n);
    }
    CASE_LEN.store(n, Ordering::Relaxed);
}
