//! Independent encoder/decoder of the vhost-user and vhost-user-gpu wire formats, written from
//! the specification (docs/interop/vhost-user.rst, vhost-user-gpu.rst) with literal request
//! numbers, literal bit values and explicit byte offsets. It shares no type, constant or macro
//! with the crates under test.
//!
//! Message = 12-byte header { u32 request; u32 flags; u32 size } in native byte order followed
//! by `size` payload bytes. flags: bits 0-1 version (=1), bit 2 REPLY, bit 3 NEED_REPLY.
//! On the GPU channel flags carries only REPLY (0x4), no version.

#![allow(dead_code)]

pub const F_VERSION: u32 = 0x1;
pub const F_REPLY: u32 = 0x4;
pub const F_NEED_REPLY: u32 = 0x8;

// virtio feature bit 30, vhost-user "protocol features" handshake
pub const VIRTIO_F_PROTOCOL_FEATURES: u64 = 1 << 30;
pub const VIRTIO_F_LOG_ALL: u64 = 1 << 26;

// protocol feature bits (bit numbers from the specification)
pub const PF_MQ: u64 = 1 << 0;
pub const PF_LOG_SHMFD: u64 = 1 << 1;
pub const PF_RARP: u64 = 1 << 2;
pub const PF_REPLY_ACK: u64 = 1 << 3;
pub const PF_MTU: u64 = 1 << 4;
pub const PF_BACKEND_REQ: u64 = 1 << 5;
pub const PF_CROSS_ENDIAN: u64 = 1 << 6;
pub const PF_CRYPTO_SESSION: u64 = 1 << 7;
pub const PF_PAGEFAULT: u64 = 1 << 8;
pub const PF_CONFIG: u64 = 1 << 9;
pub const PF_BACKEND_SEND_FD: u64 = 1 << 10;
pub const PF_HOST_NOTIFIER: u64 = 1 << 11;
pub const PF_INFLIGHT_SHMFD: u64 = 1 << 12;
pub const PF_RESET_DEVICE: u64 = 1 << 13;
pub const PF_INBAND_NOTIFICATIONS: u64 = 1 << 14;
pub const PF_CONFIGURE_MEM_SLOTS: u64 = 1 << 15;
pub const PF_STATUS: u64 = 1 << 16;
pub const PF_XEN_MMAP: u64 = 1 << 17;
pub const PF_SHARED_OBJECT: u64 = 1 << 18;
pub const PF_DEVICE_STATE: u64 = 1 << 19;
pub const PF_GET_VRING_BASE_INFLIGHT: u64 = 1 << 20;
pub const PF_SHMEM: u64 = 1 << 21;
pub const PF_ALL_DEFINED: u64 = (1 << 22) - 1;

// front-end request codes
pub const GET_FEATURES: u32 = 1;
pub const SET_FEATURES: u32 = 2;
pub const SET_OWNER: u32 = 3;
pub const RESET_OWNER: u32 = 4;
pub const SET_MEM_TABLE: u32 = 5;
pub const SET_LOG_BASE: u32 = 6;
pub const SET_LOG_FD: u32 = 7;
pub const SET_VRING_NUM: u32 = 8;
pub const SET_VRING_ADDR: u32 = 9;
pub const SET_VRING_BASE: u32 = 10;
pub const GET_VRING_BASE: u32 = 11;
pub const SET_VRING_KICK: u32 = 12;
pub const SET_VRING_CALL: u32 = 13;
pub const SET_VRING_ERR: u32 = 14;
pub const GET_PROTOCOL_FEATURES: u32 = 15;
pub const SET_PROTOCOL_FEATURES: u32 = 16;
pub const GET_QUEUE_NUM: u32 = 17;
pub const SET_VRING_ENABLE: u32 = 18;
pub const SEND_RARP: u32 = 19;
pub const NET_SET_MTU: u32 = 20;
pub const SET_BACKEND_REQ_FD: u32 = 21;
pub const IOTLB_MSG: u32 = 22;
pub const SET_VRING_ENDIAN: u32 = 23;
pub const GET_CONFIG: u32 = 24;
pub const SET_CONFIG: u32 = 25;
pub const CREATE_CRYPTO_SESSION: u32 = 26;
pub const CLOSE_CRYPTO_SESSION: u32 = 27;
pub const POSTCOPY_ADVISE: u32 = 28;
pub const POSTCOPY_LISTEN: u32 = 29;
pub const POSTCOPY_END: u32 = 30;
pub const GET_INFLIGHT_FD: u32 = 31;
pub const SET_INFLIGHT_FD: u32 = 32;
pub const GPU_SET_SOCKET: u32 = 33;
pub const RESET_DEVICE: u32 = 34;
pub const VRING_KICK: u32 = 35;
pub const GET_MAX_MEM_SLOTS: u32 = 36;
pub const ADD_MEM_REG: u32 = 37;
pub const REM_MEM_REG: u32 = 38;
pub const SET_STATUS: u32 = 39;
pub const GET_STATUS: u32 = 40;
pub const GET_SHARED_OBJECT: u32 = 41;
pub const SET_DEVICE_STATE_FD: u32 = 42;
pub const CHECK_DEVICE_STATE: u32 = 43;
pub const GET_SHMEM_CONFIG: u32 = 44;

pub fn frontend_req_name(code: u32) -> &'static str {
    match code {
        1 => "GET_FEATURES",
        2 => "SET_FEATURES",
        3 => "SET_OWNER",
        4 => "RESET_OWNER",
        5 => "SET_MEM_TABLE",
        6 => "SET_LOG_BASE",
        7 => "SET_LOG_FD",
        8 => "SET_VRING_NUM",
        9 => "SET_VRING_ADDR",
        10 => "SET_VRING_BASE",
        11 => "GET_VRING_BASE",
        12 => "SET_VRING_KICK",
        13 => "SET_VRING_CALL",
        14 => "SET_VRING_ERR",
        15 => "GET_PROTOCOL_FEATURES",
        16 => "SET_PROTOCOL_FEATURES",
        17 => "GET_QUEUE_NUM",
        18 => "SET_VRING_ENABLE",
        19 => "SEND_RARP",
        20 => "NET_SET_MTU",
        21 => "SET_BACKEND_REQ_FD",
        22 => "IOTLB_MSG",
        23 => "SET_VRING_ENDIAN",
        24 => "GET_CONFIG",
        25 => "SET_CONFIG",
        26 => "CREATE_CRYPTO_SESSION",
        27 => "CLOSE_CRYPTO_SESSION",
        28 => "POSTCOPY_ADVISE",
        29 => "POSTCOPY_LISTEN",
        30 => "POSTCOPY_END",
        31 => "GET_INFLIGHT_FD",
        32 => "SET_INFLIGHT_FD",
        33 => "GPU_SET_SOCKET",
        34 => "RESET_DEVICE",
        35 => "VRING_KICK",
        36 => "GET_MAX_MEM_SLOTS",
        37 => "ADD_MEM_REG",
        38 => "REM_MEM_REG",
        39 => "SET_STATUS",
        40 => "GET_STATUS",
        41 => "GET_SHARED_OBJECT",
        42 => "SET_DEVICE_STATE_FD",
        43 => "CHECK_DEVICE_STATE",
        44 => "GET_SHMEM_CONFIG",
        _ => "UNKNOWN",
    }
}

// back-end request codes (backend -> frontend channel)
pub const B_IOTLB_MSG: u32 = 1;
pub const B_CONFIG_CHANGE_MSG: u32 = 2;
pub const B_VRING_HOST_NOTIFIER_MSG: u32 = 3;
pub const B_VRING_CALL: u32 = 4;
pub const B_VRING_ERR: u32 = 5;
pub const B_SHARED_OBJECT_ADD: u32 = 6;
pub const B_SHARED_OBJECT_REMOVE: u32 = 7;
pub const B_SHARED_OBJECT_LOOKUP: u32 = 8;
pub const B_SHMEM_MAP: u32 = 9;
pub const B_SHMEM_UNMAP: u32 = 10;

// vhost-user-gpu request codes
pub const G_GET_PROTOCOL_FEATURES: u32 = 1;
pub const G_SET_PROTOCOL_FEATURES: u32 = 2;
pub const G_GET_DISPLAY_INFO: u32 = 3;
pub const G_CURSOR_POS: u32 = 4;
pub const G_CURSOR_POS_HIDE: u32 = 5;
pub const G_CURSOR_UPDATE: u32 = 6;
pub const G_SCANOUT: u32 = 7;
pub const G_UPDATE: u32 = 8;
pub const G_DMABUF_SCANOUT: u32 = 9;
pub const G_DMABUF_UPDATE: u32 = 10;
pub const G_GET_EDID: u32 = 11;
pub const G_DMABUF_SCANOUT2: u32 = 12;

pub fn header(code: u32, flags: u32, size: u32) -> [u8; 12] {
    let mut h = [0u8; 12];
    h[0..4].copy_from_slice(&code.to_ne_bytes());
    h[4..8].copy_from_slice(&flags.to_ne_bytes());
    h[8..12].copy_from_slice(&size.to_ne_bytes());
    h
}

/// Whole message bytes (header with size = payload length).
pub fn message(code: u32, flags: u32, payload: &[u8]) -> Vec<u8> {
    let mut v = header(code, flags, payload.len() as u32).to_vec();
    v.extend_from_slice(payload);
    v
}

pub fn rd32(b: &[u8], off: usize) -> u32 {
    u32::from_ne_bytes([b[off], b[off + 1], b[off + 2], b[off + 3]])
}
pub fn rd64(b: &[u8], off: usize) -> u64 {
    let mut a = [0u8; 8];
    a.copy_from_slice(&b[off..off + 8]);
    u64::from_ne_bytes(a)
}
pub fn rd16(b: &[u8], off: usize) -> u16 {
    u16::from_ne_bytes([b[off], b[off + 1]])
}

#[derive(Clone, Debug, PartialEq, Eq)]
pub struct Decoded {
    pub code: u32,
    pub flags: u32,
    pub size: u32,
    pub payload: Vec<u8>,
}

/// Split a byte stream into messages. Err(position) if the stream ends inside a message.
pub fn parse_stream(b: &[u8]) -> Result<Vec<Decoded>, usize> {
    let mut out = Vec::new();
    let mut p = 0;
    while p < b.len() {
        if b.len() - p < 12 {
            return Err(p);
        }
        let code = rd32(b, p);
        let flags = rd32(b, p + 4);
        let size = rd32(b, p + 8);
        let end = p + 12 + size as usize;
        if end > b.len() {
            return Err(p);
        }
        out.push(Decoded { code, flags, size, payload: b[p + 12..end].to_vec() });
        p = end;
    }
    Ok(out)
}

// ---- payload builders -------------------------------------------------------------------------

pub fn p_u64(v: u64) -> Vec<u8> {
    v.to_ne_bytes().to_vec()
}

/// struct vhost_vring_state { u32 index; u32 num; }
pub fn p_vring_state(index: u32, num: u32) -> Vec<u8> {
    let mut v = vec![0u8; 8];
    v[0..4].copy_from_slice(&index.to_ne_bytes());
    v[4..8].copy_from_slice(&num.to_ne_bytes());
    v
}

/// struct vhost_vring_addr { u32 index; u32 flags; u64 desc_user_addr; u64 used_user_addr;
/// u64 avail_user_addr; u64 log_guest_addr; }
pub fn p_vring_addr(index: u32, flags: u32, desc: u64, used: u64, avail: u64, log: u64) -> Vec<u8> {
    let mut v = vec![0u8; 40];
    v[0..4].copy_from_slice(&index.to_ne_bytes());
    v[4..8].copy_from_slice(&flags.to_ne_bytes());
    v[8..16].copy_from_slice(&desc.to_ne_bytes());
    v[16..24].copy_from_slice(&used.to_ne_bytes());
    v[24..32].copy_from_slice(&avail.to_ne_bytes());
    v[32..40].copy_from_slice(&log.to_ne_bytes());
    v
}

#[derive(Clone, Copy, Debug, PartialEq, Eq, Default)]
pub struct Region {
    pub gpa: u64,
    pub size: u64,
    pub user: u64,
    pub offset: u64,
}

/// VhostUserMemoryRegion { u64 guest_phys_addr; u64 memory_size; u64 userspace_addr; u64 mmap_offset; }
pub fn p_region(r: &Region) -> Vec<u8> {
    let mut v = vec![0u8; 32];
    v[0..8].copy_from_slice(&r.gpa.to_ne_bytes());
    v[8..16].copy_from_slice(&r.size.to_ne_bytes());
    v[16..24].copy_from_slice(&r.user.to_ne_bytes());
    v[24..32].copy_from_slice(&r.offset.to_ne_bytes());
    v
}

/// VhostUserMemory { u32 nregions; u32 padding; VhostUserMemoryRegion regions[nregions]; }
pub fn p_mem_table(regions: &[Region]) -> Vec<u8> {
    let mut v = vec![0u8; 8];
    v[0..4].copy_from_slice(&(regions.len() as u32).to_ne_bytes());
    for r in regions {
        v.extend_from_slice(&p_region(r));
    }
    v
}

/// VhostUserMemRegMsg { u64 padding; VhostUserMemoryRegion region; }
pub fn p_single_region(r: &Region) -> Vec<u8> {
    let mut v = vec![0u8; 8];
    v.extend_from_slice(&p_region(r));
    v
}

/// VhostUserConfig { u32 offset; u32 size; u32 flags; u8 region[size]; }
pub fn p_config(offset: u32, size: u32, flags: u32, data: &[u8]) -> Vec<u8> {
    let mut v = vec![0u8; 12];
    v[0..4].copy_from_slice(&offset.to_ne_bytes());
    v[4..8].copy_from_slice(&size.to_ne_bytes());
    v[8..12].copy_from_slice(&flags.to_ne_bytes());
    v.extend_from_slice(data);
    v
}

/// VhostUserInflight { u64 mmap_size; u64 mmap_offset; u16 num_queues; u16 queue_size; } (+4 tail padding)
pub fn p_inflight(mmap_size: u64, mmap_offset: u64, num_queues: u16, queue_size: u16) -> Vec<u8> {
    let mut v = vec![0u8; 24];
    v[0..8].copy_from_slice(&mmap_size.to_ne_bytes());
    v[8..16].copy_from_slice(&mmap_offset.to_ne_bytes());
    v[16..18].copy_from_slice(&num_queues.to_ne_bytes());
    v[18..20].copy_from_slice(&queue_size.to_ne_bytes());
    v
}

/// VhostUserLog { u64 mmap_size; u64 mmap_offset; }
pub fn p_log(mmap_size: u64, mmap_offset: u64) -> Vec<u8> {
    let mut v = vec![0u8; 16];
    v[0..8].copy_from_slice(&mmap_size.to_ne_bytes());
    v[8..16].copy_from_slice(&mmap_offset.to_ne_bytes());
    v
}

/// VhostUserShared { unsigned char uuid[16]; }
pub fn p_uuid(u: &[u8; 16]) -> Vec<u8> {
    u.to_vec()
}

/// VhostUserTransferDeviceState { u32 direction; u32 phase; }
pub fn p_transfer(direction: u32, phase: u32) -> Vec<u8> {
    p_vring_state(direction, phase)
}

/// VhostUserMMap { u8 shmid; u8 padding[7]; u64 fd_offset; u64 shm_offset; u64 len; u64 flags; }
pub fn p_mmap(shmid: u8, fd_offset: u64, shm_offset: u64, len: u64, flags: u64) -> Vec<u8> {
    let mut v = vec![0u8; 40];
    v[0] = shmid;
    v[8..16].copy_from_slice(&fd_offset.to_ne_bytes());
    v[16..24].copy_from_slice(&shm_offset.to_ne_bytes());
    v[24..32].copy_from_slice(&len.to_ne_bytes());
    v[32..40].copy_from_slice(&flags.to_ne_bytes());
    v
}

/// VhostUserShMemConfig { u32 nregions; u32 padding; u64 memory_sizes[256]; }
pub fn p_shmem_config(nregions: u32, sizes: &[u64]) -> Vec<u8> {
    let mut v = vec![0u8; 8 + 256 * 8];
    v[0..4].copy_from_slice(&nregions.to_ne_bytes());
    for (i, s) in sizes.iter().enumerate().take(256) {
        v[8 + i * 8..16 + i * 8].copy_from_slice(&s.to_ne_bytes());
    }
    v
}

// ---- GPU payloads -----------------------------------------------------------------------------

pub fn p_u32s(vals: &[u32]) -> Vec<u8> {
    let mut v = Vec::with_capacity(vals.len() * 4);
    for x in vals {
        v.extend_from_slice(&x.to_ne_bytes());
    }
    v
}

/// virtio_gpu_ctrl_hdr { le32 type; le32 flags; le64 fence_id; le32 ctx_id; u8 ring_idx; u8 padding[3]; }
pub fn p_gpu_ctrl_hdr(ty: u32, flags: u32, fence: u64, ctx: u32, ring_idx: u8) -> Vec<u8> {
    let mut v = vec![0u8; 24];
    v[0..4].copy_from_slice(&ty.to_ne_bytes());
    v[4..8].copy_from_slice(&flags.to_ne_bytes());
    v[8..16].copy_from_slice(&fence.to_ne_bytes());
    v[16..20].copy_from_slice(&ctx.to_ne_bytes());
    v[20] = ring_idx;
    v
}

/// What kind of answer the protocol defines for a front-end request.
#[derive(Clone, Copy, Debug, PartialEq, Eq)]
pub enum ReplyKind {
    /// a reply with a payload is always defined
    Reply,
    /// no reply defined: acknowledged with a u64 only under REPLY_ACK + NEED_REPLY
    AckOnly,
}

pub fn reply_kind(code: u32) -> ReplyKind {
    match code {
        GET_FEATURES | GET_PROTOCOL_FEATURES | GET_QUEUE_NUM | GET_VRING_BASE | GET_CONFIG | GET_INFLIGHT_FD
        | GET_MAX_MEM_SLOTS | GET_SHARED_OBJECT | SET_DEVICE_STATE_FD | CHECK_DEVICE_STATE | GET_SHMEM_CONFIG
        | GET_STATUS | POSTCOPY_ADVISE | CREATE_CRYPTO_SESSION => ReplyKind::Reply,
        _ => ReplyKind::AckOnly,
    }
}
