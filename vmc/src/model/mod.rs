pub mod validators;
