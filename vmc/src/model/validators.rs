//! Reference validity predicates, written from the property statements (C05, C20) and the
//! vhost-user specification. They operate on raw little/native-endian bytes and share nothing
//! with the crate under test.

pub fn rd_u16(b: &[u8], off: usize) -> u16 {
    u16::from_ne_bytes([b[off], b[off + 1]])
}
pub fn rd_u32(b: &[u8], off: usize) -> u32 {
    u32::from_ne_bytes([b[off], b[off + 1], b[off + 2], b[off + 3]])
}
pub fn rd_u64(b: &[u8], off: usize) -> u64 {
    let mut a = [0u8; 8];
    a.copy_from_slice(&b[off..off + 8]);
    u64::from_ne_bytes(a)
}

pub const MAX_MSG_SIZE: u32 = 4096;
pub const FRONTEND_REQ_MAX: u32 = 44;
pub const BACKEND_REQ_MAX: u32 = 10;
pub const GPU_REQ_MAX: u32 = 12;

fn no_wrap(a: u64, len: u64) -> bool {
    // the range [a, a+len) must not wrap the 64-bit space (a+len representable)
    (a as u128) + (len as u128) <= u64::MAX as u128
}

/// 12-byte header of the frontend channel (request codes 1..=44) or backend channel (1..=10).
pub fn header_valid(bytes: &[u8], max_code: u32) -> bool {
    let code = rd_u32(bytes, 0);
    let flags = rd_u32(bytes, 4);
    let size = rd_u32(bytes, 8);
    (1..=max_code).contains(&code) && size <= MAX_MSG_SIZE && (flags & 0x3) == 1 && (flags & !0xf) == 0
}

/// vhost-user-gpu header: known code, only the REPLY bit.
pub fn gpu_header_valid(bytes: &[u8]) -> bool {
    let code = rd_u32(bytes, 0);
    let flags = rd_u32(bytes, 4);
    (1..=GPU_REQ_MAX).contains(&code) && (flags & !0x4) == 0
}

/// VhostUserMemory: u32 nregions, u32 padding.
pub fn mem_table_hdr_valid(b: &[u8]) -> bool {
    let n = rd_u32(b, 0);
    let pad = rd_u32(b, 4);
    pad == 0 && (1..=32).contains(&n)
}

/// Memory region: gpa, size, user_addr, mmap_offset.
pub fn region_valid(gpa: u64, size: u64, user: u64, off: u64) -> bool {
    size != 0 && no_wrap(gpa, size) && no_wrap(user, size) && no_wrap(off, size)
}

pub fn region_bytes_valid(b: &[u8]) -> bool {
    region_valid(rd_u64(b, 0), rd_u64(b, 8), rd_u64(b, 16), rd_u64(b, 24))
}

/// Single region (ADD/REM_MEM_REG): u64 padding followed by a region; same region rules.
pub fn single_region_bytes_valid(b: &[u8]) -> bool {
    region_bytes_valid(&b[8..40])
}

/// Vring address: index u32, flags u32, descriptor u64, used u64, available u64, log u64.
pub fn vring_addr_valid(flags: u32, desc: u64, used: u64, avail: u64) -> bool {
    (flags & !0x1) == 0 && desc % 16 == 0 && avail % 2 == 0 && used % 4 == 0
}

pub fn vring_addr_bytes_valid(b: &[u8]) -> bool {
    vring_addr_valid(rd_u32(b, 4), rd_u64(b, 8), rd_u64(b, 16), rd_u64(b, 24))
}

/// Config: offset u32, size u32, flags u32.
pub fn config_valid(offset: u32, size: u32, flags: u32) -> bool {
    size >= 1 && (offset as u64) + (size as u64) <= 0x1000 && (flags & !0x3) == 0
}

pub fn config_bytes_valid(b: &[u8]) -> bool {
    config_valid(rd_u32(b, 0), rd_u32(b, 4), rd_u32(b, 8))
}

/// Inflight: mmap_size u64, mmap_offset u64, num_queues u16, queue_size u16.
pub fn inflight_bytes_valid(b: &[u8]) -> bool {
    rd_u16(b, 16) != 0 && rd_u16(b, 18) != 0
}

/// Log: mmap_size u64, mmap_offset u64.
pub fn log_valid(size: u64, off: u64) -> bool {
    size != 0 && no_wrap(off, size)
}

pub fn log_bytes_valid(b: &[u8]) -> bool {
    log_valid(rd_u64(b, 0), rd_u64(b, 8))
}

/// Transfer state: direction u32 in {0 save, 1 load}, phase u32 in {0 stopped}.
pub fn transfer_bytes_valid(b: &[u8]) -> bool {
    rd_u32(b, 0) <= 1 && rd_u32(b, 4) == 0
}

pub fn uuid_bytes_valid(b: &[u8]) -> bool {
    !(b[..16].iter().all(|x| *x == 0) || b[..16].iter().all(|x| *x == 0xff))
}

/// MMap: shmid u8, pad[7], fd_offset u64, shm_offset u64, len u64, flags u64.
pub fn mmap_valid(fd_off: u64, shm_off: u64, len: u64, flags: u64) -> bool {
    len != 0 && no_wrap(fd_off, len) && no_wrap(shm_off, len) && (flags & !0x1) == 0
}

pub fn mmap_bytes_valid(b: &[u8]) -> bool {
    mmap_valid(rd_u64(b, 8), rd_u64(b, 16), rd_u64(b, 24), rd_u64(b, 32))
}
