#!/usr/bin/env python3
"""Runs every registered check (quick tier) against every confirmed seeded change, in a scratch
copy (worktree of /repo under /tmp/sm/repo, copy of vmc under /tmp/sm/vmc), so that /repo and
/verif are never touched. Writes /verif/seeded/MATRIX.json and each seed's meta.json:detected_by.
usage: seedmatrix.py [seed-name ...]"""
import json, os, subprocess, sys, shutil, time

SM = "/tmp/sm"
ENV = dict(os.environ, CARGO_NET_OFFLINE="true", VERIF_ROOT=SM + "/root")

def sh(cmd, cwd=None, timeout=3600):
    p = subprocess.run(cmd, shell=True, executable="/bin/bash", cwd=cwd, env=ENV, capture_output=True, text=True, timeout=timeout)
    return p.returncode, p.stdout + p.stderr

def main():
    os.makedirs(SM + "/root", exist_ok=True)
    if not os.path.isdir(SM + "/repo"):
        rc, o = sh(f"git -C /repo worktree add --detach {SM}/repo main")
        assert rc == 0, o
    sh("git checkout -q --detach main && git reset -q --hard && git clean -fdq", cwd=SM + "/repo")
    shutil.copy("/repo/Cargo.lock", SM + "/repo/Cargo.lock")
    sh(f"rsync -a --delete --exclude target /verif/vmc/ {SM}/vmc/")
    sh(f"sed -i 's|/repo/|{SM}/repo/|g' {SM}/vmc/Cargo.toml")
    shutil.copy("/verif/known_findings.jsonl", SM + "/root/known_findings.jsonl")
    checks = [c["property_id"] for c in json.load(open("/verif/MANIFEST.json"))["checks"]]
    seeds = sys.argv[1:] or sorted(d for d in os.listdir("/verif/seeded") if os.path.isdir(f"/verif/seeded/{d}"))
    matrix = {}
    if os.path.exists("/verif/seeded/MATRIX.json"):
        matrix = json.load(open("/verif/seeded/MATRIX.json"))
    # baseline must be clean
    rc, o = sh("cargo build --release --offline 2>&1 | tail -3", cwd=SM + "/vmc")
    base = {}
    for c in checks:
        rc, o = sh(f"ulimit -n 20000; ./target/release/vmc check {c} --tier quick", cwd=SM + "/vmc")
        base[c] = rc
    print("baseline:", base, flush=True)
    for s in seeds:
        patch = f"/verif/seeded/{s}/patch.diff"
        rc, o = sh(f"git apply --check {patch}", cwd=SM + "/repo")
        if rc != 0:
            print(f"{s}: PATCH DOES NOT APPLY to current HEAD", flush=True)
            matrix[s] = {"error": "patch does not apply to current HEAD"}
            continue
        sh(f"git apply {patch}", cwd=SM + "/repo")
        rc, o = sh("cargo build --release --offline 2>&1 | tail -5", cwd=SM + "/vmc")
        row = {}
        if "error" in o and "Finished" not in o:
            row = {"error": "build failed: " + o[-200:]}
        else:
            for c in checks:
                t = time.time()
                rc, o = sh(f"ulimit -n 20000; timeout 300 ./target/release/vmc check {c} --tier quick", cwd=SM + "/vmc")
                sig = ""
                for line in o.splitlines():
                    if "signature:" in line:
                        sig = line.split("signature:")[1].strip()
                        break
                if rc != 0:
                    row[c] = {"exit": rc, "signature": sig}
        sh("git reset -q --hard", cwd=SM + "/repo")
        matrix[s] = row
        det = sorted(k for k, v in row.items() if isinstance(v, dict) and v.get("exit") == 1)
        print(f"{s}: detected by {det} {[row[k]['signature'] for k in det][:2]}" + ("" if det else "   <<<<<< MISSED") + (f" other={ {k:v for k,v in row.items() if k not in det} }" if any(k not in det for k in row) else ""), flush=True)
        mp = f"/verif/seeded/{s}/meta.json"
        m = json.load(open(mp))
        m["detected_by"] = [{"check": k, "signature": row[k]["signature"]} for k in det]
        json.dump(m, open(mp, "w"), indent=1)
        json.dump(matrix, open("/verif/seeded/MATRIX.json", "w"), indent=1, sort_keys=True)
    shutil.rmtree(SM + "/root/replays", ignore_errors=True)

if __name__ == "__main__":
    main()
