#!/usr/bin/env python3
"""Runs every registered check (quick tier) against every confirmed seeded change, in scratch
copies (worktrees of /repo under /tmp/sm/w<k>/repo, copies of vmc under /tmp/sm/w<k>/vmc), so
that /repo and /verif are never touched. Writes /verif/seeded/MATRIX.json and each seed's
meta.json:detected_by. Scratch directories are removed at the end.
usage: seedmatrix.py [-j N] [seed-name ...]"""
import json, os, subprocess, sys, shutil, time, threading

SM = "/tmp/sm"
lock = threading.Lock()

def sh(cmd, cwd=None, env=None, timeout=3600):
    p = subprocess.run(cmd, shell=True, executable="/bin/bash", cwd=cwd, env=env, capture_output=True, text=True, timeout=timeout)
    return p.returncode, p.stdout + p.stderr

def worker(k, queue, checks, matrix):
    W = f"{SM}/w{k}"
    env = dict(os.environ, CARGO_NET_OFFLINE="true", VERIF_ROOT=W + "/root")
    os.makedirs(W + "/root", exist_ok=True)
    if not os.path.isdir(W + "/repo"):
        rc, o = sh(f"git -C /repo worktree add --detach {W}/repo main")
        assert rc == 0, o
    sh("git checkout -q --detach main && git reset -q --hard && git clean -fdq", cwd=W + "/repo")
    shutil.copy("/repo/Cargo.lock", W + "/repo/Cargo.lock")
    sh(f"rsync -a --delete --exclude target /verif/vmc/ {W}/vmc/")
    sh(f"sed -i 's|/repo/|{W}/repo/|g' {W}/vmc/Cargo.toml")
    shutil.copy("/verif/known_findings.jsonl", W + "/root/known_findings.jsonl")
    rc, o = sh("cargo build --release --offline 2>&1 | tail -3", cwd=W + "/vmc", env=env)
    base = {}
    for c in checks:
        rc, o = sh(f"ulimit -n 20000; ./target/release/vmc check {c} --tier quick", cwd=W + "/vmc", env=env)
        if rc != 0:
            base[c] = rc
    with lock:
        print(f"worker {k}: baseline non-zero exits: {base}", flush=True)
    while True:
        with lock:
            if not queue:
                break
            s = queue.pop(0)
        patch = f"/verif/seeded/{s}/patch.diff"
        rc, o = sh(f"git apply --check {patch}", cwd=W + "/repo")
        if rc != 0:
            with lock:
                print(f"{s}: PATCH DOES NOT APPLY to current HEAD", flush=True)
                matrix[s] = {"error": "patch does not apply to current HEAD"}
            continue
        sh(f"git apply {patch}", cwd=W + "/repo")
        rc, o = sh("cargo build --release --offline 2>&1 | tail -5", cwd=W + "/vmc", env=env)
        row = {}
        if "Finished" not in o:
            row = {"error": "build failed: " + o[-200:]}
        else:
            for c in checks:
                rc, o = sh(f"ulimit -n 20000; timeout 600 ./target/release/vmc check {c} --tier quick", cwd=W + "/vmc", env=env)
                sigs = []
                for line in o.splitlines():
                    if "signature:" in line:
                        sg = line.split("signature:")[1].strip()
                        if sg not in sigs:
                            sigs.append(sg)
                if rc != 0:
                    row[c] = {"exit": rc, "signature": sigs[0] if sigs else "", "signatures": sigs[:6]}
                    if rc != 1:
                        row[c]["machinery"] = [l[:300] for l in o.splitlines() if "MACHINERY" in l or "panicked" in l][:3]
        sh("git reset -q --hard", cwd=W + "/repo")
        det = sorted(kk for kk, v in row.items() if isinstance(v, dict) and v.get("exit") == 1)
        with lock:
            matrix[s] = row
            print(f"{s}: detected by {det} {[row[kk]['signature'] for kk in det][:3]}" + ("" if det else "   <<<<<< MISSED") + (f" other={ {kk:v for kk,v in row.items() if kk not in det} }" if any(kk not in det for kk in row) else ""), flush=True)
            mp = f"/verif/seeded/{s}/meta.json"
            m = json.load(open(mp))
            m["detected_by"] = [{"check": kk, "signature": row[kk]["signature"]} for kk in det]
            json.dump(m, open(mp, "w"), indent=1)
            json.dump(matrix, open("/verif/seeded/MATRIX.json", "w"), indent=1, sort_keys=True)
    sh(f"git -C /repo worktree remove --force {W}/repo")
    shutil.rmtree(W, ignore_errors=True)

def main():
    args = sys.argv[1:]
    j = 1
    if args and args[0] == "-j":
        j = int(args[1])
        args = args[2:]
    checks = [c["property_id"] for c in json.load(open("/verif/MANIFEST.json"))["checks"]]
    seeds = args or sorted(d for d in os.listdir("/verif/seeded") if os.path.isdir(f"/verif/seeded/{d}"))
    matrix = {}
    if os.path.exists("/verif/seeded/MATRIX.json"):
        matrix = json.load(open("/verif/seeded/MATRIX.json"))
    queue = list(seeds)
    ts = [threading.Thread(target=worker, args=(k, queue, checks, matrix)) for k in range(j)]
    for t in ts:
        t.start()
    for t in ts:
        t.join()
    sh("git -C /repo worktree prune")

if __name__ == "__main__":
    main()
